NOTES = "All checks: ./check <id> --tier quick|thorough; exit 0 held / 1 VIOLATION / 2 harness error. Known findings: known_findings.json. See DESIGN.md."
NOT_CLAIMED = {}
_TRUST = "Trusted: the virtual-time loop and inline DB/executor shims (vf/world.py), the independent response reader (vf/wire.py), CPython, sqlite3; the in-process driver feeds IMAPClientProxy.run() through the same {len}\\n framing the front-end uses. Not covered: real sockets/TLS, OS thread preemption."
CLAIMED["C06"] = (
    "exploration",
    "property-based testing: Hypothesis-generated command sequences with boundary arguments, oracle = exactly-one-tagged-reply / no-watchdog / no-drop-without-BYE invariants over the session byte stream",
    "Generated search over command sequences (all commands x boundary arguments x mailbox/session states incl. \\Noselect after restart) with a virtual clock that makes a watchdog-only answer observable at zero real cost; holds on every generated case, absence not established.",
    _TRUST,
    "DESIGN.md section 4 C06",
)
CLAIMED["C05"] = (
    "exploration",
    "property-based testing: Hypothesis-generated command histories, oracle = reference model compared with an observer session's full read-back of every mailbox after every step",
    "Generated histories (APPEND/STORE/EXPUNGE/UID EXPUNGE/CLOSE/COPY/MOVE/EXAMINE/deliveries, sparse UIDs, partly absent UID sets) with a model that changes only on OK and never for an EXAMINE session; every mailbox is re-read after every step, so a message removed, added, re-flagged or re-dated anywhere is seen at the step that caused it.",
    _TRUST + " Commands run one at a time; flags compared modulo \\Recent.",
    "DESIGN.md section 4 C05",
)
CLAIMED["C01"] = (
    "exploration",
    "property-based testing: Hypothesis-generated multi-session histories; oracle = replay of every session's own byte stream into a view (EXISTS/EXPUNGE/FETCH legality, UID binding, marker-STORE landing, equality with the reference list at sync points)",
    "Generated cross-session histories with a black-box replay of each session's stream; each clause of the property is an executable invariant over that replay, and marker keywords make 'which message did sequence number n denote' exact.",
    _TRUST + " Three quarters of the shards run commands one at a time; one quarter runs the shared concurrent mode (vf/props/c01_conc.py: 2-3 sessions with commands in flight under a generated schedule, deliveries in flight, slow clients) with model-free oracles over each session's stream.",
    "DESIGN.md section 4 C01",
)
CLAIMED["C04"] = (
    "exploration",
    "property-based testing: Hypothesis-generated flag histories (model-based), oracle = reference flag model vs. STORE responses, other sessions' streams at their sync points, observer FETCH FLAGS, SEARCH by flag and the raw .mh_sequences file",
    "Generated STORE/FETCH/APPEND/COPY/delivery histories over the whole flag alphabet (system flags, \\Recent, odd and colliding keyword atoms) with a reference model; every clause of the property (issuer report, propagation by the next sync point, read-back, SEARCH agreement, Seen/unseen complement, \\Recent untouchable) is evaluated after every step.",
    _TRUST + " Commands run one at a time; keywords compared case-sensitively.",
    "DESIGN.md section 4 C04",
)
CLAIMED["C02"] = (
    "exploration",
    "property-based testing: Hypothesis-generated message + namespace histories with restarts and packs; oracle = history-long ledger per (mailbox name, UIDVALIDITY) fed by an observer's read-back after every step",
    "Generated histories over message-adding/removing and CREATE/DELETE/RENAME commands, pack and restart; the observer reveals every UID, UIDNEXT and UIDVALIDITY after every step (= every prefix) and a ledger checks ascent, non-reuse, UIDNEXT honesty, APPENDUID/COPYUID truthfulness and incarnation uniqueness. UIDs are constrained, not predicted.",
    _TRUST + " One command session in three quarters of the shards (the namespace model follows tagged results); one quarter runs the shared concurrent mode and checks that COPYUID names exactly the copies made.",
    "DESIGN.md section 4 C02",
)
CLAIMED["C03"] = (
    "exploration",
    "property-based testing: same generated histories; oracle = byte-identical BODY[] and same INTERNALDATE per (incarnation, UID) re-read after every step, plus seq<->UID correspondence probes",
    "Every live message is re-read by UID after every step of generated histories (expunge, pack renumbering files, rename, restart, deliveries) and compared with what that UID first returned; sequence-numbered and UID-numbered fetches are cross-checked at every command boundary in a probed mailbox.",
    _TRUST + " One command session plus observer in three quarters of the shards; one quarter runs the shared concurrent mode (uid -> content over the streams of 2-3 sessions with commands in flight).",
    "DESIGN.md section 4 C03",
)
CLAIMED["C12"] = (
    "exploration",
    "property-based testing: generated histories with restarts at generated points (both the idle-exit and the direct shutdown path); oracle = pure before/after comparison of the complete client-visible state",
    "Metamorphic before/after oracle (no model): LIST, LSUB, STATUS, UIDVALIDITY/UIDNEXT, (UID, message, flags) lists of every mailbox must be equal across an orderly restart inserted anywhere in generated histories that produce sparse UIDs, packed folders, placeholders, renamed trees and subscriptions.",
    _TRUST + " The restart is in-process (shutdown() + new IMAPUserServer on the same directory), 30 virtual idle minutes for the idle-exit path.",
    "DESIGN.md section 4 C12",
)
CLAIMED["C13"] = (
    "exploration",
    "property-based testing: Hypothesis-generated alternations of MH-agent deliveries and IMAP commands (model-based); oracle = session stream replay + observer read-back for announcements, and an independent raw parser of .mh_sequences for the MH side",
    "Generated interleavings of external deliveries (next free number, with/without `unseen`, number reuse after expunging the highest message, inactive mailboxes, restart) with commands from selected/idling/unselected sessions; announcements, UIDs, \\Recent and flags of new messages are checked against the model, and after every flag-changing or removing command the raw .mh_sequences file must mention no removed message and encode exactly the IMAP flags.",
    _TRUST + " The MH agent is the stdlib mailbox.MH; the harness owns the folder mtime ('the mtime has advanced' is made true after each delivery).",
    "DESIGN.md section 4 C13",
)
CLAIMED["C19"] = (
    "exploration",
    "property-based testing: Hypothesis-generated client byte streams x segmentations (plus exhaustive 1- and 2-cut segmentations of canonical streams) through the real IMAPClient.start()/POP3Client.start(); oracle = independent reference tokenizer (lines + literals by octet count) compared with the frames handed to the user process, and byte equality for the server->client relay",
    "Generated streams of commands with (non-)synchronising literals, look-alike literal headers, empty lines and over-limit sizes under generated and exhaustively enumerated segmentations, with a lowered and the real MAX_INPUT_SIZE; the relayed command list, '+' continuations, BADs and resynchronisation after every refusal are compared with a reference tokenizer; response streams with long CRLF-free runs are relayed through msgs_to_client and compared byte for byte; a third slice sends well-formed commands whose literals carry generated payloads (8-bit in utf-8/latin-1, multi-line, brace look-alikes) through the framing of the authenticated side (IMAPClientProxy.run and the user server's command reader) and requires that none is answered BAD or dropped.",
    _TRUST + " Front-ends are driven in-process with fed StreamReaders whose limits are read from the code; no sockets/TLS.",
    "DESIGN.md section 4 C19",
)
CLAIMED["C17"] = (
    "exploration",
    "property-based testing: Hypothesis-generated namespace histories (model-based) with a batch of generated LIST/LSUB/LIST-EXTENDED queries after every step; oracle = reference namespace model + independent */% matcher, subtree snapshots across RENAME, directory-tree and mailboxes-table snapshots across refused commands",
    "Generated CREATE/DELETE/RENAME/SUBSCRIBE histories with restarts over names with spaces, regex metacharacters and string-prefix relations; LIST/LSUB results (names, \\HasChildren, \\Noselect, \\Subscribed, CHILDINFO) are compared with a model updated only by OK-tagged commands; RENAME must carry every (uid, message, flags) and UIDVALIDITY; a refused command must leave disk and database untouched.",
    _TRUST + " Names are sent as quoted strings; the model follows asimap's documented create/delete conventions.",
    "DESIGN.md section 4 C17",
)
CLAIMED["C18"] = (
    "exploration",
    "property-based testing + bounded exhaustive enumeration: Hypothesis-generated pre-authentication histories through the real IMAP/POP3 front-ends with a recording stub at the subprocess gate; exhaustive enumeration of timed attempt sequences against a reference throttle automaton through check_allow/login_failed, PreAuthenticated.do_login and POP3 _do_pass on a virtual clock",
    "Gate: generated sequences of arbitrary commands and LOGIN / USER+PASS attempts (wrong, empty, disabled, old, near-miss passwords in every encoding) must never reach the user-process stub or touch a mail root before a right-password login is answered OK. Throttle: every timed sequence over small user/address/gap alphabets up to the stated depth is enumerated (exhaustive: true) and each verdict compared with a reference automaton written from the property text; exactly-60-second gaps accept either verdict.",
    _TRUST + " Front-ends are driven in-process; low-iteration password hashes; refusals are assumed not to be recorded as failures (as the code and DESIGN.md state).",
    "DESIGN.md section 4 C18",
)
CLAIMED["C09"] = (
    "exploration",
    "property-based testing: Hypothesis-generated hostile mailbox names x commands x encodings inside a jail with decoy neighbours; oracle = recursive before/after snapshot of everything outside the mail root, refusal of lexically escaping names, and absence of decoy secrets/counts/names in responses",
    "Every name-taking command is exercised with generated escaping names (.., ../x, a/../../x, absolute and doubled-slash paths to things that really exist in the jail) in atom, quoted, literal and literal+ form; the file system outside the user's root must be bit-identical afterwards and no response may leak the decoys.",
    _TRUST + " No symlinks are planted inside the mail root.",
    "DESIGN.md section 4 C09",
)
CLAIMED["C15"] = (
    "exploration",
    "bounded exhaustive enumeration + property-based sampling: every sequence set of <= 2 elements over {0..N+1,*} and ranges, N <= 3 (quick) / 5 (thorough), in each of 13 command forms end-to-end, <= 3 elements at function level; Hypothesis-sampled larger sets for N in 6..9; oracle = reference denotation function",
    "The finite space named by the property is enumerated (exhaustive: true) end-to-end on mailboxes with sparse UIDs, observing what each command touched through marker keywords, COPYUID/destination read-back and source read-back, and compared with an independent denotation (a:b = b:a, * = last, absent UIDs skipped, n:* includes the last, out-of-range sequence number => BAD and nothing touched).",
    _TRUST + " The function-level slice imports sequence_set_to_list/clip_uid_set by name and is skipped (noted in evidence) if they are refactored away.",
    "DESIGN.md section 4 C15",
)
CLAIMED["C20"] = (
    "exploration",
    "property-based testing: Hypothesis-generated POP3 command histories interleaved with IMAP mutations, deliveries, packs and virtual-time advances (plus bounded exhaustive enumeration of small dot-line bodies); oracle = IMAP observer read-back as ground truth for snapshot stability, UIDL = UID, RETR content/octets, and INBOX after QUIT/RSET/drop",
    "Generated interleavings of one or two POP3 sessions with IMAP APPEND/STORE/EXPUNGE/MOVE, MH deliveries and folder packs; numbers, sizes and UIDL values must stay fixed for the session, RETR must deliver exactly the announced octets of the IMAP BODY[] of that UID with correct dot-stuffing, and INBOX after QUIT must be INBOX before minus exactly the marked messages (nothing removed after RSET or a drop).",
    _TRUST + " TOP is judged on framing, identity and prefix-of-message only (the property does not fix its exact line count).",
    "DESIGN.md section 4 C20",
)
CLAIMED["C08"] = (
    "exploration",
    "property-based testing + bounded enumeration + coverage-guided fuzzing: Hypothesis grammar generator producing (sentence, denoted AST) pairs for every command, junk/invalid-by-construction/mutation/token-soup generators for totality, exhaustive enumerations of name spellings, fetch sections, search key pairs, store forms and dates, and (thorough) atheris/libFuzzer campaigns on IMAPClientCommand.parse(); oracle = independent expected AST, full consumption, only-BadCommand-escapes",
    "Grammar-directed generation compares every parsed field with an AST built alongside the sentence (mailbox names with escapes decoded and exact-INBOX mapping, sets, flags, dates as instants, literal bytes, fetch sections/partials/peek, search trees with RFC desugarings, LIST-EXTENDED options); mutations, truncations and fuzzing check totality (only BadCommand may escape). One open known finding: trailing text after a complete command is accepted.",
    "Trusted: the expected-AST builder in vf/gen/c08_grammar.py (written from RFC 3501/4315/5258/5819/6851 grammar), CPython. parse() is called in-process; accepted mutants are not judged.",
    "DESIGN.md section 4 C08",
)
CLAIMED["C14"] = (
    "exploration",
    "property-based testing + bounded enumeration: Hypothesis-generated mailboxes and search programs (nested NOT/OR/lists, every key, seq/UID sets, SEARCH and UID SEARCH); oracle = independent three-valued evaluator over FETCH read-back and planted tokens, plus metamorphic Boolean laws on arbitrary programs; exhaustive pairwise combination of an 18-key basis on a fixed mailbox",
    "Every generated program is judged by an evaluator written without asimap (flags vs FETCH FLAGS, sizes vs RFC822.SIZE, dates vs INTERNALDATE/Date header where unambiguous, planted/absent tokens) and by the laws NOT p = ALL - p, OR = union, juxtaposition = list = intersection, NEW/OLD/UN* definitions, UID SEARCH = SEARCH mapped through the UID table, ascending duplicate-free results.",
    _TRUST + " 7-bit messages only; keys whose truth is ambiguous under RFC 3501 (date boundaries across zones, BODY over MIME headers, keyword case) are not asserted.",
    "DESIGN.md section 4 C14",
)
CLAIMED["C16"] = (
    "exploration",
    "property-based testing + bounded enumeration: Hypothesis-generated raw RFC 5322/MIME messages (built byte by byte) plus the repository's fixture corpus, stored by APPEND, COPY and direct MH delivery; oracle = equations between data items (size, HEADER+TEXT, RFC822*, partial slices, repeat), CRLF termination, round-trip of header fields and decoded body for APPEND, byte identity for COPY, part bodies against an independent boundary splitter",
    "Every relation the property states is evaluated on every stored message for all sections the structure admits and generated partial ranges; messages cover rich header sets, encodings, nested multiparts, message/rfc822 at top level and nested, empty bodies, missing final newline, LF/CRLF files. Five open known findings (stdlib re-folding of long header lines; bare LF from two stdlib fallback paths) whose fixes would change recorded-output unit tests.",
    _TRUST + " The independent splitter/field comparer in vf/props/c16.py; encoded words that split a character and MIME parameter quoting are not judged.",
    "DESIGN.md section 4 C16",
)
CLAIMED["C07"] = (
    "exploration",
    "property-based testing: Hypothesis-generated messages (C16's raw MIME generator + fixture corpus), mailbox names, keyword atoms and error-path commands; oracle = strict independent RFC 3501 response parser over every session's whole byte stream, structural validation of ENVELOPE/BODYSTRUCTURE/LIST/STATUS, and round trip of header values and mailbox names",
    "Everything the server writes in a case (FETCH of ENVELOPE/BODYSTRUCTURE/BODY/sections/partials for generated messages, LIST/LSUB/STATUS/SELECT for generated names, flag lists for generated keywords, refusals that echo client text, IDLE misuse) must parse under a strict response reader that shares no code with asimap; decoded Subject/Message-ID/In-Reply-To and mailbox names must equal what was planted.",
    _TRUST + " The response grammar as implemented in vf/wire.py.",
    "DESIGN.md section 4 C07",
)
CLAIMED["C10"] = (
    "exploration",
    "property-based testing with a harness-owned scheduler: Hypothesis generates (commands per session, arrival offsets, a list of latency choices for every DB completion and executor job) jointly and shrinks the schedule towards FIFO; oracle = pure sequential reference model + depth-first search for a session-order-respecting interleaving (COPY = read+add, MOVE = read+add+remove) that reproduces every observed outcome and the final mailbox contents; liveness bound in virtual time",
    "2-3 sessions issue 1-3 commands each concurrently on two mailboxes under generated I/O-completion interleavings; every command must be answered within 100 virtual seconds (no quiescent loop, no spin, no watchdog), and outcomes plus final state must be explained by some sequential order evaluated by a model that knows sequence-number semantics, pending-EXPUNGE refusals and MOVE's delivery rules. A liveness profile adds CLOSE, DELETE/RENAME with queued commands and POP3 QUIT.",
    _TRUST + " Interleavings are those observable on one cooperative event loop (4-value latency alphabet); session order (sequential consistency) as the property states, not cross-session real-time order.",
    "DESIGN.md section 4 C10",
)
CLAIMED["C11"] = (
    "fault_enumeration",
    "fault injection by enumeration: for generated histories (and first start-up / start-up on a version-k database) a counting dry run numbers every durable effect (every statement/commit handed to the SQLite connection; every os.rename/remove/link/mkdir/rmdir/utime/truncate and every open-for-writing, seen by a sys.addaudithook hook; every flush/close/unbuffered write of a writable file, seen by a sys.monitoring CALL hook) and a forked child is killed (os._exit) just before each effect k = 1..K; oracle = recovery in a fresh process compared with snapshots of the acknowledged states and, independently of those, with what the client was told (revealed uid->message pairs, the flags reported by STORE / body FETCH responses, the message listing that ends every step); the recovered server is also stopped and started a second time",
    "Every crash point of each generated history is enumerated (quick: start-up kinds with stride 3; thorough: every point). After each kill the server must start, LIST must work and every selectable mailbox must open; all messages and flags acknowledged before the kill must be there (the in-flight command's effects may be absent, partial or complete), no revealed (UIDVALIDITY, UID) may name another message and UIDNEXT must exceed every revealed UID.",
    "Trusted: the effect counter (sys.monitoring + the inline DB queue), fork/os._exit as the crash model (no torn write(2), no power loss / fsync reordering), determinism of the replayed execution, and C12 for reading snapshots back through a restarted server.",
    "DESIGN.md section 4 C11",
)

NOTES = "All checks: ./check <id> --tier quick|thorough; exit 0 held / 1 VIOLATION / 2 harness error. Known findings: known_findings.json. See DESIGN.md."
NOT_CLAIMED = {}
_TRUST = "Trusted: the virtual-time loop and inline DB/executor shims (vf/world.py), the independent response reader (vf/wire.py), CPython, sqlite3; the in-process driver feeds IMAPClientProxy.run() through the same {len}\\n framing the front-end uses. Not covered: real sockets/TLS, OS thread preemption."
CLAIMED["C06"] = (
    "exploration",
    "property-based testing: Hypothesis-generated command sequences with boundary arguments, oracle = exactly-one-tagged-reply / no-watchdog / no-drop-without-BYE invariants over the session byte stream",
    "Generated search over command sequences (all commands x boundary arguments x mailbox/session states incl. \\Noselect after restart) with a virtual clock that makes a watchdog-only answer observable at zero real cost; holds on every generated case, absence not established.",
    _TRUST,
    "DESIGN.md section 4 C06",
)

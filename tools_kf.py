#!/usr/bin/env python3
"""Maintain known_findings.json (never written by checks at run time).
  tools_kf.py fixed <prop> <id> <commit-subject-substring> <replay-src.json> <what>
  tools_kf.py open  <prop> <id> <clause> <replay-src.json> <what> [sig,sig..]
"""
import json, os, subprocess, sys

HERE = os.path.dirname(os.path.abspath(__file__))
KF = os.path.join(HERE, "known_findings.json")


def commit_of(msg):
    out = subprocess.run(["git", "-C", "/repo", "log", "--format=%h %s"], capture_output=True, text=True).stdout.splitlines()
    for l in out:
        if msg in l:
            return l.split()[0]
    raise SystemExit("no commit matching " + msg)


def main():
    kind, prop, fid = sys.argv[1:4]
    kf = json.load(open(KF)) if os.path.exists(KF) else {"open": [], "fixed": []}
    os.makedirs(os.path.join(HERE, "replays", prop), exist_ok=True)
    if kind == "fixed":
        msg, src, what = sys.argv[4:7]
        c = commit_of(msg)
        rj = json.load(open(src))
        path = f"replays/{prop}/fixed-{fid}.json"
        json.dump({"property": prop, "finding": fid, "status": "fixed", "trace": rj["trace"]}, open(os.path.join(HERE, path), "w"), indent=1)
        kf["fixed"] = [f for f in kf["fixed"] if not (f["id"] == fid and f["property"] == prop)]
        kf["fixed"].append({"id": fid, "property": prop, "commit": c, "what": what, "replay": path, "line": f"fixed: property={prop} {c} {what}"})
    else:
        clause, src, what = sys.argv[4:7]
        sigs = sys.argv[7].split(",") if len(sys.argv) > 7 else None
        rj = json.load(open(src))
        path = f"replays/{prop}/open-{fid}.json"
        json.dump({"property": prop, "finding": fid, "status": "open", "trace": rj["trace"]}, open(os.path.join(HERE, path), "w"), indent=1)
        kf["open"] = [f for f in kf["open"] if not (f["id"] == fid and f["property"] == prop)]
        e = {"id": fid, "property": prop, "clause": clause, "what": what, "replay": path}
        if sigs is not None:
            e["sigs"] = sigs
        kf["open"].append(e)
    json.dump(kf, open(KF, "w"), indent=1)
    print("ok", kind, prop, fid)


main()

#!/usr/bin/env python3
"""Regenerate MANIFEST.json from the table below (keeps it valid at all times)."""
import json, os

CLAIMED = {
    # id: (category, technique, level text, level note)
}
exec(open(os.path.join(os.path.dirname(__file__), "manifest_table.py")).read())

props = [json.loads(l) for l in open(os.path.join(os.path.dirname(__file__), "properties.jsonl"))]
checks = []
na = []
for p in props:
    pid = p["id"]
    if pid in CLAIMED:
        cat, tech, text, note, ref = CLAIMED[pid]
        checks.append({
            "property_id": pid,
            "quick_cmd": f"./check {pid} --tier quick",
            "thorough_cmd": f"./check {pid} --tier thorough",
            "evidence_file": f"evidence/{pid}.json",
            "replay_cmd_template": f"./check {pid} --replay {{path}}",
            "engine": "vf",
            "level_claimed": {"category": cat, "text": text, "design_ref": ref},
            "level_note": note,
            "technique": tech,
        })
    else:
        na.append({"property_id": pid, "reason": NOT_CLAIMED.get(pid, "check not built yet in this round; planned (see DESIGN.md section 4)")})
m = {
    "version": 1,
    "setup_cmd": "./setup.sh",
    "hooks": {
        "guard": "ASIMAP_VERIF",
        "enable": "none needed: all instrumentation is harness-side monkey-patching (vf/world.py); ./check exports ASIMAP_VERIF=1 for symmetry only",
        "baseline_off_cmd": "cd /repo && /venv/bin/python -m pytest -ra -q -p no:cacheprovider --timeout=900 --continue-on-collection-errors",
        "source_commits": [],
        "add_only": True,
    },
    "engines": [{"name": "vf", "path": "vf/", "serves_properties": sorted(CLAIMED), "kind_free_text": "Hypothesis-driven generated search (histories, inputs, schedules, crash points) against explicit oracles on a virtual-time in-process asimap; collect-then-shrink bucketing, ddmin, replay files"}],
    "checks": checks,
    "notes": NOTES,
    "not_applicable": na,
}
json.dump(m, open(os.path.join(os.path.dirname(__file__), "MANIFEST.json"), "w"), indent=1)
print("claimed:", sorted(CLAIMED), "not claimed:", [x["property_id"] for x in na])

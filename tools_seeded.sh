#!/bin/bash
# Run every seeded change (seeded/<dir>/patch.diff, property in meta.json) against its property's check
# in a scratch worktree of /repo HEAD.  Usage: tools_seeded.sh [dir...]   -> one line per change
cd "$(dirname "$0")"
dirs=${@:-$(ls seeded | grep -v RESULTS)}
for d in $dirs; do
  id=$(python3 -c "import json;print(json.load(open('seeded/$d/meta.json'))['property'])" 2>/dev/null)
  [ -z "$id" ] && continue
  s=$(date +%s)
  out=$(./tools_mut.sh seeded/$d/patch.diff $id --tier quick 2>&1 | grep -v "^WARN")
  e=$(date +%s)
  nv=$(echo "$out" | grep -c "^VIOLATION")
  first=$(echo "$out" | grep -m1 "clause=" | sed 's/^ *//' | cut -c1-160)
  st="MISSED"; [ "$nv" -gt 0 ] && st="caught"
  echo "$out" | grep -q "PATCH DOES NOT APPLY" && st="patch-does-not-apply"
  echo "$out" | grep -q "HARNESS" && st="harness-error"
  echo "$d | $id | $st | $((e-s))s | $first"
done

"""Deterministic world: virtual-time event loop, inline DB / executor, clocks.

Nothing in here is specific to one property.  See DESIGN.md section 3.1.
"""
from __future__ import annotations

import asyncio
import logging
import os
import random
import selectors
import shutil
import sys
import tempfile
from pathlib import Path

from . import setup_path

setup_path()

EPOCH = 1_700_000_000.0  # virtual wall clock = EPOCH + loop.time()
DELAYS_SEQ = (0.0,)
DELAYS_MIX = (0.0, 0.0, 0.001, 0.003, 0.02)


class Quiescent(RuntimeError):
    """The loop has nothing scheduled: whatever is awaited will never finish."""


class Spin(RuntimeError):
    """Too many loop iterations without the awaited thing finishing."""


class ScheduleSource:
    """Source of latency choices.  Either a PRNG or an explicit list (which is
    the interleaving Hypothesis generated; exhausted -> 0)."""

    def __init__(self, seed: int = 0, delays=DELAYS_SEQ, choices=None):
        self.rnd = random.Random(seed)
        self.delays = delays
        self.choices = list(choices) if choices is not None else None
        self.used = 0

    def next(self) -> float:
        self.used += 1
        if self.choices is not None:
            if self.choices:
                return self.delays[self.choices.pop(0) % len(self.delays)]
            return 0.0
        if len(self.delays) == 1:
            return self.delays[0]
        return self.rnd.choice(self.delays)


class _Sel(selectors.DefaultSelector):
    def __init__(self):
        super().__init__()
        self.loop = None

    def select(self, timeout=None):
        lp = self.loop
        if timeout is None:
            raise Quiescent("nothing scheduled")
        if timeout > 0:
            lp._vtime += timeout
        return super().select(0)


class VLoop(asyncio.SelectorEventLoop):
    def __init__(self, sched: ScheduleSource | None = None):
        sel = _Sel()
        super().__init__(sel)
        sel.loop = self
        self._vtime = 1000.0
        self.sched = sched or ScheduleSource()
        self.iterations = 0
        self.max_iterations = None  # set by run_bounded
        self.effect_hook = None  # C11: called before durable effects

    def time(self):
        return self._vtime

    def _run_once(self):
        self.iterations += 1
        if self.max_iterations is not None and self.iterations > self.max_iterations:
            self.max_iterations = None
            raise Spin("iteration budget exhausted")
        super()._run_once()

    def run_in_executor(self, executor, func, *args):
        fut = self.create_future()

        def run():
            if fut.cancelled():
                return
            try:
                r = func(*args)
            except BaseException as e:  # noqa
                if not fut.cancelled():
                    fut.set_exception(e)
            else:
                if not fut.cancelled():
                    fut.set_result(r)

        self.call_later(self.sched.next(), run)
        return fut

    def wall(self) -> float:
        return EPOCH + self._vtime


_CURRENT: dict = {"loop": None}


def current_loop() -> VLoop:
    return _CURRENT["loop"]


class _TimeShim:
    """Stand-in for the `time` module inside asimap modules."""

    def __init__(self, real):
        self._real = real

    def __getattr__(self, name):
        return getattr(self._real, name)

    def time(self):
        lp = _CURRENT["loop"]
        return lp.wall() if lp is not None else self._real.time()

    def monotonic(self):
        lp = _CURRENT["loop"]
        return lp.time() if lp is not None else self._real.monotonic()


_INSTALLED = False


def install() -> None:
    """Patch aiosqlite (inline, FIFO delivery) and asimap's clocks. Idempotent."""
    global _INSTALLED
    if _INSTALLED:
        return
    _INSTALLED = True
    import time as _time

    import aiosqlite.core as core

    class DummyThread:
        def __init__(self, *a, **k):
            pass

        def start(self):
            pass

        def join(self, *a):
            pass

        def is_alive(self):
            return False

    class InlineQ:
        def __init__(self):
            self.last = 0.0

        def put_nowait(self, item):
            fut, fn = item
            lp = _CURRENT["loop"]
            hook = lp.effect_hook if lp is not None else None
            if hook is not None:
                hook("db", fn)
            try:
                res = fn()
                exc = None
            except BaseException as e:  # noqa
                res = None
                exc = e
            if fut is None:
                return
            when = max(lp.time() + lp.sched.next(), self.last)
            self.last = when
            if exc is None:
                lp.call_at(when, core.set_result, fut, res)
            else:
                lp.call_at(when, core.set_exception, fut, exc)

    core.Thread = DummyThread
    core.SimpleQueue = InlineQ

    import asimap.mbox
    import asimap.throttle
    import asimap.user_server

    shim = _TimeShim(_time)
    asimap.mbox.time = shim
    asimap.user_server.time = shim
    asimap.throttle.time = shim
    try:
        import asimap.pop3_client

        if hasattr(asimap.pop3_client, "time"):
            asimap.pop3_client.time = shim
    except Exception:
        pass
    # silence asimap logging: it is voluminous and slows the search a lot
    if os.environ.get("VF_LOG"):
        logging.basicConfig(level=logging.ERROR, stream=sys.stderr)  # debugging aid: show asimap's own tracebacks
    else:
        logging.disable(logging.CRITICAL)


def scratch_base() -> str:
    base = os.environ.get("VERIF_SCRATCH")
    if not base:
        base = "/dev/shm" if os.path.isdir("/dev/shm") and os.access("/dev/shm", os.W_OK) else tempfile.gettempdir()
    return base


def scratch_root() -> Path:
    """This process's scratch directory: inside the run's directory when a run is going on (vf.run.main removes
    that at the end), a directory of its own otherwise."""
    run = os.environ.get("VERIF_SCRATCH_RUN")
    if run and os.path.isdir(run):
        p = Path(run) / f"p{os.getpid()}"
    else:
        p = Path(scratch_base()) / f"asimap-verif-{os.getpid()}"
    p.mkdir(parents=True, exist_ok=True)
    return p


def new_loop(sched: ScheduleSource | None = None) -> VLoop:
    install()
    lp = VLoop(sched)
    _CURRENT["loop"] = lp
    asyncio.set_event_loop(lp)
    return lp


def close_loop(lp: VLoop) -> None:
    try:
        # cancel leftovers
        pending = [t for t in asyncio.all_tasks(lp) if not t.done()]
        for t in pending:
            t.cancel()
        if pending:
            lp.max_iterations = None
            try:
                lp.run_until_complete(asyncio.gather(*pending, return_exceptions=True))
            except BaseException:  # noqa
                pass
    finally:
        try:
            lp.close()
        except Exception:
            pass
        if _CURRENT["loop"] is lp:
            _CURRENT["loop"] = None
        asyncio.set_event_loop(None)


def reset_globals() -> None:
    """Module-level state that must not leak between cases."""
    import asimap.db

    asimap.db.USED_REGEXPS.clear()
    try:
        import asimap.throttle as th

        th.BAD_IP_AUTHS.clear()
        th.BAD_USER_AUTHS.clear()
    except Exception:
        pass
    try:
        import asimap.auth as au

        if hasattr(au, "USERS"):
            au.USERS.clear()
    except Exception:
        pass


def rmtree(p) -> None:
    shutil.rmtree(p, ignore_errors=True)

"""Runner: replay tier, sharded Hypothesis generation with collect-then-shrink
bucketing, ddmin, known findings, evidence.  See DESIGN.md 3.6-3.9."""
from __future__ import annotations

import argparse
import hashlib
import importlib
import json
import multiprocessing as mp
import os
import re
import sys
import time
import traceback

from . import VERIF_DIR, setup_path

setup_path()

KNOWN_FILE = os.path.join(VERIF_DIR, "known_findings.json")
REPLAY_DIR = os.path.join(VERIF_DIR, "replays")
EVIDENCE_DIR = os.path.join(VERIF_DIR, "evidence")
if os.environ.get("VERIF_REPO", "/repo").rstrip("/") != "/repo" or os.environ.get("VERIF_SCRATCH_EVIDENCE"):
    # runs against another tree (mutants, the original snapshot) must not overwrite the evidence of /repo
    EVIDENCE_DIR = os.path.join(VERIF_DIR, "evidence", "alt")


class Violation:
    def __init__(self, prop: str, clause: str, detail: str, trace=None, sig: str = ""):
        self.prop = prop
        self.clause = clause
        self.detail = detail
        self.trace = trace
        self.sig = sig

    def key(self):
        return (self.clause, self.sig)

    def to_json(self):
        return {"property": self.prop, "clause": self.clause, "sig": self.sig, "detail": self.detail, "trace": self.trace}


class CaseResult:
    def __init__(self):
        self.violations: list[Violation] = []
        self.nontrivial = False
        self.labels: list[str] = []
        self.blocked: str | None = None  # other property's defect got in the way
        self.excluded: list[str] = []  # known-finding ids whose trigger was steered away / gated
        self.steps = 0
        self.sample = None  # human-readable transcript
        self.vseconds = 0.0


def case_hash(trace) -> str:
    return hashlib.sha1(json.dumps(trace, sort_keys=True, default=str).encode()).hexdigest()[:16]


# ------------------------------------------------------------ known findings


def load_known(prop: str):
    if not os.path.exists(KNOWN_FILE):
        return [], []
    data = json.load(open(KNOWN_FILE))
    opened = [f for f in data.get("open", []) if f["property"] == prop]
    fixed = [f for f in data.get("fixed", []) if f["property"] == prop]
    return opened, fixed


def open_ids(prop: str) -> set[str]:
    return {f["id"] for f in load_known(prop)[0]}


# ------------------------------------------------------------------- shards


def _shard_main(args):
    modname, tier, seed, shard, nshards, budget = args
    try:
        _limit_resources()
        mod = importlib.import_module(modname)
        return _run_shard(mod, tier, seed, shard, nshards, budget)
    except BaseException as e:  # noqa
        return {"error": f"{type(e).__name__}: {e}\n{traceback.format_exc()}"}


class RealTimeout(BaseException):
    """Real-time guard hit inside one case (inconclusive, never a violation)."""


def _limit_resources():
    import resource

    lim = int(os.environ.get("VERIF_MEM_GB", "6")) * (1 << 30)
    try:
        resource.setrlimit(resource.RLIMIT_AS, (lim, lim))
    except Exception:
        pass


def execute_case(mod, trace):
    """mod.execute(trace); a reply nobody can interpret (driver.ServerGarbage) is a violation of the
    property being checked, not a harness error."""
    from .driver import ServerGarbage

    try:
        return mod.execute(trace)
    except ServerGarbage as e:
        res = CaseResult()
        res.nontrivial = True
        res.violations = [Violation(mod.ID, f"{mod.ID}.observe.garbage", str(e), trace, "garbage")]
        return res


def run_case_guarded(mod, trace, seconds=120):
    """Execute one case under a generous real-time guard (SIGALRM)."""
    import signal

    def onalarm(signum, frame):
        raise RealTimeout()

    old = signal.signal(signal.SIGALRM, onalarm)
    signal.alarm(seconds)
    try:
        return execute_case(mod, trace)
    finally:
        signal.alarm(0)
        signal.signal(signal.SIGALRM, old)


def _run_shard(mod, tier, seed, shard, nshards, budget):
    import hypothesis
    from hypothesis import HealthCheck, Phase, given, settings

    stats = {
        "evaluations": 0,
        "nontrivial": set(),
        "labels": {},
        "blocked": {},
        "excluded": {},
        "steps": 0,
        "vseconds": 0.0,
        "buckets": {},  # key -> shortest violation json
        "bucket_counts": {},
        "samples": [],
        "error": None,
        "inconclusive": False,
        "realtime_guard_hits": [],
    }
    t0 = time.time()
    max_examples = budget["examples"]
    guard = budget.get("guard_s", 3600)

    strat = mod.strategy(tier, shard, nshards)

    def one(trace):
        if time.time() - t0 > guard:
            stats["inconclusive"] = True
            return
        try:
            res = run_case_guarded(mod, trace, budget.get("case_guard_s", 120))
        except RealTimeout:
            stats["realtime_guard_hits"].append(trace)
            stats["inconclusive"] = True
            return
        stats["evaluations"] += 1
        stats["steps"] += res.steps
        stats["vseconds"] += res.vseconds
        for lb in res.labels:
            stats["labels"][lb] = stats["labels"].get(lb, 0) + 1
        for ex in res.excluded:
            stats["excluded"][ex] = stats["excluded"].get(ex, 0) + 1
        if res.blocked:
            stats["blocked"][res.blocked] = stats["blocked"].get(res.blocked, 0) + 1
        if res.nontrivial:
            h = case_hash(trace)
            if h not in stats["nontrivial"]:
                stats["nontrivial"].add(h)
                if len(stats["samples"]) < 3 and res.sample is not None:
                    stats["samples"].append(res.sample)
        for v in res.violations:
            k = json.dumps(v.key())
            stats["bucket_counts"][k] = stats["bucket_counts"].get(k, 0) + 1
            cur = stats["buckets"].get(k)
            size = len(json.dumps(v.trace, default=str))
            if cur is None or size < cur["_size"]:
                j = v.to_json()
                j["_size"] = size
                stats["buckets"][k] = j

    test = given(strat)(one)
    test = hypothesis.seed(seed * 64 + shard)(test)
    test = settings(
        max_examples=max_examples,
        database=None,
        deadline=None,
        derandomize=False,
        report_multiple_bugs=False,
        suppress_health_check=list(HealthCheck),
        phases=[Phase.generate],
    )(test)
    test()
    stats["nontrivial"] = sorted(stats["nontrivial"])
    stats["wall"] = time.time() - t0
    return stats


# -------------------------------------------------------------------- ddmin


def ddmin_steps(mod, trace, clause, sig, max_runs=150):
    """Minimise trace['steps'] keeping a violation with the same clause."""
    if not isinstance(trace, dict) or not isinstance(trace.get("steps"), list):
        return trace

    runs = [0]

    def fails(steps):
        runs[0] += 1
        t = dict(trace)
        t["steps"] = steps
        try:
            res = run_case_guarded(mod, t, 60)
        except (Exception, RealTimeout):
            return False
        return any(v.clause == clause and v.sig == sig for v in res.violations)

    steps = list(trace["steps"])
    n = 2
    while len(steps) >= 2 and runs[0] < max_runs:
        chunk = max(1, len(steps) // n)
        reduced = False
        for i in range(0, len(steps), chunk):
            cand = steps[:i] + steps[i + chunk :]
            if cand and fails(cand):
                steps = cand
                n = max(n - 1, 2)
                reduced = True
                break
            if runs[0] >= max_runs:
                break
        if not reduced:
            if chunk == 1:
                break
            n = min(len(steps), n * 2)
    t = dict(trace)
    t["steps"] = steps
    if hasattr(mod, "simplify"):
        try:
            t = mod.simplify(t, lambda tt: any(v.clause == clause for v in execute_case(mod, tt).violations))
        except Exception:
            pass
    return t


# --------------------------------------------------------------------- main


def finding_matches(mod, finding, vj) -> bool:
    if hasattr(mod, "finding_matches"):
        # the module decides (it may accept several clauses for one cause)
        if finding.get("clause") and finding["clause"] != vj["clause"] and vj["clause"] not in finding.get("clauses", []):
            return False
        return bool(mod.finding_matches(finding, vj))
    if finding.get("clause") and finding["clause"] != vj["clause"]:
        return False
    sigs = finding.get("sigs")
    if sigs is not None:
        return vj.get("sig") in sigs
    return True


def main(argv=None):
    """Everything a run writes outside /verif lives in one directory per run (shards and forked children make
    their own sub-directories in it); it is removed when the run ends, and so are the directories of runs whose
    process is gone (killed by a timeout)."""
    import shutil

    from .world import scratch_base

    base = scratch_base()
    for name in os.listdir(base):
        m = re.fullmatch(r"asimap-verif-run-(\d+)", name)
        if m and not os.path.exists(f"/proc/{m.group(1)}"):
            shutil.rmtree(os.path.join(base, name), ignore_errors=True)
    run_dir = os.path.join(base, f"asimap-verif-run-{os.getpid()}")
    os.makedirs(run_dir, exist_ok=True)
    os.environ["VERIF_SCRATCH_RUN"] = run_dir
    try:
        return _main(argv)
    finally:
        shutil.rmtree(run_dir, ignore_errors=True)


def _main(argv=None):
    ap = argparse.ArgumentParser()
    ap.add_argument("prop")
    ap.add_argument("--tier", default=os.environ.get("VERIF_TIER", "quick"))
    ap.add_argument("--replay")
    ap.add_argument("--shards", type=int, default=None)
    ap.add_argument("--examples", type=int, default=None)
    args = ap.parse_args(argv)
    _limit_resources()
    prop = args.prop.upper()
    tier = args.tier if args.tier in ("quick", "thorough") else "quick"
    seed = int(os.environ.get("VERIF_SEED", "1") or 1)
    t0 = time.time()
    try:
        modname = f"vf.props.{prop.lower()}"
        mod = importlib.import_module(modname)
    except Exception:
        traceback.print_exc()
        print(f"HARNESS-ERROR: cannot import check for {prop}")
        return 2

    if args.replay:
        return replay_one(mod, prop, args.replay)

    opened, fixed = load_known(prop)
    violations_out = []  # (clause, path)
    known_seen = {}
    replays_run = 0

    # ---- replay tier --------------------------------------------------
    rdir = os.path.join(REPLAY_DIR, prop)
    if os.path.isdir(rdir):
        for fn in sorted(os.listdir(rdir)):
            if not fn.endswith(".json"):
                continue
            path = os.path.join(rdir, fn)
            rj = json.load(open(path))
            try:
                res = execute_case(mod, rj["trace"])
            except Exception:
                traceback.print_exc()
                print(f"HARNESS-ERROR: replay {path} crashed")
                return 2
            replays_run += 1
            fid = rj.get("finding")
            f_open = next((f for f in opened if f["id"] == fid), None)
            for v in res.violations:
                vj = v.to_json()
                if f_open is not None and finding_matches(mod, f_open, vj):
                    known_seen[f_open["id"]] = f_open
                    continue
                m = next((f for f in opened if finding_matches(mod, f, vj)), None)
                if m is not None:
                    known_seen[m["id"]] = m
                    continue
                rel = os.path.relpath(path, VERIF_DIR)
                violations_out.append((v.clause, rel, v.detail))

    # ---- generation tier ----------------------------------------------
    budget = mod.budget(tier)
    nshards = args.shards or budget.get("shards", 16)
    if args.examples:
        budget["examples"] = args.examples
    jobs = [(modname, tier, seed, sh, nshards, budget) for sh in range(nshards)]
    if nshards == 1:
        results = [_shard_main(jobs[0])]
    else:
        from concurrent.futures import ProcessPoolExecutor
        from concurrent.futures.process import BrokenProcessPool

        ctx = mp.get_context("fork")
        try:
            with ProcessPoolExecutor(min(nshards, os.cpu_count() or 1), mp_context=ctx) as pool:
                results = list(pool.map(_shard_main, jobs))
        except BrokenProcessPool:
            print("HARNESS-ERROR: a shard worker died")
            return 2

    errs = [r["error"] for r in results if r.get("error")]
    if errs:
        print(errs[0])
        print(f"HARNESS-ERROR: {len(errs)} shard(s) failed")
        return 2

    total = {"evaluations": 0, "steps": 0, "vseconds": 0.0}
    nontriv = set()
    labels, blocked, excluded, bucket_counts = {}, {}, {}, {}
    buckets = {}
    samples = []
    inconclusive = False
    guard_hits = []
    for r in results:
        total["evaluations"] += r["evaluations"]
        total["steps"] += r["steps"]
        total["vseconds"] += r["vseconds"]
        nontriv.update(r["nontrivial"])
        inconclusive = inconclusive or r["inconclusive"]
        guard_hits.extend(r.get("realtime_guard_hits", []))
        for d, src in ((labels, r["labels"]), (blocked, r["blocked"]), (excluded, r["excluded"]), (bucket_counts, r["bucket_counts"])):
            for k, v in src.items():
                d[k] = d.get(k, 0) + v
        for k, vj in r["buckets"].items():
            if k not in buckets or vj["_size"] < buckets[k]["_size"]:
                buckets[k] = vj
        for s in r["samples"]:
            if len(samples) < 4:
                samples.append(s)

    # extra (enumerations etc.)
    extra_cov = {}
    if hasattr(mod, "extra"):
        try:
            ex = mod.extra(tier, seed)
        except Exception:
            traceback.print_exc()
            print("HARNESS-ERROR: extra() crashed")
            return 2
        total["evaluations"] += ex.get("evaluations", 0)
        nontriv.update(ex.get("nontrivial", []))
        for vj in ex.get("violations", []):
            k = json.dumps([vj["clause"], vj.get("sig", "")])
            vj["_size"] = len(json.dumps(vj["trace"], default=str))
            if k not in buckets or vj["_size"] < buckets[k]["_size"]:
                buckets[k] = vj
            bucket_counts[k] = bucket_counts.get(k, 0) + 1
        for s in ex.get("samples", []):
            if len(samples) < 6:
                samples.append(s)
        extra_cov = ex.get("coverage", {})

    # ---- classify buckets ---------------------------------------------
    os.makedirs(os.path.join(EVIDENCE_DIR, "replay"), exist_ok=True)
    bucket_report = []
    for k, vj in sorted(buckets.items()):
        m = next((f for f in opened if finding_matches(mod, f, vj)), None)
        if m is not None:
            known_seen[m["id"]] = m
            bucket_report.append({"clause": vj["clause"], "sig": vj["sig"], "count": bucket_counts.get(k, 0), "known": m["id"]})
            continue
        trace = vj["trace"]
        try:
            trace = ddmin_steps(mod, trace, vj["clause"], vj["sig"])
        except Exception:
            pass
        h = case_hash([vj["clause"], vj["sig"], trace])
        rel = os.path.join(os.path.relpath(EVIDENCE_DIR, VERIF_DIR), "replay", f"{prop}-{h}.json")
        with open(os.path.join(VERIF_DIR, rel), "w") as f:
            json.dump({"property": prop, "clause": vj["clause"], "sig": vj["sig"], "detail": vj["detail"], "trace": trace}, f, indent=1, default=str)
        violations_out.append((vj["clause"], rel, vj["detail"]))
        bucket_report.append({"clause": vj["clause"], "sig": vj["sig"], "count": bucket_counts.get(k, 0), "known": None, "replay": rel})

    for g in guard_hits[:3]:
        print("INCONCLUSIVE: a case hit the real-time guard: " + json.dumps(g, default=str)[:300])
    for fid, f in sorted(known_seen.items()):
        print(f"KNOWN-FINDING: property={prop} {fid}: {f['what']}")
    for clause, rel, detail in violations_out:
        print(f"VIOLATION property={prop} replay={rel}")
        print(f"  clause={clause} {detail[:300]}")

    wall = time.time() - t0
    cov = {
        "evaluations": total["evaluations"],
        "distinct_nontrivial": len(nontriv),
        "rule": mod.RULE,
        "samples": samples[:6],
        "labels": labels,
        "steps": total["steps"],
        "virtual_seconds": round(total["vseconds"], 1),
        "excluded_by_known_finding": excluded,
        "blocked_by": blocked,
        "buckets": bucket_report,
        "replays_run": replays_run,
        "shards": nshards,
        "inconclusive_time_guard": inconclusive,
        "realtime_guard_hits": guard_hits[:3],
    }
    cov.update(extra_cov)
    ev = {
        "property_id": prop,
        "tier": tier,
        "seed": seed,
        "level": getattr(mod, "LEVEL", "exploration"),
        "coverage": cov,
        "assumptions": getattr(mod, "ASSUMPTIONS", []),
        "wall_s": round(wall, 2),
        "violations": len(violations_out),
    }
    os.makedirs(EVIDENCE_DIR, exist_ok=True)
    with open(os.path.join(EVIDENCE_DIR, f"{prop}.json"), "w") as f:
        json.dump(ev, f, indent=1, default=str)
    print(
        f"{prop} {tier} seed={seed}: {total['evaluations']} cases, {len(nontriv)} distinct non-trivial, "
        f"{len(violations_out)} violation(s), {len(known_seen)} known finding(s), {wall:.1f}s"
    )
    if violations_out:
        return 1
    if total["evaluations"] == 0 or len(nontriv) < 2:
        print("HARNESS-ERROR: fewer than 2 non-trivial cases generated")
        return 2
    return 0


def replay_one(mod, prop, path):
    if not os.path.isabs(path):
        path = os.path.join(VERIF_DIR, path)
    rj = json.load(open(path))
    res = execute_case(mod, rj["trace"])
    if isinstance(res.sample, list):
        for t in res.sample[-60:]:
            print("  " + json.dumps(t, default=str)[:230])
    elif res.sample is not None:
        print(json.dumps(res.sample, indent=1, default=str)[:6000])
    if res.violations:
        for v in res.violations:
            print(f"VIOLATION property={prop} replay={os.path.relpath(path, VERIF_DIR)}")
            print(f"  clause={v.clause} {v.detail[:600]}")
        return 1
    print(f"{prop}: replay holds")
    return 0


if __name__ == "__main__":
    sys.exit(main())

"""Verification framework for scanner/asimap (property-based testing / fuzzing).

Import order matters: `vf.world` must be imported (and `install()` called)
before any `asimap` module creates an aiosqlite connection.
"""
import os
import sys

VERIF_DIR = os.path.dirname(os.path.dirname(os.path.abspath(__file__)))
REPO = os.environ.get("VERIF_REPO", "/repo")


def setup_path() -> None:
    """Make `asimap` importable from the working tree under test."""
    if REPO not in sys.path:
        sys.path.insert(0, REPO)
    deps = os.path.join(VERIF_DIR, ".deps")
    if os.path.isdir(deps) and deps not in sys.path:
        sys.path.append(deps)

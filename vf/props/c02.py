"""C02 - UIDs strictly ascending and never reused; UIDNEXT and UIDVALIDITY honest."""
from __future__ import annotations

from ..driver import Hang
from ..run import CaseResult, open_ids
from ..uidfam import Fam, trace_strategy
from . import c01_conc as CONC

ID = "C02"
LEVEL = "exploration"
RULE = (
    "Hypothesis-generated histories (5-28 steps) of APPEND, COPY/MOVE into, EXPUNGE of arbitrary subsets (incl. the highest "
    "UID and everything), external deliveries, folder pack (FOLDER_SIZE_PACK_LIMIT lowered to 4/5, virtual-time advances let "
    "the management task pack), CREATE/DELETE/re-CREATE of the same name, RENAME (incl. INBOX and subtrees), "
    "SUBSCRIBE-then-DELETE placeholders and restart over 7 mailbox names; after EVERY step an observer reads LIST, and for "
    "each selectable mailbox STATUS (MESSAGES UIDNEXT UIDVALIDITY) + EXAMINE + FETCH 1:* (UID tag). A history-long ledger per "
    "(name, UIDVALIDITY) checks every clause of C02. Non-trivial = a new UID was assigned after an expunge of the then-highest "
    "UID, after a restart, after a rename, or in a re-created name; distinct = distinct trace hash."
)
ASSUMPTIONS = [
    "one command session plus one observer; commands run one at a time",
    "messages are identified by a unique X-VF-Tag header (a COPY keeps the tag)",
    "the namespace model follows the tagged result: OK => the command's effect, NO/BAD => none",
]
OPEN = open_ids(ID)


def strategy(tier, shard, nshards):
    # every fourth shard: commands in flight plus deliveries (also into the destination of a COPY): c01_conc.py,
    # judged here by "the uids a COPYUID code names are the copies of those messages"
    if shard % 4 == 3:
        return CONC.strategy()
    return trace_strategy(tier, restart_w=2, ns_w=2)


def budget(tier):
    if tier == "quick":
        return {"examples": 70, "shards": 16, "guard_s": 900}
    return {"examples": 1800, "shards": 16, "guard_s": 7200}


def check(f: Fam, snap, sig):
    f.last_inc = getattr(f, "last_inc", {})
    f.inc_uv = getattr(f, "inc_uv", {})
    f.inc_fresh = getattr(f, "inc_fresh", {})
    for name, info in snap.items():
        if name.startswith("__") or info is None:
            continue
        uv = info["uidvalidity"]
        if uv is None:
            f.v("C02.uidvalidity.missing", f"SELECT {name} gave no UIDVALIDITY", sig)
            continue
        if name not in f.inc:
            f.inc[name] = f.next_inc()
        inc = f.inc[name]
        hist = f.uv_history.setdefault(name, [])
        # --- UIDVALIDITY -----------------------------------------------------
        if inc in f.inc_uv:
            if f.inc_uv[inc] != uv:
                f.v("C02.uidvalidity.changed", f"UIDVALIDITY of {name} changed {f.inc_uv[inc]} -> {uv} although the mailbox was neither deleted nor re-created", sig)
                f.inc_uv[inc] = uv
        else:
            # first observation of this incarnation
            f.inc_uv[inc] = uv
            if hist and uv <= max(hist):
                f.v("C02.uidvalidity.not-larger", f"{name} was deleted and created again: UIDVALIDITY {uv} is not larger than its earlier values {sorted(set(hist))}", sig)
        prev = f.pair_inc.get((name, uv))
        if prev is not None and prev != inc:
            f.v("C02.uidvalidity.pair-reused", f"({name}, UIDVALIDITY {uv}) now names a different incarnation of the mailbox", sig)
        f.pair_inc[(name, uv)] = inc
        if not hist or hist[-1] != uv:
            hist.append(uv)
        key = (name, uv)
        # --- STATUS agrees with SELECT ------------------------------------------
        stt = info.get("status") or {}
        if stt:
            if stt.get("UIDVALIDITY") not in (None, uv):
                f.v("C02.status.disagrees", f"STATUS {name} UIDVALIDITY {stt.get('UIDVALIDITY')} but SELECT says {uv}", sig)
            if info["uidnext"] is not None and stt.get("UIDNEXT") not in (None, info["uidnext"]):
                f.v("C02.status.disagrees", f"STATUS {name} UIDNEXT {stt.get('UIDNEXT')} but SELECT says {info['uidnext']}", sig)
        told = info["uidnext"] if info["uidnext"] is not None else stt.get("UIDNEXT")
        # --- UIDs ---------------------------------------------------------------
        led = f.ledger.setdefault(key, {})
        uids = [x["uid"] for x in info["msgs"]]
        if any(b <= a for a, b in zip(uids, uids[1:])):
            f.v("C02.uid.not-ascending", f"uids of {name} are not strictly ascending with sequence number: {uids}", sig)
        prev_told = f.uidnext.get(key)
        for x in info["msgs"]:
            u, t = x["uid"], x["tag"]
            if u in led:
                if led[u] != t:
                    f.v("C02.uid.rebound", f"uid {u} of ({name}, {uv}) named {led[u]} before and names {t} now", sig)
                    led[u] = t
            else:
                if led and u <= max(led):
                    f.v("C02.uid.reused-or-low", f"new message {t} in ({name}, {uv}) got uid {u}, not above the highest uid ever assigned there ({max(led)})", sig)
                if prev_told is not None and u < prev_told:
                    f.v("C02.uid.below-uidnext", f"new message {t} in ({name}, {uv}) got uid {u} although UIDNEXT {prev_told} had been announced", sig)
                led[u] = t
                if f.events & {"expunge-top", "restart", "rename"} or ("recreated:" + name) in f.events:
                    f.nontrivial = True
        if told is not None:
            if led and told <= max(led):
                f.v("C02.uidnext.low", f"UIDNEXT {told} of ({name}, {uv}) is not above uid {max(led)} already assigned there", sig)
            if prev_told is not None and told < prev_told:
                f.v("C02.uidnext.decreased", f"UIDNEXT of ({name}, {uv}) went {prev_told} -> {told}", sig)
            f.uidnext[key] = max(told, prev_told or 0)
        else:
            f.v("C02.uidnext.missing", f"neither SELECT nor STATUS of {name} told a UIDNEXT", sig)
    # --- APPENDUID / COPYUID ------------------------------------------------------
    for (name, uv, uid, tag, what) in f.acked:
        info = snap.get(name)
        if not info:
            continue
        if info["uidvalidity"] != uv:
            f.v("C02.ack.uidvalidity", f"{what} named UIDVALIDITY {uv} for {name}, the mailbox has {info['uidvalidity']}", what)
            continue
        got = [x["tag"] for x in info["msgs"] if x["uid"] == uid]
        if got != [tag]:
            f.v("C02.ack.uid", f"{what} said {tag} got uid {uid} in {name}; that uid now names {got or 'nothing'}", what)
    f.acked = []


def execute(trace) -> CaseResult:
    if trace.get("kind") == "concurrent":
        return CONC.execute(trace, ID)
    f = Fam(trace, ID)

    async def main():
        await f.boot()
        for n in ("mb", "mb/sub", "other"):
            r = await f.cmd(b"CREATE " + n.encode())
            if r.ok:
                f.inc[n] = f.next_inc()
        for i in range(trace.get("prefill", 6)):
            await f.do({"op": "append", "box": 4 * (i % 2), "date": i})
        check(f, await f.observe_world(), "setup")
        for s in f.prologue() + trace["steps"]:
            await f.do(s)
            sig = s["op"] + ("-inbox" if s["op"] == "rename" and f.name_of(s["box"]) == "inbox" else "")
            check(f, await f.observe_world(), sig)
        check(f, await f.observe_world(full=True), "end")

    try:
        f.w.run(main())
    except Hang as e:
        f.v("C06.deadlock", str(e))
    finally:
        f.res.vseconds = f.w.loop.time() - 1000.0
        f.w.close()
    return f.finish()

"""C13 - mail delivered by MH tools appears correctly; MH tools see IMAP flag changes."""
from __future__ import annotations

from hypothesis import strategies as st

from ..driver import Hang
from ..gen import steps as G
from ..hist import MBOXES, Runner, norm_flags
from ..run import CaseResult, open_ids

from . import c01_conc as CONC
ID = "C13"
LEVEL = "exploration"
RULE = (
    "Hypothesis-generated alternations (8-26 steps, 2 sessions, mailboxes inbox/mb/other) of MH-agent deliveries (1-3 "
    "messages, with or without the `unseen` sequence, stdlib mailbox.MH picks the next free number, then the folder mtime is "
    "advanced) with IMAP commands from selected, idling and unselected sessions (STORE, EXPUNGE incl. the highest message so "
    "that a later delivery reuses the freed number, MOVE/COPY, CLOSE, FETCH, NOOP, IDLE), virtual-time advances (polls), "
    "restart, and deliveries into a mailbox nobody has opened. Oracle: (a) after a poll interval every selected session's "
    "replayed view ends with the new messages, which have fresh larger UIDs, \\Recent and exactly the agent's flags, older "
    "messages unchanged; (b) after every completed flag-changing/removing command the RAW .mh_sequences of that folder "
    "mentions no key without a file and encodes exactly the model's flags. Non-trivial = a delivery that reuses a freed "
    "message number, or a delivery between a STORE and the next resync; distinct = distinct trace hash."
)
ASSUMPTIONS = [
    "the MH agent is the stdlib mailbox.MH; 'the mtime has advanced' is made true by the harness after each delivery",
    "message file <-> model message mapping is by ascending message number = order of arrival (pack preserves order)",
    "\\Recent of a delivery is asserted only if no FLAGS-fetching command ran between the delivery and the check",
]
OPEN = open_ids(ID)

SEQ_OF = {"\\Seen": "Seen", "\\Answered": "replied", "\\Flagged": "flagged", "\\Deleted": "Deleted", "\\Draft": "Draft"}


def step_expunge_top(n):
    return st.builds(lambda s: {"op": "xtop", "s": s}, G.sess(n))


def strategy(tier, shard, nshards):
    # every fourth shard: commands of 2-3 sessions in flight while an MH agent delivers (c01_conc.py, judged
    # here by "a message delivered unseen and never fetched stays unseen, for IMAP and in .mh_sequences")
    if shard % 4 == 1:
        return CONC.strategy()
    n = 2
    step = st.one_of(
        G.step_select(n), G.step_deliver(3), G.step_deliver(3), G.step_deliver(3), G.step_advance(), G.step_advance(),
        G.step_store(n), G.step_store(n), G.step_delete_flag(n), G.step_expunge(n), step_expunge_top(n), step_expunge_top(n),
        G.step_copy(n), G.step_fetch(n), G.step_noop(n), G.step_idle(n), G.step_unselect(n), G.step_append(n, 3), G.step_restart(),
    )
    mx = 20 if tier == "quick" else 30
    return st.fixed_dictionaries(
        {
            "rseed": st.integers(0, 2**16),
            "profile": st.just("plain"),
            "prefill": st.integers(2, 5),
            "presel": st.integers(0, 1).flatmap(lambda a: st.tuples(st.just(a), st.sampled_from([a, a, 1 - a, None]))),
            "b_idles": st.booleans(),
            "steps": st.lists(step, min_size=8, max_size=mx),
        }
    )


def budget(tier):
    if tier == "quick":
        return {"examples": 90, "shards": 16, "guard_s": 900}
    return {"examples": 2500, "shards": 16, "guard_s": 7200}


class C13Runner(Runner):
    def __init__(self, trace):
        super().__init__(trace, ID, {"C13"})
        self.nontrivial = False
        self.freed_top = {}  # box -> True when its highest-numbered message was removed since the last delivery
        self.flags_fetched_since = {}  # box -> True if a FLAGS fetch may have consumed \Recent
        self.store_since_resync = {}
        self.fresh = {}  # box -> [MMsg] delivered, not yet verified as announced

    async def observe(self, name, full=False):
        info = await super().observe(name, full)
        self.consume_recent(name)  # the observer's FETCH FLAGS consumes \Recent
        return info

    def consume_recent(self, name):
        self.flags_fetched_since[name] = True
        for m in self.fresh.get(name, []):
            m.recent_consumed = True

    async def op_xtop(self, s):
        """Delete + expunge the LAST message of the selected mailbox (frees the highest number)."""
        stt = self.sess(s["s"])
        if stt.sel is None or not stt.sess.alive or stt.examine:
            return None
        r = await self.op_store({"op": "store", "s": s["s"], "uid": False, "set": [{"k": "*"}], "act": 0, "silent": True, "flags": [3]})
        if r is None or not r.ok:
            return r
        return await self.op_expunge({"op": "expunge", "s": s["s"], "uid": False, "set": []})

    def check_mh(self, name: str, what: str, sig: str):
        box = self.model.boxes[name]
        files = self.w.folder_files(name)
        seqs = self.w.raw_sequences(name)
        stale = {k: sorted(v - set(files)) for k, v in seqs.items() if v - set(files)}
        if stale:
            self.v("C13.mh.stale-keys", f"after {what}: .mh_sequences of {name} mentions message numbers without a file: {stale}", sig)
        if len(files) != len(box.msgs):
            return  # an unnoticed delivery or an unfinished step: mapping unknown
        for k, m in zip(files, box.msgs):
            if m.origin == "deliver" and m.uid is None and not getattr(m, "announced", False):
                continue
            want = {SEQ_OF.get(f, f) for f in m.flags}
            want.add("Seen") if "\\Seen" in m.flags else want.add("unseen")
            got = {n for n, ks in seqs.items() if k in ks and n != "Recent"}
            if got != want:
                self.v("C13.mh.flags", f"after {what}: message {k} ({m.tag}) of {name} is in sequences {sorted(got)}, IMAP flags {sorted(m.eff_flags())} mean {sorted(want)}", sig)
                return

    async def check_announced(self, what: str):
        """After a poll interval: every selected session saw the deliveries."""
        for stt in self.ss.values():
            if not stt.sess.alive or stt.sel is None or stt.broken:
                continue
            box = self.model.boxes[stt.sel]
            pend = [m for m in self.fresh.get(stt.sel, []) if m.alive]
            if not stt.idle and pend:
                # a session that is not idling may have to wait for its next command
                # (EXPUNGEs queued for it must come first, and those need a command)
                await self.op_noop({"op": "noop", "s": stt.name, "check": False})
                if not stt.sess.alive or stt.sel is None:
                    continue
            missing = [m.tag for m in pend if m not in stt.view]
            if missing:
                self.v("C13.announce.missing", f"{what}: session {stt.name} ({'idling' if stt.idle else 'not idling'}) selected on {stt.sel} has not been told about delivered {missing}", "idle" if stt.idle else "selected")
            elif pend and stt.view[-len(pend):] != pend and [m for m in stt.view if m in pend] != pend:
                self.v("C13.announce.order", f"{what}: delivered messages are not at the end of session {stt.name}'s view: {[m.tag for m in stt.view]}", "")

    async def verify_fresh(self, name: str, what: str):
        """Observer: new messages at the end, fresh larger UIDs, \\Recent, the agent's flags."""
        box = self.model.boxes[name]
        pend = [m for m in self.fresh.get(name, []) if m.alive]
        if not pend:
            return
        o = self.obs
        r = await o.cmd(b"EXAMINE " + name.encode())
        recent = None
        if r.ok:
            r2 = await o.cmd(b"UID SEARCH RECENT")
            if r2.ok:
                from .c04 import _nums

                recent = sorted(n for x in r2.untagged("SEARCH") for n in _nums(x))
            await o.cmd(b"UNSELECT")
        recent_pre = recent is not None
        info = await self.observe(name)
        if info is None:
            return
        tags = [x["tag"] for x in info["msgs"]]
        if tags != [m.tag for m in box.msgs]:
            self.v("C13.deliver.list", f"{what}: {name} holds {tags}, expected {[m.tag for m in box.msgs]} (deliveries at the end, nothing else changed)", "")
            self.resync_model(name, info)
            self.fresh[name] = []
            return
        recent_ok = recent_pre
        info = info  # (observe() above has marked \Recent as consumed for later checks)
        for x, m in zip(info["msgs"], box.msgs):
            if m.uid is None:
                m.uid = x["uid"]
            if m in pend:
                old_max = max([y["uid"] for y, o in zip(info["msgs"], box.msgs) if o.arrival < m.arrival and o not in pend] or [0])
                if x["uid"] <= old_max:
                    self.v("C13.deliver.uid", f"{what}: delivered {m.tag} in {name} got uid {x['uid']}, not above the uid {old_max} of a message that was there before", "")
                if recent_ok and not getattr(m, "recent_consumed", False) and x["uid"] not in recent:
                    self.v("C13.deliver.recent", f"{what}: delivered {m.tag} (uid {x['uid']}) in {name} is not \\Recent (UID SEARCH RECENT = {recent})", "")
            gf, ef = norm_flags(x["flags"]), norm_flags(m.eff_flags())
            if gf != ef:
                which = "deliver.flags" if m in pend else "old.flags"
                self.v(f"C13.{which}", f"{what}: {m.tag} (uid {x['uid']}) in {name} has flags {sorted(gf)}, expected {sorted(ef)}" + (" (freed number reused)" if getattr(m, "reused", False) else ""), "reused" if getattr(m, "reused", False) else "")
                m.flags = set(f for f in gf if f != "unseen")
        for m in pend:
            m.announced = True
        self.fresh[name] = []
        self.flags_fetched_since[name] = True


def execute(trace) -> CaseResult:
    if trace.get("kind") == "concurrent":
        return CONC.execute(trace, ID)
    h = C13Runner(trace)

    async def main():
        await h.boot()
        for bi in (0, 1):
            for i in range(trace.get("prefill", 3)):
                await h.do_step({"op": "append", "s": "a", "box": bi, "flags": [i] if i % 2 else [], "date": None})
        for name in MBOXES:
            await h.observe(name)
        ps = trace.get("presel") or (0, None)
        await h.do_step({"op": "select", "s": "a", "box": ps[0], "examine": False})
        if ps[1] is not None:
            await h.do_step({"op": "select", "s": "b", "box": ps[1], "examine": False})
            if trace.get("b_idles"):
                await h.do_step({"op": "idle", "s": "b"})
        h._top = {n: (max(h.w.folder_files(n)) if h.w.folder_files(n) else None) for n in MBOXES}
        for s in trace["steps"]:
            s = dict(s)
            op = s["op"]
            stt = h.ss.get(s.get("s", ""))
            selbox = stt.sel if stt is not None else None
            if op == "deliver":
                name = MBOXES[s["box"] % len(MBOXES)]
                box = h.model.boxes[name]
                nbefore = len(box.history)
                reused = h.freed_top.get(name, False)
                await h.do_step(s)
                new = box.history[nbefore:]
                for m in new:
                    m.reused = reused
                h.fresh.setdefault(name, []).extend(new)
                h.flags_fetched_since[name] = False
                if reused or h.store_since_resync.get(name):
                    h.nontrivial = True
                    h.labels.add("deliver-reuses-number" if reused else "deliver-after-store")
                h.freed_top[name] = False
                continue
            r = await h.do_step(s)
            if op == "advance":
                # the longest poll interval of a mailbox's management task is 20 s (the first poll after
                # a SELECT still uses the no-clients interval), so only a 21 s advance is a full poll interval
                if [0.5, 3, 6, 21][s.get("t", 1) % 4] >= 21:
                    await h.check_announced("after a poll interval")
                    for name in MBOXES:
                        if any(o.sel == name and o.sess.alive for o in h.ss.values()):
                            await h.verify_fresh(name, "after a poll interval")
                            h.store_since_resync[name] = False
                continue
            if op == "restart":
                for name in MBOXES:
                    await h.verify_fresh(name, "after restart")
                continue
            if r is None:
                continue
            sig = op
            if op in ("fetch",) and selbox:
                h.consume_recent(selbox)
            if r.ok and selbox and op in ("store", "expunge", "xtop", "copy", "unselect", "fetch"):
                changed_box = selbox
                if op in ("expunge", "xtop") or (op == "copy" and s.get("move")) or (op == "unselect" and s.get("close")):
                    box = h.model.boxes[changed_box]
                    files = h.w.folder_files(changed_box)
                    # was the highest number freed?  (the next delivery will reuse it)
                    top = getattr(h, "_top", {}).get(changed_box)
                    if top is not None and (not files or max(files) < top):
                        h.freed_top[changed_box] = True
                if op == "store":
                    h.store_since_resync[changed_box] = True
                h.check_mh(changed_box, f"{op} -> OK", sig)
                if op == "copy" and getattr(h, "last_copy", None) and h.last_copy["dst"] in h.model.boxes:
                    h.check_mh(h.last_copy["dst"], "copy/move (destination)", sig + "-dst")
            # remember the highest message number per folder
            h._top = {n: (max(h.w.folder_files(n)) if h.w.folder_files(n) else None) for n in MBOXES}
            if op in ("select", "noop", "append") and r.ok:
                stt = h.ss.get(s.get("s", ""))
                if stt is not None and stt.sel:
                    await h.verify_fresh(stt.sel, f"after {op}")
        for name in MBOXES:
            await h.verify_fresh(name, "at the end")
            h.check_mh(name, "end", "end")

    try:
        h.w.run(main())
    except Hang as e:
        h.v("C06.deadlock", str(e))
    except RuntimeError as e:
        if "setup" in str(e):
            h.blocked = "setup"
        else:
            raise
    finally:
        h.res.vseconds = h.w.loop.time() - 1000.0
        h.w.close()
    res = h.finish()
    res.nontrivial = h.nontrivial
    return res

"""C14 - SEARCH returns exactly the messages that satisfy the criteria."""
from __future__ import annotations

import copy
import datetime as _dt
import os
import re

from hypothesis import strategies as st

from .. import wire
from ..driver import Hang, World
from ..gen import c14_search as G
from ..run import CaseResult, Violation, open_ids

ID = "C14"
LEVEL = "exploration"
RULE = (
    "Hypothesis-generated (mailbox, program batch) pairs: INBOX of 3-8 (thorough: 3-12) tagged 7-bit messages "
    "(single-part / two-part multipart; stored by APPEND with flags + date-time or by MH delivery + utime; 0-3 extra "
    "messages expunged by UID EXPUNGE so that UID != sequence number; optionally the \\Recent of a prefix consumed) with "
    "distinct paddings, INTERNALDATEs and Date headers clustered +-2 days around a base date at hours 0/1/11-13/22/23 "
    "in zones -1200..+1400, tokens from a 16-token pool planted in From/To/Cc/Bcc/Subject(folded)/repeated Comments/"
    "body parts and 4 never-planted tokens; then 4-10 (thorough: 4-14) steps in ONE session: SEARCH / UID SEARCH of a program from the "
    "RFC 3501 grammar (depth <= 3 (4), every key, NOT/OR/parenthesised lists/juxtaposition, arguments taken relative "
    "to the mailbox: size+-1, date+-2d, seq and UID sets incl. *, reversed ranges, absent UIDs; atom/quoted/literal "
    "strings, key and month case, quoted dates, CHARSET), law steps (NOT p vs ALL minus p; OR; p q vs (p q) vs "
    "intersection; SEARCH vs UID SEARCH; NEW/OLD/UNx vs their definitions) and STORE steps that change flags between "
    "segments. Oracle 1: three-valued evaluator over FETCH read-back (UID RFC822.SIZE INTERNALDATE before, UID FLAGS "
    "after each segment) and the planted text; oracle 2: the laws, on every program. "
    "Non-trivial = the case executed a program of nesting depth >= 2 that contains a non-flag key; distinct = trace hash."
)
ASSUMPTIONS = [
    "one session, commands one at a time; DB/executor latency zero",
    "messages are identified by the X-VF-Tag header read back with BODY.PEEK[HEADER.FIELDS]; order = arrival order",
    "\\Recent is read from the first (UID-bearing) FETCH FLAGS row issued after the searches of a segment",
    "BEFORE/ON/SINCE are asserted only when the date in the reported INTERNALDATE, its UTC date and the date "
    "written in the APPEND date-time agree on the answer; SENT* is judged by the date as written in the Date header "
    "(RFC 3501: disregarding time and timezone); messages without a parsable Date header are not judged for SENT*",
    "BODY is judged true when the string is in a text part, false when it is nowhere after the top-level header, "
    "otherwise (MIME part headers, boundaries) not judged; keyword matching is asserted for exact case only",
    "a NO to CHARSET UTF-8 is accepted; keywords avoid MH sequence alias names (C04's finding)",
]

OPEN = open_ids(ID)
# open known findings -> what the generator steers away from
STEER = {"undraft": {"UNDRAFT"}, "header-repeated-field": {"HEADER:repeated"}, "unparsable-date-header": {"baddate"}}


def _excl():
    out = set()
    for fid in OPEN:
        out |= STEER.get(fid, set())
    return frozenset(out)


def strategy(tier, shard, nshards):
    excl = _excl()
    nmax = 10 if tier == "quick" else 14
    return st.fixed_dictionaries(
        {
            "rseed": st.integers(0, 2**16),
            "msgs": G.mailbox_spec(tier, allow_bad_date="baddate" not in excl),
            "split": st.one_of(st.none(), st.integers(0, 12)),
            "excluded": st.just(sorted(f for f in OPEN if f in STEER)),
            "steps": st.lists(G.step(tier, excl), min_size=4, max_size=nmax),
        }
    )


def budget(tier):
    if tier == "quick":
        return {"examples": 150, "shards": 16, "guard_s": 900}
    return {"examples": 3600, "shards": 16, "guard_s": 7200}


_IDATE = re.compile(r"\s*(\d{1,2})-(\w{3})-(\d{4}) (\d\d):(\d\d):(\d\d) ([-+])(\d\d)(\d\d)$")


def parse_idate(val):
    """INTERNALDATE string -> (date as reported, UTC date)."""
    s = bytes(val).decode("latin-1") if isinstance(val, (bytes, bytearray)) else str(val)
    m = _IDATE.match(s)
    if not m:
        return None
    d, mon, y, hh, mm, ss, sg, zh, zm = m.groups()
    mo = [x.lower() for x in G.MONTHS].index(mon.lower()) + 1
    rep = _dt.date(int(y), mo, int(d))
    off = (int(zh) * 60 + int(zm)) * (1 if sg == "+" else -1)
    utc = (_dt.datetime(int(y), mo, int(d), int(hh), int(mm), int(ss)) - _dt.timedelta(minutes=off)).date()
    return rep, utc


class _Stop(Exception):
    pass


def execute(trace) -> CaseResult:
    res = CaseResult()
    res.excluded = list(trace.get("excluded", []))
    specs = trace["msgs"]
    infos = [G.build_message(sp) for sp in specs]
    w = World(rseed=trace["rseed"])
    transcript = []
    viol = {}
    labels = set()
    ctx = G.Ctx()
    state = {"s": None, "nsess": 0, "diag": 0}
    seg = []  # records of the current segment: dict(text, nodes, uid, got)
    memo = {}

    def v(clause, detail, sig=""):
        if (clause, sig) not in viol:
            viol[(clause, sig)] = Violation(ID, clause, detail, trace, sig)

    def block(what):
        res.blocked = what
        raise _Stop()

    async def cmd(line: bytes):
        r = await state["s"].cmd(line)
        if r.hang or r.watchdog:
            transcript.append({"c": line[:90].decode("latin-1"), "r": "watchdog"})
            block("C06")
        return r

    async def reconnect():
        state["nsess"] += 1
        state["s"] = w.session("s%d" % state["nsess"])
        r = await cmd(b"SELECT inbox")
        if not r.ok:
            block("setup")

    async def fetch_static():
        r = await cmd(b"FETCH 1:* (UID RFC822.SIZE INTERNALDATE BODY.PEEK[HEADER.FIELDS (X-VF-Tag)])")
        if not r.ok:
            block("setup")
        rows = {}
        for seq, items in r.fetches():
            if "UID" not in items or "RFC822.SIZE" not in items:
                continue
            h = items.get("BODY[HEADER.FIELDS (X-VF-TAG)]")
            m = re.search(rb"X-VF-Tag:\s*(\S+)", bytes(h or b""), re.I)
            idt = parse_idate(items.get("INTERNALDATE"))
            if m is None or idt is None:
                block("setup")
            rows[seq] = (int(items["UID"]), int(items["RFC822.SIZE"]), idt, m.group(1).decode())
        if sorted(rows) != list(range(1, len(rows) + 1)):
            block("setup")
        return [rows[k] for k in sorted(rows)]

    # ------------------------------------------------------------ searching
    def note_program(nodes):
        lv = G.leaves(nodes)
        for lf in lv:
            labels.add("key:" + G.KEYCLASS.get(lf[0], "?"))
            labels.add("k:" + lf[0])
        for o in G.ops_of(nodes):
            labels.add("op:" + o)
        d = G.depth_of(nodes)
        labels.add("depth:%d" % min(d, 5))
        if d >= 2 and any(G.KEYCLASS.get(lf[0]) != "flag" for lf in lv):
            res.nontrivial = True

    async def raw_search(text: bytes, uid: bool):
        return await cmd((b"UID SEARCH " if uid else b"SEARCH ") + text)

    def positions(r, uid, what, sig):
        """Validate the shape of a SEARCH reply; -> set of 0-based positions or None."""
        sr = r.untagged("SEARCH")
        if len(sr) != 1:
            v("C14.result.shape", f"'{what}': {len(sr)} SEARCH responses; raw={r.raw[:160]!r}", sig)
            return None
        try:
            nums = wire.search_nums(sr[0])
        except wire.Malformed as e:
            v("C14.result.shape", f"'{what}': unreadable SEARCH response {e}", sig)
            return None
        if any(b <= a for a, b in zip(nums, nums[1:])):
            v("C14.result.order", f"'{what}': result not strictly ascending: {nums}", sig)
        out = set()
        if uid:
            pos = {u: i for i, u in enumerate(ctx.uids)}
            for x in nums:
                if x not in pos:
                    v("C14.result.range", f"'{what}': UID SEARCH returned {x}, not a UID of the mailbox {ctx.uids}", "uid")
                else:
                    out.add(pos[x])
        else:
            for x in nums:
                if not 1 <= x <= ctx.n:
                    v("C14.result.range", f"'{what}': SEARCH returned {x}, mailbox has {ctx.n} messages", "seq")
                else:
                    out.add(x - 1)
        return out

    def refusal_sig(key):
        return "SENT*" if key.startswith("SENT") else key

    async def diagnose_refusal(nodes, uid, what, r):
        """Which single key is refused on its own?"""
        culprit = None
        closed = r.closed
        if closed:
            await reconnect()
        if state["diag"] >= 6:
            return  # several refusals of this case are already reported
        state["diag"] += 1
        seen = set()
        for lf in G.leaves(nodes):
            t = G.render_node(lf, ctx)
            if t in seen:
                continue
            seen.add(t)
            r2 = await raw_search(t, uid)
            transcript.append({"c": "diag " + t.decode("latin-1")[:80], "r": r2.status, "closed": r2.closed})
            if r2.closed:
                await reconnect()
            if r2.status != "OK":
                culprit = lf
                break
        sig = refusal_sig(culprit[0]) if culprit else "composite"
        if culprit is not None and culprit[0].startswith("SENT") and any(i.spec.get("datemode") == "bad" for i in ctx.infos):
            sig += ":unparsable-date-header"
        v("C14.refused", f"valid program '{what}' answered {r.status}{' and the connection was closed' if closed else ''}: "
          f"{bytes(r.tagged.text)[:100] if r.tagged is not None and r.tagged.text else r.raw[-120:]!r}", sig)

    async def run_search(nodes, uid=False, kc=0, cs=None):
        """Execute one program; -> set of positions or None when refused."""
        text = G.render(nodes, ctx, kc)
        if cs:
            text = b"CHARSET " + cs.encode() + b" " + text
        key = (text, uid)
        if key in memo:
            return memo[key]
        note_program(nodes)
        what = ("UID SEARCH " if uid else "SEARCH ") + text.decode("latin-1")
        r = await raw_search(text, uid)
        got = None
        if r.status == "OK":
            got = positions(r, uid, what, "")
            transcript.append({"c": what[:150], "r": sorted(x + 1 for x in got) if got is not None else "?"})
        else:
            transcript.append({"c": what[:150], "r": r.status, "closed": r.closed})
            if cs and cs.upper() == "UTF-8" and r.status == "NO" and not r.closed:
                labels.add("charset-refused")
            else:
                await diagnose_refusal(nodes, uid, what, r)
        if uid:
            labels.add("uidsearch")
        if got is not None:
            seg.append({"what": what, "nodes": nodes, "uid": uid, "got": got})
            lv = G.leaves(nodes)
            if len(lv) == 1 and 0 < len(got) < ctx.n:
                labels.add("selective:" + G.KEYCLASS.get(lv[0][0], "?"))
        memo[key] = got
        return got

    # ------------------------------------------------------------- judging
    async def read_flags():
        r = await cmd(b"FETCH 1:* (UID FLAGS)")
        if not r.ok:
            block("setup")
        rows = {}
        for seq, items in r.fetches():
            if "UID" not in items or "FLAGS" not in items or seq in rows:
                continue
            fl = set()
            for f in items["FLAGS"] or ():
                f = f if isinstance(f, str) else bytes(f).decode("latin-1")
                fl.add(f.lower() if f.startswith("\\") else f)
            rows[seq] = (int(items["UID"]), frozenset(fl))
        if sorted(rows) != list(range(1, ctx.n + 1)) or [rows[k][0] for k in sorted(rows)] != ctx.uids:
            block("C01")
        return [rows[k][1] for k in sorted(rows)]

    def mismatches(nodes, got):
        exp = G.eval_program(nodes, ctx)
        return exp, [i for i in range(ctx.n) if exp[i] is not None and (i in got) != exp[i]]

    def leaf_sig(lf, bad):
        sig = lf[0]
        if lf[0] == "HEADER":
            fname = G.HFIELDS[lf[1]].lower()
            if any(fname in ctx.infos[i].repeated for i in bad):
                sig += ":repeated-field"
        return sig

    async def diagnose_mismatch(rec, exp, bad):
        """Name the smallest part of the program that is answered wrongly on its own (stable bucket sig)."""
        nodes = rec["nodes"]
        lv = G.leaves(nodes)
        detail = (f"'{rec['what']}' returned {sorted(x + 1 for x in rec['got'])}; evaluator expects "
                  f"{''.join('1' if e else '0' if e is False else '?' for e in exp)} (by position), wrong at {[i + 1 for i in bad]}")
        single = len(nodes) == 1 and len(lv) == 1 and nodes[0] is lv[0]
        if single and not rec["uid"]:
            v("C14.eval." + G.KEYCLASS.get(lv[0][0], "other"), detail, leaf_sig(lv[0], bad))
            return
        if state["diag"] >= 3:
            return  # this case has already reported three diagnosed mismatches
        state["diag"] += 1
        if rec["uid"]:
            # is it the program, or the UID form of the command?
            t = G.render(nodes, ctx)
            r = await raw_search(t, False)
            if r.closed:
                await reconnect()
            plain = positions(r, False, "SEARCH " + t.decode("latin-1"), "") if r.status == "OK" else None
            ctx.flags = await read_flags()
            if plain is not None and not mismatches(nodes, plain)[1]:
                v("C14.law.uid", detail + f"; the same program as plain SEARCH returned {sorted(x + 1 for x in plain)}, which is right (uids={ctx.uids})", "")
                return
            if single:
                v("C14.eval." + G.KEYCLASS.get(lv[0][0], "other"), detail, leaf_sig(lv[0], bad))
                return
        # every distinct sub-program on its own (leaves first, then composites bottom-up, then the whole
        # program as plain SEARCH); afterwards re-read the flags and judge each against them
        subs = []
        seen = set()

        def add(kind, sub_nodes):
            t = G.render(sub_nodes, ctx)
            if t not in seen:
                seen.add(t)
                subs.append((kind, sub_nodes, t))

        def walk(n):
            k = n[0]
            if k == "NOT":
                walk(n[1])
            elif k == "OR":
                walk(n[1])
                walk(n[2])
            elif k == "AND":
                for c in n[1]:
                    walk(c)
            else:
                return
            add("op", [n])

        for lf in lv:
            add("leaf", [lf])
        for n in nodes:
            walk(n)
        add("whole", nodes)
        runs = []
        for kind, sub_nodes, t in subs[:40]:
            r = await raw_search(t, False)
            if r.status != "OK":
                if r.closed:
                    await reconnect()
                continue
            got = positions(r, False, "SEARCH " + t.decode("latin-1"), "")
            if got is not None:
                runs.append((kind, sub_nodes, t, got))
        ctx.flags = await read_flags()
        for kind, sub_nodes, t, got in runs:
            e2, b2 = mismatches(sub_nodes, got)
            if not b2:
                continue
            more = f"; on its own 'SEARCH {t.decode('latin-1')}' returned {sorted(x + 1 for x in got)}, wrong at {[i + 1 for i in b2]}"
            if kind == "leaf":
                lf = sub_nodes[0]
                v("C14.eval." + G.KEYCLASS.get(lf[0], "other"), detail + more, leaf_sig(lf, b2))
            elif kind == "op":
                v("C14.eval.composite", detail + more + " although its parts are answered correctly", {"AND": "LIST"}.get(sub_nodes[0][0], sub_nodes[0][0]))
            else:
                v("C14.eval.composite", detail + more + " although its keys are answered correctly", "JUXT")
            return
        v("C14.eval.composite", detail + "; every part, and the whole program as plain SEARCH, is answered correctly on its own",
          "recent-dependent" if any(lf[0] in ("RECENT", "NEW", "OLD") for lf in lv) else "UID-SEARCH-only" if rec["uid"] else "not-reproducible")

    def observe_straddle(rec, exp):
        """Not an assertion: which reading of 'the date' does the server follow where the readings differ?"""
        nodes = rec["nodes"]
        if len(nodes) != 1 or G.KEYCLASS.get(nodes[0][0]) not in ("idate", "sent"):
            return
        k = nodes[0][0]
        for i, e in enumerate(exp):
            if e is not None:
                continue
            if G.KEYCLASS[k] == "idate":
                ref, name = ctx.idates[i][0], "reported-internaldate"
            else:
                if ctx.infos[i].hdates is None:
                    continue
                ref, name = ctx.infos[i].hdates[0], "date-as-written"
            d = G.date_value(nodes[0][1], ctx, G.KEYCLASS[k] == "sent")
            truth = ref < d if k.endswith("BEFORE") else ref == d if k.endswith("ON") else ref >= d
            labels.add(f"straddle:{G.KEYCLASS[k]}:{'follows' if truth == (i in rec['got']) else 'DEVIATES-FROM'}:{name}")

    async def end_segment():
        if not seg:
            memo.clear()
            return
        ctx.flags = await read_flags()
        recs = list(seg)
        seg.clear()
        memo.clear()
        judged_all = True
        if any("\\recent" in f for f in ctx.flags) and not all("\\recent" in f for f in ctx.flags):
            labels.add("recent:partial")
        # judge everything against the snapshot first: a diagnosis re-reads the flags (and consumes \Recent)
        verdicts = [(rec,) + tuple(mismatches(rec["nodes"], rec["got"])) for rec in recs]
        for rec, exp, bad in verdicts:
            observe_straddle(rec, exp)
            if any(e is None for e in exp):
                judged_all = False
                labels.add("partly-unjudged")
            if bad:
                await diagnose_mismatch(rec, exp, bad)
        if judged_all:
            labels.add("fully-judged")
        ctx.flags = None

    # --------------------------------------------------------------- steps
    def same(a, b):
        return a is not None and b is not None and a == b

    async def do_law(stp):
        law = stp["law"]
        uid = bool(stp.get("uid"))
        labels.add("law:" + law)
        fmt = lambda s_: sorted(x + 1 for x in s_)  # noqa: E731
        if law == "not":
            p = stp["p"]
            a = await run_search(p, uid)
            b = await run_search([["NOT", G.group(p)]], uid)
            al = await run_search([["ALL"]], uid)
            if None not in (a, b, al) and b != al - a:
                v("C14.law.not", f"p='{G.render(p, ctx).decode('latin-1')}': p={fmt(a)} NOT p={fmt(b)} ALL={fmt(al)}", "")
        elif law == "or":
            p, q = stp["p"], stp["q"]
            a = await run_search(p, uid)
            b = await run_search(q, uid)
            c = await run_search([["OR", G.group(p), G.group(q)]], uid)
            if None not in (a, b, c) and c != a | b:
                v("C14.law.or", f"p='{G.render(p, ctx).decode('latin-1')}' q='{G.render(q, ctx).decode('latin-1')}': p={fmt(a)} q={fmt(b)} OR p q={fmt(c)}", "")
        elif law == "and":
            p, q = stp["p"], stp["q"]
            a = await run_search(p, uid)
            b = await run_search(q, uid)
            c = await run_search(list(p) + list(q), uid)
            d = await run_search([["AND", list(p) + list(q)]], uid)
            if None not in (a, b, c) and c != a & b:
                v("C14.law.and", f"p='{G.render(p, ctx).decode('latin-1')}' q='{G.render(q, ctx).decode('latin-1')}': p={fmt(a)} q={fmt(b)} 'p q'={fmt(c)}", "")
            if None not in (c, d) and c != d:
                v("C14.law.list", f"'{G.render(list(p) + list(q), ctx).decode('latin-1')}'={fmt(c)} but parenthesised={fmt(d)}", "")
        elif law == "uid":
            p = stp["p"]
            a = await run_search(p, False)
            b = await run_search(p, True)
            if None not in (a, b) and a != b:
                v("C14.law.uid", f"p='{G.render(p, ctx).decode('latin-1')}': SEARCH={fmt(a)} UID SEARCH (mapped to positions)={fmt(b)} uids={ctx.uids}", "")
        elif law == "named":
            k = stp["key"]
            if k in G.UNKEY:
                lhs, defs = [[k]], [[["NOT", [G.UNKEY[k]]]]]
            elif k == "UNKEYWORD":
                lhs, defs = [["UNKEYWORD", stp["kw"]]], [[["NOT", ["KEYWORD", stp["kw"]]]]]
            elif k == "NEW":
                lhs, defs = [["NEW"]], [[["RECENT"], ["UNSEEN"]], [["AND", [["RECENT"], ["UNSEEN"]]]]]
            else:
                lhs, defs = [["OLD"]], [[["NOT", ["RECENT"]]]]
            a = await run_search(lhs, uid)
            for dnodes in defs:
                b = await run_search(dnodes, uid)
                if None not in (a, b) and a != b:
                    v("C14.law.named", f"{k}={fmt(a)} but '{G.render(dnodes, ctx).decode('latin-1')}'={fmt(b)}", k)

    async def do_store(stp):
        await end_segment()
        labels.add("store")
        idx = sorted({i % ctx.n for i in stp["set"]})
        if stp.get("uid"):
            st_ = b"UID STORE " + ",".join(str(ctx.uids[i]) for i in idx).encode()
        else:
            st_ = b"STORE " + ",".join(str(i + 1) for i in idx).encode()
        fl = " ".join(sorted({G.FLAGPOOL[f % len(G.FLAGPOOL)] for f in stp["flags"]}))
        line = st_ + b" " + stp["how"].encode() + b"FLAGS" + (b".SILENT" if stp.get("silent") else b"") + b" (" + fl.encode() + b")"
        r = await cmd(line)
        transcript.append({"c": line.decode("latin-1"), "r": r.status})
        if not r.ok:
            block("C04")

    async def main():
        await w.boot()
        state["s"] = s = w.session("a")
        # ---- fill the mailbox
        n_all = len(infos)
        split = trace.get("split")
        split = None if split is None else split % (n_all + 1)
        for idx, info in enumerate(infos):
            sp = info.spec
            if split is not None and idx == split and idx > 0:
                # consume \Recent of what is there so far
                for line in (b"SELECT inbox", b"FETCH 1:* (FLAGS)", b"UNSELECT"):
                    r = await cmd(line)
                    if not r.ok:
                        block("setup")
                labels.add("recent-split")
            if sp["via"] == "deliver" and not sp.get("doomed"):
                keys = w.deliver("inbox", [info.raw], unseen=(0 not in sp["flags"]), bump=False)
                ep = G.idate_epoch(sp["idate"])
                os.utime(w.root / "inbox" / str(keys[0]), (ep, ep))
                w.bump_mtime("inbox")
                labels.add("via:deliver")
            else:
                fl = [G.FLAGPOOL[f] for f in sp["flags"]]
                if sp.get("doomed"):
                    fl = sorted(set(fl) | {"\\Deleted"})
                flb = ("(" + " ".join(fl) + ") ").encode() if fl else b""
                dt = ('"' + G.idate_text(sp["idate"], sp.get("idpad", False)) + '" ').encode()
                r = await cmd(b"APPEND inbox %s%s{%d}\r\n%s" % (flb, dt, len(info.raw), info.raw))
                if not r.ok:
                    transcript.append({"c": "APPEND", "r": r.status, "raw": r.raw[-100:].decode("latin-1")})
                    block("setup")
        r = await cmd(b"SELECT inbox")
        if not r.ok:
            block("setup")
        table = await fetch_static()
        by_tag = {i.tag: i for i in infos}
        doomed = [row[0] for row in table if by_tag.get(row[3]) is not None and by_tag[row[3]].spec.get("doomed")]
        if doomed:
            labels.add("uid-holes")
            r = await cmd(b"UID EXPUNGE " + ",".join(str(u) for u in doomed).encode())
            if not r.ok:
                block("C05")
            table = await fetch_static()
        want = [i.tag for i in infos if not i.spec.get("doomed")]
        if [row[3] for row in table] != want:
            transcript.append({"setup": "mailbox order", "got": [row[3] for row in table], "want": want})
            block("C05")
        if not table:
            block("setup")
        ctx.infos = [by_tag[row[3]] for row in table]
        ctx.uids = [row[0] for row in table]
        ctx.sizes = [row[1] for row in table]
        ctx.idates = [row[2] for row in table]
        if any(b <= a for a, b in zip(ctx.uids, ctx.uids[1:])):
            block("C02")
        if ctx.uids != list(range(1, ctx.n + 1)):
            labels.add("uid!=seq")
        if any(i.spec["kind"] == "multi" for i in ctx.infos):
            labels.add("msg:multipart")
        if any(i.spec.get("datemode") == "none" for i in ctx.infos):
            labels.add("msg:no-date-header")
        if any(i.spec.get("datemode") == "bad" for i in ctx.infos):
            labels.add("msg:unparsable-date-header")
        if any(i.repeated for i in ctx.infos):
            labels.add("msg:repeated-header-field")
        if len(set(ctx.sizes)) == len(ctx.sizes):
            labels.add("sizes-distinct")
        if any(len(ctx.idate_candidates(i)) > 1 for i in range(ctx.n)):
            labels.add("idate-straddles-midnight")
        if any(i.hdates and i.hdates[0] != i.hdates[1] for i in ctx.infos):
            labels.add("hdate-straddles-midnight")
        transcript.append({"mailbox": [{"tag": i.tag, "uid": u, "size": z, "idate": str(d[0])} for i, u, z, d in zip(ctx.infos, ctx.uids, ctx.sizes, ctx.idates)]})
        # ---- the batch
        for stp in trace["steps"]:
            res.steps += 1
            op = stp["op"]
            if op == "search":
                await run_search(stp["p"], bool(stp.get("uid")), stp.get("kc", 0), stp.get("cs"))
            elif op == "law":
                await do_law(stp)
            elif op == "store":
                await do_store(stp)
        await end_segment()

    try:
        w.run(main())
    except _Stop:
        pass
    except Hang as e:
        res.blocked = "C06"
        transcript.append({"hang": str(e)})
    finally:
        res.vseconds = w.loop.time() - 1000.0
        w.close()
    if res.blocked:
        labels.add("blocked:" + res.blocked)
    res.violations = list(viol.values())
    res.sample = transcript
    res.labels = sorted(labels)
    return res


# ------------------------------------------------------- bounded enumeration


def _fixed_mailbox():
    def msg(tag, **kw):
        m = {"kind": "plain", "via": "append", "doomed": False, "datemode": "ok", "from": [[0, 0], [1, 0]], "to": [[2, 0]], "cc": [], "bcc": [],
             "subj": [[3, 0]], "fold": False, "comments": [], "body": [[4, 0]], "body2": [], "pad": 0, "flags": [],
             "idate": [2020, 2, 28, 12, 0, 0, 0], "idpad": False, "hdate": [2020, 2, 28, 12, 0, 0, "+0000", True], "tag": tag}
        m.update(kw)
        return m

    return [
        msg("m0", flags=[0, 5], pad=7, idate=[2020, 2, 27, 12, 0, 0, 0], hdate=[2020, 2, 26, 12, 0, 0, "+0000", True]),
        msg("m1", doomed=True),
        msg("m2", kind="multi", body=[[5, 0]], body2=[[6, 0]], flags=[3], pad=14, idate=[2020, 2, 28, 13, 0, 0, 60], hdate=[2020, 2, 27, 11, 0, 0, "+0100", False]),
        msg("m3", via="deliver", **{"from": [[7, 0], [1, 0]]}, comments=[[[8, 0]]], pad=21, idate=[2020, 2, 29, 11, 0, 0, 0], hdate=[2020, 2, 28, 12, 30, 0, "-0500", True]),
        msg("m4", flags=[0, 2, 5], body=[[4, 1]], pad=28, idate=[2020, 3, 1, 12, 0, 0, -300], hdate=[2020, 2, 29, 13, 0, 0, "GMT", True]),
        msg("m5", doomed=True),
        msg("m6", flags=[1, 4], cc=[[9, 0]], pad=35, idate=[2020, 3, 2, 12, 0, 0, 0], hdate=[2020, 3, 1, 12, 0, 0, "+0000", False]),
    ]


def _basis():
    f = {"pad": False, "q": 0, "mc": 0}
    t = lambda k: {"t": k, "up": 0, "sl": None, "enc": 0}  # noqa: E731
    return [
        ["ALL"], ["SEEN"], ["DELETED"], ["UNANSWERED"], ["RECENT"], ["KEYWORD", 0],
        ["LARGER", {"m": 2, "d": 0}], ["SMALLER", {"m": 2, "d": 0}],
        ["ON", {"m": 1, "d": 0, "f": f}], ["SINCE", {"m": 2, "d": 0, "f": f}], ["SENTBEFORE", {"m": 2, "d": 0, "f": f}],
        ["FROM", t(0)], ["HEADER", 5, 0, t(8)], ["BODY", t(4)], ["TEXT", t(80)], ["TEXT", t(6)],
        ["SEQ", [["r", ["i", 3], ["i", 1]]]], ["UID", [["r", ["u", 2, 0], ["*"]]]],
    ]


def extra(tier, seed):
    """Bounded exhaustive slice: on one fixed mailbox (holes in the UID space, partial \\Recent), every key b of an
    18-key basis as `b`, `NOT b` (SEARCH and UID SEARCH) and every ordered pair as `OR b1 b2`, `b1 b2`, `(b1 b2)`."""
    from ..run import case_hash

    basis = _basis()
    progs = []
    for b in basis:
        for uid in (False, True):
            progs.append((uid, [b]))
            progs.append((uid, [["NOT", b]]))
    for b1 in basis:
        for b2 in basis:
            progs.append((False, [["OR", b1, b2]]))
            progs.append((True, [b1, b2]))
            progs.append((False, [["AND", [b1, b2]]]))
    out = {"evaluations": 0, "nontrivial": [], "violations": [], "samples": [], "coverage": {}}
    chunk = 60
    nprog = unjudged = 0
    for i in range(0, len(progs), chunk):
        steps = [{"op": "search", "uid": u, "cs": None, "kc": 0, "p": p} for u, p in progs[i:i + chunk]]
        trace = {"rseed": seed, "msgs": _fixed_mailbox(), "split": 3, "excluded": [], "steps": steps}
        res = execute(trace)
        if res.blocked:
            continue
        out["evaluations"] += 1
        nprog += len(steps)
        if "partly-unjudged" in res.labels:
            unjudged += 1
        if res.nontrivial:
            out["nontrivial"].append(case_hash(trace))
        for vio in res.violations:
            out["violations"].append(vio.to_json())
    out["coverage"] = {"exhaustive": False, "bounded_slice_enumerated_completely": True, "exhaustive_slice": f"{nprog} programs = basis({len(basis)}) x {{b, NOT b}} x {{SEARCH, UID SEARCH}} + basis^2 x {{OR, juxtaposition, list}} on one fixed 5-message mailbox",
                       "exhaustive_chunks_with_unjudged_positions": unjudged}
    return out


# --------------------------------------------------------------- shrinking


def _subprograms(stp):
    """Simpler variants of one step (smaller programs first)."""
    out = []

    def variants(nodes):
        vs = []
        if len(nodes) > 1:
            for n in nodes:
                vs.append([n])
        for i, n in enumerate(nodes):
            k = n[0]
            kids = [n[1]] if k == "NOT" else [n[1], n[2]] if k == "OR" else list(n[1]) if k == "AND" else []
            for c in kids:
                vs.append(nodes[:i] + [c] + nodes[i + 1:])
        return vs

    if stp["op"] == "search":
        for p in variants(stp["p"]):
            out.append(dict(stp, p=p))
        if stp.get("cs") or stp.get("kc"):
            out.append(dict(stp, cs=None, kc=0))
    elif stp["op"] == "law" and stp["law"] != "named":
        for name in ("p", "q"):
            if name in stp:
                out.append({"op": "search", "uid": bool(stp.get("uid")), "cs": None, "kc": 0, "p": stp[name]})
                for p in variants(stp[name]):
                    out.append(dict(stp, **{name: p}))
    return out


def simplify(trace, fails, max_runs=70):
    """Called by the runner after ddmin over steps: smaller programs, fewer messages, plainer messages.
    Keeps every (clause, sig) the incoming trace shows (the runner's predicate only knows the clause)."""
    runs = [0]
    target = {x.key() for x in execute(trace).violations}
    if not target:
        return trace

    def ok(t):
        if runs[0] >= max_runs:
            return False
        runs[0] += 1
        try:
            return target <= {x.key() for x in execute(t).violations}
        except Exception:
            return False

    t = copy.deepcopy(trace)
    # smaller programs
    progress = True
    while progress and runs[0] < max_runs:
        progress = False
        for si, stp in enumerate(t["steps"]):
            for cand in _subprograms(stp):
                t2 = copy.deepcopy(t)
                t2["steps"][si] = cand
                if ok(t2):
                    t = t2
                    progress = True
                    break
            if progress:
                break
    # fewer messages
    i = len(t["msgs"]) - 1
    while i >= 0 and len(t["msgs"]) > 1 and runs[0] < max_runs:
        t2 = copy.deepcopy(t)
        del t2["msgs"][i]
        if ok(t2):
            t = t2
        i -= 1
    # plainer world
    for mod in (
        lambda tt: tt.__setitem__("split", None),
        lambda tt: [m.update(via="append") for m in tt["msgs"]],
        lambda tt: [m.update(kind="plain", body2=[]) for m in tt["msgs"]],
        lambda tt: [m.update(fold=False, pad=0, flags=[]) for m in tt["msgs"]],
        lambda tt: [m.update(to=[], cc=[], bcc=[]) for m in tt["msgs"]],
    ):
        t2 = copy.deepcopy(t)
        mod(t2)
        if t2 != t and ok(t2):
            t = t2
    return t


def finding_matches(finding, vj):
    sigs = finding.get("sigs")
    if sigs is not None and vj.get("sig") not in sigs:
        return False
    return True

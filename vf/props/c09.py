"""C09 - mailbox names cannot reach outside the user's mail directory."""
from __future__ import annotations

import hashlib
import os

from hypothesis import strategies as st

from .. import wire
from ..driver import Hang, World, quote, tagged_message
from ..run import CaseResult, Violation, open_ids

ID = "C09"
LEVEL = "exploration"
RULE = (
    "A jail directory holds the user's mail root (users/me), a decoy neighbour root (users/other: INBOX with a secret-tagged "
    "message, a sub-mailbox, a non-mail directory, an asimap.db-less tree) and a decoy 'etc'-like tree reachable by absolute "
    "path. After a short benign history, 1-6 name-taking commands (SELECT, EXAMINE, CREATE, DELETE, RENAME src/dst, SUBSCRIBE, "
    "UNSUBSCRIBE, STATUS, APPEND, COPY, MOVE, LIST/LSUB reference and patterns) are sent with Hypothesis-generated hostile names "
    "(.., ../x, a/../../x, absolute and doubled-slash paths to things that exist in the jail, trailing slashes, mixtures) in "
    "atom / quoted (with escapes) / literal / literal+ encodings. Oracle: a recursive snapshot (names, types, sizes, mtimes, "
    "content hashes) of the jail OUTSIDE the mail root is identical before and after every command; a command whose name "
    "lexically escapes the root is answered NO/BAD; no response carries the decoys' secret tokens, their message counts, or "
    "names outside the root. Non-trivial = a name that escapes lexically AND resolves to something that exists in the jail; "
    "distinct = distinct trace hash."
)
ASSUMPTIONS = [
    "'lexically escapes' = after joining with the mail root and normalising, the path is not inside the root (one leading '/' "
    "is asimap's documented namespace prefix and is not an escape by itself)",
    "symlinks are not planted inside the mail root (the property is about names, not about a hostile file system)",
]
OPEN = open_ids(ID)

SECRET = "S3CR3Ttok"
HOSTILE_REL = [
    "..", "../other", "../other/inbox", "../other/sub", "../other/notmail", "../../etc9", "../../etc9/passwd", "a/../../other/inbox",
    "mb/../../other/inbox", "inbox/../../other/inbox", "../me/../other/inbox", "./../other/inbox", "../other/inbox/", "..//other//inbox",
    "../other/new", "../newroot", "../../newtop", "mb/../..", "../other/sub/deeper", "...", "..a", "a..", "a/..b", "mb/..", "mb/../mb",
]
BENIGN = ["inbox", "mb", "mb/sub", "new1", "INBOX", "mb/"]
ENCODINGS = ["atom", "quoted", "literal", "literal+"]
COMMANDS = ["SELECT", "EXAMINE", "CREATE", "DELETE", "RENAME-SRC", "RENAME-DST", "SUBSCRIBE", "UNSUBSCRIBE", "STATUS", "APPEND", "COPY", "MOVE", "LIST-REF", "LIST-PAT", "LSUB-REF", "LSUB-PAT", "UID-COPY"]


def strategy(tier, shard, nshards):
    name = st.one_of(
        st.integers(0, len(HOSTILE_REL) - 1).map(lambda i: {"k": "rel", "i": i}),
        st.integers(0, len(HOSTILE_REL) - 1).map(lambda i: {"k": "rel", "i": i}),
        st.integers(0, 11).map(lambda i: {"k": "abs", "i": i}),
        st.integers(0, len(BENIGN) - 1).map(lambda i: {"k": "ok", "i": i}),
    )
    # white space around the name (seeded/C09-3: a layer that strips the name after the parser has judged it)
    name = st.tuples(name, st.sampled_from([0, 0, 0, 0, 1, 2, 3, 4])).map(lambda t: dict(t[0], ws=t[1]))
    step = st.builds(
        lambda c, n, e, star: {"cmd": c, "name": n, "enc": e, "star": star},
        st.integers(0, len(COMMANDS) - 1), name, st.integers(0, 3), st.integers(0, 3),
    )
    return st.fixed_dictionaries({"rseed": st.integers(0, 2**16), "selected": st.booleans(), "steps": st.lists(step, min_size=1, max_size=6)})


def budget(tier):
    if tier == "quick":
        return {"examples": 150, "shards": 16, "guard_s": 900}
    return {"examples": 4000, "shards": 16, "guard_s": 7200}


def snapshot(jail: str, skip: str):
    out = {}
    for root, dirs, files in os.walk(jail, followlinks=False):
        if os.path.abspath(root) == os.path.abspath(skip):
            dirs[:] = []
            continue
        for d in dirs:
            p = os.path.join(root, d)
            if os.path.abspath(p) == os.path.abspath(skip):
                continue
            st_ = os.lstat(p)
            out[os.path.relpath(p, jail)] = ("d", oct(st_.st_mode))
        for f in files:
            p = os.path.join(root, f)
            st_ = os.lstat(p)
            try:
                h = hashlib.sha1(open(p, "rb").read()).hexdigest()
            except OSError:
                h = "?"
            out[os.path.relpath(p, jail)] = ("f", st_.st_size, h)
    return out


def execute(trace) -> CaseResult:
    res = CaseResult()
    viol = []
    w = World(rseed=trace.get("rseed", 0), jail=True)
    jail = str(w.jail)
    root = str(w.root)
    transcript = []

    def v(clause, detail, sig=""):
        viol.append(Violation(ID, clause, detail, trace, sig))

    # decoys
    import mailbox as stdmb

    other = os.path.join(jail, "users", "other")
    os.makedirs(other)
    for folder, n in (("inbox", 3), ("sub", 2)):
        mh = stdmb.MH(os.path.join(other, folder), create=True)
        for i in range(n):
            mh.add(tagged_message(f"{SECRET}{folder}{i}", body=f"neighbour secret {SECRET}\r\n").replace(b"\r\n", b"\n"))
        mh.close()
    os.makedirs(os.path.join(other, "notmail"))
    open(os.path.join(other, "notmail", "file.txt"), "w").write(f"not mail {SECRET}\n")
    etc = os.path.join(jail, "etc9")
    os.makedirs(etc)
    open(os.path.join(etc, "passwd"), "w").write(f"root:x:{SECRET}\n")
    mhe = stdmb.MH(os.path.join(etc, "mailish"), create=True)
    mhe.add(tagged_message(f"{SECRET}etc", body=f"{SECRET}\r\n").replace(b"\r\n", b"\n"))
    mhe.close()
    ABS = [etc, etc + "/passwd", etc + "/mailish", "/" + etc, other + "/inbox", "/" + other + "/inbox", jail, "/" + etc + "/mailish",
           # names of things that do NOT exist yet below directories outside the mail root (all inside the
           # harness's scratch jail): a CREATE/RENAME/APPEND that takes them for file-system paths plants them
           etc + "/planted", other + "/planted/deep", jail + "/fresh9/deep", other + "/inbox/sub9"]

    def resolve(nm: str):
        """(escapes lexically?, resolves to something existing?)"""
        n = nm
        if n.startswith("/") and not n.startswith("//"):
            n1 = n[1:]
        else:
            n1 = n
        cand = []
        for x in (n, n1):
            p = os.path.normpath(os.path.join(root, x)) if not os.path.isabs(x) else os.path.normpath(x)
            cand.append(p)
        esc = [not (p == root or p.startswith(root + os.sep)) for p in cand]
        # conservative: it escapes only if BOTH readings escape, or the name is relative
        escapes = all(esc) if nm.startswith("/") else esc[0]
        exists = any(os.path.exists(p) for p, e in zip(cand, esc) if e)
        return escapes, exists

    def encode(nm: str, enc: int) -> bytes:
        e = ENCODINGS[enc % 4]
        b = nm.encode("latin-1")
        if e == "atom" and nm and all(c not in ' (){%*"\\' and 32 < ord(c) < 127 for c in nm):
            return b
        if e in ("atom", "quoted"):
            return quote(nm)
        if e == "literal":
            return b"{%d}\r\n" % len(b) + b
        return b"{%d+}\r\n" % len(b) + b

    async def main():
        await w.boot()
        s = w.session("a")
        for n in ("mb", "mb/sub"):
            await s.cmd(b"CREATE " + n.encode())
        m = tagged_message("own1")
        await s.cmd(b"APPEND inbox {%d}\r\n%s" % (len(m), m))
        await s.cmd(b"APPEND mb {%d}\r\n%s" % (len(m), m))
        if trace.get("selected", True):
            await s.cmd(b"SELECT inbox")
        base = snapshot(jail, root)
        for st_ in trace["steps"]:
            nd = st_["name"]
            if nd["k"] == "rel":
                nm = HOSTILE_REL[nd["i"] % len(HOSTILE_REL)]
            elif nd["k"] == "abs":
                nm = ABS[nd["i"] % len(ABS)]
            else:
                nm = BENIGN[nd["i"] % len(BENIGN)]
            ws = nd.get("ws", 0)
            if ws and nd["k"] != "ok":
                nm = [" " + nm, nm + " ", "\t" + nm, "  " + nm + "  "][ws - 1]
                res.labels.append("name:whitespace")
            escapes, exists = resolve(nm)
            if escapes and exists:
                res.nontrivial = True
            c = COMMANDS[st_["cmd"] % len(COMMANDS)]
            x = encode(nm, st_["enc"])
            star = ["", "/*", "/%", "*"][st_["star"] % 4]
            msg = tagged_message("own2")
            if not s.alive:
                s = w.session("a")
                if trace.get("selected", True):
                    await s.cmd(b"SELECT inbox")
            line = {
                "SELECT": b"SELECT " + x, "EXAMINE": b"EXAMINE " + x, "CREATE": b"CREATE " + x, "DELETE": b"DELETE " + x,
                "RENAME-SRC": b"RENAME " + x + b" moved1", "RENAME-DST": b"RENAME mb " + x, "SUBSCRIBE": b"SUBSCRIBE " + x,
                "UNSUBSCRIBE": b"UNSUBSCRIBE " + x, "STATUS": b"STATUS " + x + b" (MESSAGES UIDNEXT UNSEEN)",
                "COPY": b"COPY 1 " + x, "MOVE": b"MOVE 1 " + x, "UID-COPY": b"UID COPY 1:* " + x,
                "LIST-REF": b"LIST " + x + b' "*"', "LSUB-REF": b"LSUB " + x + b' "%"',
                "LIST-PAT": b'LIST "" ' + encode(nm + star, st_["enc"] if ENCODINGS[st_["enc"] % 4] != "atom" else 1),
                "LSUB-PAT": b'LSUB "" ' + encode(nm + star, st_["enc"] if ENCODINGS[st_["enc"] % 4] != "atom" else 1),
            }.get(c)
            if c == "APPEND":
                line = b"APPEND " + x + b" {%d}\r\n%s" % (len(msg), msg)
            if c in ("COPY", "MOVE", "UID-COPY") and not trace.get("selected", True):
                continue
            r = await s.cmd(line)
            res.steps += 1
            sig = c + ":" + nd["k"]
            transcript.append({"c": line[:90].decode("latin-1"), "r": r.status, "escapes": escapes, "exists": exists})
            res.labels.append(c)
            if r.hang or r.watchdog:
                v("C06.watchdog", f"{line[:60]!r} answered only by the watchdog")
            after = snapshot(jail, root)
            if after != base:
                added = sorted(set(after) - set(base))[:5]
                removed = sorted(set(base) - set(after))[:5]
                changed = sorted(k for k in set(after) & set(base) if after[k] != base[k])[:5]
                v("C09.outside.modified", f"{line[:80]!r}: the jail outside the mail root changed: added {added}, removed {removed}, changed {changed}", sig)
                base = after
            is_list = c.startswith("LIST") or c.startswith("LSUB")
            if escapes and r.ok and not is_list:
                v("C09.escape.accepted", f"{line[:80]!r} names a path outside the mail root and was answered OK", sig)
            if SECRET.encode() in r.raw:
                v("C09.leak.content", f"{line[:80]!r}: the response contains the neighbour's secret token", sig)
            # names outside the root in LIST/LSUB output; counts of the decoys in STATUS
            for resp in r.resps:
                if resp.kind == "untagged" and resp.name in ("LIST", "LSUB"):
                    try:
                        attrs, delim, name, ext = wire.list_item(resp)
                    except wire.Malformed:
                        continue
                    n2 = name.decode("latin-1")
                    e2, _ = resolve(n2)
                    if e2 or ".." in n2.split("/"):
                        v("C09.leak.listed", f"{line[:80]!r}: LIST/LSUB returned the name {n2!r}, which lies outside the mail root", sig)
                if resp.kind == "untagged" and resp.name in ("STATUS", "EXISTS") and escapes and exists:
                    v("C09.leak.counts", f"{line[:80]!r}: got {resp.raw[:60]!r} for a name outside the mail root", sig)
        # afterwards LIST * must not show anything outside
        r = await s.cmd(b'LIST "" "*"') if s.alive else None
        if r is not None:
            for resp in r.untagged("LIST"):
                try:
                    attrs, delim, name, ext = wire.list_item(resp)
                except wire.Malformed:
                    continue
                n2 = name.decode("latin-1")
                e2, _ = resolve(n2)
                if e2 or ".." in n2.split("/"):
                    v("C09.leak.listed", f"final LIST * returned the name {n2!r}, which lies outside the mail root", "final")

    try:
        w.run(main())
    except Hang as e:
        v("C06.deadlock", str(e))
    finally:
        res.vseconds = w.loop.time() - 1000.0
        w.close()
    own = [x for x in viol if x.clause.startswith("C09")]
    res.violations = own
    if not own and any(not x.clause.startswith("C09") for x in viol):
        res.blocked = "C06"
    res.sample = transcript
    return res

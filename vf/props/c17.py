"""C17 - the mailbox list follows CREATE/DELETE/RENAME/SUBSCRIBE history."""
from __future__ import annotations

import os
import re
import sqlite3

from hypothesis import strategies as st

from .. import wire
from ..driver import Hang, World, observe_mailbox, quote, tagged_message
from ..run import CaseResult, Violation, open_ids

ID = "C17"
LEVEL = "exploration"
RULE = (
    "Hypothesis-generated histories (6-22 steps) of CREATE/DELETE/RENAME/SUBSCRIBE/UNSUBSCRIBE over a small name alphabet "
    "(depth <= 3, a name with a space, names with regex metacharacters, a name that is a string prefix of another, INBOX case "
    "variants), a few messages in some mailboxes, restart as a step; after EVERY step a batch of LIST/LSUB queries: reference "
    "in {\"\", existing name + \"/\"} x patterns with * / % / literal segments, quoted and atom forms, LIST-EXTENDED "
    "(SUBSCRIBED), (SUBSCRIBED RECURSIVEMATCH), RETURN (SUBSCRIBED CHILDREN) and multiple patterns. Oracle: reference "
    "namespace model updated only by OK-tagged commands + a */% matcher written from RFC 3501 6.3.8. Non-trivial = the history "
    "contains an accepted RENAME or DELETE of a mailbox that has children or is subscribed, followed by a query with %; "
    "distinct = distinct trace hash."
)
ASSUMPTIONS = [
    "CREATE makes intermediate mailboxes real, DELETE of a parent or subscribed mailbox leaves a \\Noselect placeholder, "
    "SPECIAL-USE mailboxes exist from start-up and are re-created at restart (asimap's documented behaviour; the model follows the tagged result)",
    "INBOX: a pattern that matches the string INBOX must list it; one that matches it only case-insensitively may",
    "mailbox names are sent as quoted strings; response texts are never compared",
]
OPEN = open_ids(ID)

NAMES = ["a", "ab", "a/b", "a/b/c", "a/bc", "d e", "x+y", "q.r", "z(1)", "m", "m/n", "Drafts", "INBOX", "inbox",
         # SQL GLOB / LIKE metacharacters in names (seeded/C17-2): g[1] has a child, g? has none but "gx/k" would match it as a glob
         "g[1]", "g[1]/k", "g?", "gx/k", "p_q", "pxq/k",
         # an inferior whose path repeats the name of its superior (seeded/C17-3: str.replace instead of a prefix swap)
         "a/a", "m/m", "m/nm"]
SPECIAL = ["Junk", "Archive", "Sent Messages", "Drafts", "Deleted Messages"]
PATTERNS = ["*", "%", "g%", "p%", "a%", "a*", "%/%", "a/%", "a/*", "*b", "%b", "a/b", "a", "INBOX", "inbox", "InBoX", "IN%", "d%", "x+y", "q%r", "qXr", "z(1)", "%/b/%", "m/%", "*/n", "D*", "%e*"]


RELATED = [(i, j) for i, a in enumerate(NAMES) for j, b in enumerate(NAMES) if i != j and (b.startswith(a + "/") or a.startswith(b + "/"))]


def enc(n: str) -> bytes:
    return quote(n)


# ------------------------------------------------------------- strategies
def strategy(tier, shard, nshards):
    nm = st.integers(0, len(NAMES) - 1)
    step = st.one_of(
        st.builds(lambda b: {"op": "create", "n": b}, nm), st.builds(lambda b: {"op": "create", "n": b}, nm),
        st.builds(lambda b: {"op": "delete", "n": b}, nm), st.builds(lambda b: {"op": "delete", "n": b}, nm),
        st.builds(lambda a, b: {"op": "rename", "n": a, "d": b}, nm, nm), st.builds(lambda a, b: {"op": "rename", "n": a, "d": b}, nm, nm),
        # renames between a name and one of its own inferiors / superiors (refused, or they move a subtree):
        # rare among 14x14 uniform pairs, and seeded/C17 showed the refused ones matter
        st.sampled_from(RELATED).map(lambda p: {"op": "rename", "n": p[0], "d": p[1]}),
        st.builds(lambda b, on: {"op": "sub", "n": b, "on": on}, nm, st.booleans()), st.builds(lambda b, on: {"op": "sub", "n": b, "on": True}, nm, st.booleans()),
        st.builds(lambda b: {"op": "append", "n": b}, nm),
        st.just({"op": "restart"}),
    )
    q = st.builds(
        lambda r, p, f, k: {"ref": r, "pat": p, "form": f, "kind": k},
        st.integers(0, 5), st.integers(0, len(PATTERNS) - 1), st.integers(0, 1), st.integers(0, 9),
    )
    mx = 16 if tier == "quick" else 24
    return st.fixed_dictionaries(
        {
            "rseed": st.integers(0, 2**16),
            "steps": st.lists(st.tuples(step, st.lists(q, min_size=2, max_size=4)).map(lambda t: dict(t[0], q=t[1])), min_size=6, max_size=mx),
        }
    )


def budget(tier):
    if tier == "quick":
        return {"examples": 300, "shards": 16, "guard_s": 900}
    return {"examples": 2000, "shards": 16, "guard_s": 7200}


# ------------------------------------------------------------------ model
class NS:
    def __init__(self):
        self.box = {"inbox": {"sel": True, "sub": False}}
        for n in SPECIAL:
            self.box[n] = {"sel": True, "sub": False}

    def canon(self, n):
        return "inbox" if n.lower() == "inbox" else n

    def children(self, n):
        return [k for k in self.box if k.startswith(n + "/")]

    def create(self, n):
        parts = n.split("/")
        for i in range(1, len(parts) + 1):
            p = "/".join(parts[:i])
            if p not in self.box:
                self.box[p] = {"sel": True, "sub": False}
        self.box[n]["sel"] = True

    def delete(self, n):
        b = self.box.get(n)
        if b is None:
            return
        if self.children(n) or b["sub"]:
            b["sel"] = False
        else:
            del self.box[n]

    def rename(self, a, d):
        if a == "inbox":
            self.create(d)
            return
        parts = d.split("/")
        for i in range(1, len(parts)):
            p = "/".join(parts[:i])
            if p not in self.box:
                self.box[p] = {"sel": True, "sub": False}
        moved = {}
        for k in list(self.box):
            if k == a or k.startswith(a + "/"):
                moved[d + k[len(a):]] = self.box.pop(k)
        self.box.update(moved)

    def restart(self):
        for n in SPECIAL:
            if n not in self.box:
                self.box[n] = {"sel": True, "sub": False}


def pat_re(p: str, flags=0):
    out = []
    for ch in p:
        if ch == "*":
            out.append(".*")
        elif ch == "%":
            out.append("[^/]*")
        else:
            out.append(re.escape(ch))
    return re.compile("^" + "".join(out) + "$", flags | re.S)


def expected(ns: NS, canonical: str, subscribed_only: bool):
    """-> (must: set of names, may: set of names) in wire naming (INBOX upper)."""
    rx = pat_re(canonical)
    rxi = pat_re(canonical, re.I)
    must, may = set(), set()
    for n, b in ns.box.items():
        if subscribed_only and not b["sub"]:
            continue
        if n == "inbox":
            if rx.match("INBOX"):
                must.add("INBOX")
            elif rxi.match("INBOX"):
                may.add("INBOX")
            continue
        if rx.match(n):
            must.add(n)
    return must, may


def execute(trace) -> CaseResult:
    res = CaseResult()
    viol = []
    w = World(rseed=trace.get("rseed", 0))
    ns = NS()
    transcript = []
    state = {"big": False, "pct": False}

    def v(clause, detail, sig=""):
        viol.append(Violation(ID, clause, detail, trace, sig))

    def disk_tree():
        out = set()
        for root, dirs, files in os.walk(w.root):
            for d in dirs:
                out.add(os.path.relpath(os.path.join(root, d), w.root))
        return out

    def db_names():
        try:
            c = sqlite3.connect(f"file:{w.root}/asimap.db?mode=ro", uri=True)
            try:
                return {r[0] for r in c.execute("select name from mailboxes")}
            finally:
                c.close()
        except sqlite3.Error:
            return None

    async def run_query(s, q, what):
        refs = [""] + sorted(n + "/" for n in ns.box if n != "inbox")
        ref = refs[q["ref"] % len(refs)] if q["ref"] % 3 == 0 else ""
        pat = PATTERNS[q["pat"] % len(PATTERNS)]
        kind = ["list", "list", "list", "list", "lsub", "lsub", "ext-sub", "ext-rec", "ret", "multi"][q["kind"] % 10]
        if ref and pat.upper() in ("INBOX", "IN%"):
            ref = ""
        canonical = ref + pat
        atom_ok = re.fullmatch(r"[A-Za-z0-9%*/+.]+", pat) is not None
        patb = pat.encode() if (q["form"] and atom_ok) else quote(pat)
        refb = quote(ref)
        if "%" in pat:
            state["pct"] = True
        cmd = {"list": b"LIST ", "lsub": b"LSUB ", "ext-sub": b"LIST (SUBSCRIBED) ", "ext-rec": b"LIST (SUBSCRIBED RECURSIVEMATCH) ", "ret": b"LIST ", "multi": b"LIST "}[kind]
        pats = [canonical]
        if kind == "multi":
            pat2 = PATTERNS[(q["pat"] * 7 + 3) % len(PATTERNS)]
            pats.append(ref + pat2)
            line = cmd + refb + b" (" + patb + b" " + quote(pat2) + b")"
        else:
            line = cmd + refb + b" " + patb
        if kind == "ret":
            line += b" RETURN (SUBSCRIBED CHILDREN)"
        r = await s.cmd(line)
        res.steps += 1
        shown = line.decode("latin-1")
        if r.hang or r.watchdog or not r.ok:
            transcript.append({"q": shown, "r": r.status})
            if r.hang or r.watchdog:
                v("C06.watchdog", f"{shown} answered only by the watchdog")
            return
        got = {}
        dup = []
        for x in r.untagged("LSUB" if kind == "lsub" else "LIST"):
            try:
                attrs, delim, name, ext = wire.list_item(x)
            except wire.Malformed:
                continue
            nm = name.decode("latin-1")
            if nm in got:
                dup.append(nm)
            got[nm] = (attrs, ext)
        transcript.append({"q": shown, "got": sorted(got)})
        subscribed_only = kind in ("lsub", "ext-sub", "ext-rec")
        must, may = set(), set()
        for c in pats:
            m1, m2 = expected(ns, c, subscribed_only)
            must |= m1
            may |= m2
        may -= must
        extra_ok = set()
        if kind == "ext-rec":
            # parents that match the pattern and have a subscribed descendant that does not
            for c in pats:
                rx = pat_re(c)
                for n, b in ns.box.items():
                    if b["sub"] and n != "inbox" and not rx.match(n):
                        parts = n.split("/")
                        for i in range(1, len(parts)):
                            anc = "/".join(parts[:i])
                            if anc in ns.box and rx.match(anc) and not ns.box[anc]["sub"]:
                                extra_ok.add(anc)
        sig = f"{kind}:{'ref' if ref else 'noref'}"
        names = set(got)
        if dup:
            v("C17.list.duplicate", f"{shown}: {sorted(set(dup))} returned more than once", sig)
        missing = must - names
        unexpected = names - must - may - extra_ok
        if kind == "ext-rec":
            missing |= extra_ok - names
        if missing or unexpected:
            v("C17.list.names", f"{shown}: missing {sorted(missing)}, unexpected {sorted(unexpected)} (model has {sorted(ns.box)}; subscribed {sorted(k for k, b in ns.box.items() if b['sub'])})", sig)
            return
        for nm, (attrs, ext) in got.items():
            key = "inbox" if nm == "INBOX" else nm
            b = ns.box.get(key)
            if b is None:
                continue
            has_kids = bool(ns.children(key))
            if kind != "lsub":
                if has_kids and "\\HasChildren" not in attrs:
                    v("C17.attr.haschildren", f"{shown}: {nm!r} has inferior mailboxes {sorted(ns.children(key))} but no \\HasChildren: {sorted(attrs)}", sig)
                if not has_kids and "\\HasChildren" in attrs:
                    v("C17.attr.haschildren", f"{shown}: {nm!r} has no inferior mailbox but carries \\HasChildren", sig)
                if has_kids and "\\HasNoChildren" in attrs:
                    v("C17.attr.haschildren", f"{shown}: {nm!r} has inferior mailboxes but carries \\HasNoChildren", sig)
            if (not b["sel"]) != ("\\Noselect" in attrs or "\\NonExistent" in attrs):
                v("C17.attr.noselect", f"{shown}: {nm!r} selectable={b['sel']} but attributes {sorted(attrs)}", sig)
            if kind in ("ext-sub", "ret") or (kind == "ext-rec" and nm not in extra_ok):
                if b["sub"] != ("\\Subscribed" in attrs):
                    v("C17.attr.subscribed", f"{shown}: {nm!r} subscribed={b['sub']} but attributes {sorted(attrs)}", sig)
            if kind == "ext-rec" and nm in extra_ok:
                flat = repr(ext).upper()
                if "CHILDINFO" not in flat or "SUBSCRIBED" not in flat:
                    v("C17.childinfo", f"{shown}: {nm!r} should carry CHILDINFO (SUBSCRIBED), got {ext!r}", sig)

    async def snapshot_box(o, name):
        info = await observe_mailbox(o, enc(name))
        if info is None:
            return None
        return (info["uidvalidity"], [(x["uid"], x["tag"], tuple(sorted(f for f in x["flags"] if f.lower() != "\\recent"))) for x in info["msgs"]])

    async def main():
        await w.boot()
        s = w.session("a")
        o = w.session("o")
        ntag = [0]
        for st_ in trace["steps"]:
            op = st_["op"]
            n = ns.canon(NAMES[st_.get("n", 0) % len(NAMES)])
            before_disk, before_db = disk_tree(), db_names()
            if op == "create":
                r = await s.cmd(b"CREATE " + enc(n))
                line = f"CREATE {n!r}"
                if r.ok:
                    ns.create(n.rstrip("/") if n != "/" else n)
            elif op == "delete":
                had_kids = bool(ns.children(n))
                was_sub = ns.box.get(n, {}).get("sub", False)
                r = await s.cmd(b"DELETE " + enc(n))
                line = f"DELETE {n!r}"
                if r.ok:
                    if n == "inbox":
                        v("C17.inbox.deleted", "DELETE INBOX was answered OK", "delete-inbox")
                    if (had_kids or was_sub) and n in ns.box:
                        state["big"] = True
                    was_leaf = n in ns.box and not had_kids and not was_sub
                    ns.delete(n)
                    if was_leaf:
                        r2 = await o.cmd(b"SELECT " + enc(n))
                        if r2.ok:
                            v("C17.delete.still-selectable", f"{n!r} was deleted (leaf, not subscribed) but SELECT still succeeds", "delete")
                            await o.cmd(b"UNSELECT")
            elif op == "rename":
                d = ns.canon(NAMES[st_["d"] % len(NAMES)])
                if d.startswith(n + "/") and n in ns.box:
                    res.labels.append("rename-to-own-inferior" + ("-missing-parent" if d.rsplit("/", 1)[0] not in ns.box else ""))
                subtree = sorted(k for k in ns.box if k == n or k.startswith(n + "/")) if n != "inbox" else []
                snaps = {}
                for k in subtree:
                    if ns.box[k]["sel"]:
                        snaps[k] = await snapshot_box(o, k)
                r = await s.cmd(b"RENAME " + enc(n) + b" " + enc(d))
                line = f"RENAME {n!r} {d!r}"
                if r.ok:
                    if n in ns.box and (ns.children(n) or ns.box[n]["sub"]):
                        state["big"] = True
                    ns.rename(n, d.rstrip("/"))
                    dd = d.rstrip("/")
                    for k, snap in snaps.items():
                        nk = dd + k[len(n):]
                        after = await snapshot_box(o, nk)
                        if snap is not None and after != snap:
                            v("C17.rename.content", f"RENAME {n!r} {d!r}: {k!r} had (UIDVALIDITY, [(uid, message, flags)]) {snap}, {nk!r} has {after}", "rename")
                        r2 = await o.cmd(b"SELECT " + enc(k))
                        if r2.ok and k not in ns.box:
                            v("C17.rename.old-name-alive", f"after RENAME {n!r} {d!r} the old name {k!r} can still be selected", "rename")
                        if r2.ok:
                            await o.cmd(b"UNSELECT")
            elif op == "sub":
                r = await s.cmd((b"SUBSCRIBE " if st_["on"] else b"UNSUBSCRIBE ") + enc(n))
                line = ("SUBSCRIBE " if st_["on"] else "UNSUBSCRIBE ") + repr(n)
                if r.ok and n in ns.box:
                    ns.box[n]["sub"] = bool(st_["on"])
                elif r.ok:
                    v("C17.subscribe.missing-ok", f"{line} answered OK for a mailbox that does not exist", "subscribe")
            elif op == "append":
                ntag[0] += 1
                m = tagged_message(f"n{ntag[0]}")
                r = await s.cmd(b"APPEND " + enc(n) + b" (\\Flagged) {%d}\r\n%s" % (len(m), m))
                line = f"APPEND {n!r}"
            else:
                await w.restart()
                s = w.session("a")
                o = w.session("o")
                ns.restart()
                transcript.append({"op": "restart"})
                res.labels.append("restart")
                r = None
                line = "restart"
            res.steps += 1
            if r is not None:
                transcript.append({"c": line, "r": r.status})
                if r.hang or r.watchdog:
                    v("C06.watchdog", f"{line} answered only by the watchdog")
                if r.closed:
                    s = w.session("a")
                if r.status in ("NO", "BAD") and op in ("create", "delete", "rename", "sub"):
                    if disk_tree() != before_disk:
                        v("C17.refused.disk-changed", f"{line} was refused ({r.status}) but the directory tree changed: +{sorted(disk_tree() - before_disk)} -{sorted(before_disk - disk_tree())}", op)
                    a_db = db_names()
                    if before_db is not None and a_db is not None and a_db != before_db:
                        v("C17.refused.db-changed", f"{line} was refused ({r.status}) but the mailboxes table changed: +{sorted(a_db - before_db)} -{sorted(before_db - a_db)}", op)
            for q in st_.get("q", []):
                await run_query(o, q, line)
        if state["big"] and state["pct"]:
            res.nontrivial = True

    try:
        w.run(main())
    except Hang as e:
        v("C06.deadlock", str(e))
    finally:
        res.vseconds = w.loop.time() - 1000.0
        w.close()
    own = [x for x in viol if x.clause.startswith("C17")]
    res.violations = own
    if not own and any(not x.clause.startswith("C17") for x in viol):
        res.blocked = "C06"
    res.sample = transcript
    return res

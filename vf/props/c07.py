"""C07 - everything the server sends is well-formed IMAP."""
from __future__ import annotations

import email.header
import os
import re

from hypothesis import strategies as st

from .. import wire
from ..driver import Hang, World, quote, tagged_message
from ..gen import c16_msgs as MG
from ..run import CaseResult, Violation, open_ids

ID = "C07"
LEVEL = "exploration"
RULE = (
    "Each case builds one world and drives two sessions: (1) 1-3 Hypothesis-generated raw RFC 5322/MIME messages (generator of "
    "C16: quotes, backslashes, 8-bit, RFC 2047 words, folded/duplicate/missing fields, nested multiparts, message/rfc822, odd "
    "line endings) or fixture files are delivered/appended and fetched with ENVELOPE BODYSTRUCTURE BODY FLAGS INTERNALDATE "
    "RFC822.SIZE UID and generated BODY[section]<partial> items; (2) 1-4 mailboxes with generated names from the hostile-but-"
    "accepted alphabet (space, double quote, backslash, parentheses, braces, %, *, &, latin-1) are created, subscribed, LISTed, "
    "LSUBed, STATUSed and SELECTed; (3) generated keyword atoms are STOREd and read back; (4) 2-6 error-path commands (malformed, "
    "out-of-range, unknown, text echoed back, IDLE misuse) are sent. Oracle: STRICT parse (vf/wire.py) of the concatenated bytes "
    "of each session + structural validation of ENVELOPE/BODYSTRUCTURE/LIST/STATUS + round trip of Subject/Message-ID/"
    "In-Reply-To, address mailbox@host pairs and mailbox names. Non-trivial = the message/name contains a quoted-special, 8-bit "
    "octet, folded or encoded word, or the response comes from an error path; distinct = distinct trace hash."
)
ASSUMPTIONS = [
    "the response grammar is RFC 3501 section 9 as implemented by vf/wire.py (no shared code with asimap/parse.py)",
    "round-trip comparisons decode RFC 2047 words and unfold on both sides and are made only for header values that are "
    "well-formed enough for the comparison to be unambiguous (ASCII or valid encoded words)",
]
OPEN = open_ids(ID)

NAME_ALPHABET = ['a', 'b', 'Z', '1', ' ', '"', '\\', '(', ')', '{', '}', '%', '*', '&', '-', '.', "'", '[', ']', 'é', 'ü', '/', '+', ',', ';', '=', '~', '#', '!']
KW_ALPHABET = "abcXYZ019$.-+&'!=~^_|<>,;@#?/[:"  # atom characters (no atom-specials / resp-specials)
ERR_LINES = [
    "FETCH", "FETCH 99 FLAGS", "FETCH 1 BODY[9.9]", "FETCH 1 BODY[1.2.3.HEADER]", "STORE 1 +FLAGS (\\Recent)", "BOGUS \"quo\\\"ted\"", "SELECT \"no \\\"such\\\" box\"",
    "SELECT {7}\r\nno\r\nbox", "STATUS \"missing \\\\ box\" (MESSAGES)", "RENAME \"x\\\"y\" inbox", "DELETE inbox", "CREATE inbox", "UID FETCH 1:* (BODY[HEADER.FIELDS (\"we\\\"ird\")])",
    "SEARCH HEADER \"a\\\"b\" \"c\\\\d\"", "SEARCH KEYWORD \\Bogus", "COPY 1 \"nope \\\" box\"", "APPEND \"nope\\\\box\" {3}\r\nabc", "LOGIN \"u\\\"ser\" pass", "ID (\"name\" \"cl\\\"ient\")",
    "LIST \"\" \"%\\\"%\"", "LSUB \"\\\\\" *", "EXAMINE \"\"", "SUBSCRIBE \"qu\\\"ote\"", "UNSELECT", "CLOSE", "CHECK", "EXPUNGE", "UID EXPUNGE 1:*", "MOVE 1 \"an\\\"other\"", "NOOP extra \"te\\\"xt\"",
    "STORE 1 +FLAGS (a:b)", "STORE 1 +FLAGS (unseen)", "FETCH 1 (BODY.PEEK[HEADER.FIELDS.NOT (\"x y\")])", "FETCH 1 BODY[]<5.0>", "GETQUOTA \"\"", "AUTHENTICATE \"PL\\\"AIN\"",
]


@st.composite
def strategy_case(draw, tier):
    msgs = []
    for _ in range(draw(st.integers(1, 3))):
        if draw(st.integers(0, 14)) == 0:
            msgs.append({"fixture": draw(st.sampled_from(MG.SMALL_FIXTURES if tier == "quick" else MG.FIXTURES)), "how": "deliver"})
        else:
            m = draw(MG.message())
            has8 = any(ord(c) > 127 for c in m["raw"])
            m["how"] = draw(st.sampled_from(["deliver", "deliver", "append"] if not has8 else ["deliver", "deliver", "deliver", "append"]))
            msgs.append(m)
    names = draw(st.lists(st.lists(st.sampled_from(NAME_ALPHABET), min_size=1, max_size=7).map("".join), min_size=1, max_size=4))
    kws = draw(st.lists(st.text(alphabet=KW_ALPHABET, min_size=1, max_size=8), min_size=0, max_size=3))
    errs = draw(st.lists(st.integers(0, len(ERR_LINES) - 1), min_size=2, max_size=6))
    secs = draw(st.lists(st.tuples(st.integers(0, 11), st.integers(0, 3), st.integers(0, 400), st.integers(0, 300)), min_size=1, max_size=4))
    return {"rseed": draw(st.integers(0, 2**16)), "msgs": msgs, "names": names, "kws": kws, "errs": errs, "secs": secs, "idle_misuse": draw(st.booleans())}


def strategy(tier, shard, nshards):
    return strategy_case(tier)


def budget(tier):
    if tier == "quick":
        return {"examples": 110, "shards": 16, "guard_s": 900}
    return {"examples": 3000, "shards": 16, "guard_s": 7200}


SECTIONS = ["BODY.PEEK[]", "BODY.PEEK[HEADER]", "BODY.PEEK[TEXT]", "BODY.PEEK[1]", "BODY.PEEK[1.MIME]", "BODY.PEEK[2]", "BODY.PEEK[1.1]", "BODY.PEEK[HEADER.FIELDS (From To Subject)]",
            "BODY.PEEK[HEADER.FIELDS.NOT (Received)]", "RFC822.HEADER", "BODY.PEEK[2.HEADER]", "BODY.PEEK[1.TEXT]"]


# ------------------------------------------------------------ planted values
def first_fields(raw: bytes):
    """Independent header splitter: {lower name: first unfolded value (bytes)} of the top-level header."""
    raw = raw.replace(b"\r\n", b"\n")
    head = raw.split(b"\n\n", 1)[0]
    out = {}
    cur = None
    for line in head.split(b"\n"):
        if line[:1] in (b" ", b"\t") and cur is not None:
            out[cur][-1] += b" " + line.strip()
            continue
        m = re.match(rb"([!-9;-~]+)[ \t]*:(.*)$", line)
        if not m:
            cur = None
            continue
        cur = m.group(1).lower()
        out.setdefault(cur, []).append(m.group(2).strip())
    return out


def decode_words(b: bytes) -> str | None:
    """RFC 2047 decode; None if the value is not clean enough to compare."""
    try:
        s = b.decode("ascii")
    except UnicodeDecodeError:
        return None
    try:
        parts = email.header.decode_header(s)
        out = ""
        for txt, cs in parts:
            if isinstance(txt, bytes):
                out += txt.decode(cs or "ascii")
            else:
                out += txt
        return re.sub(r"\s+", " ", out).strip()
    except Exception:
        return None


def nstring(x):
    if x is None:
        return None
    if isinstance(x, bytes):
        return bytes(x)
    return None


def check_envelope(env, where, v):
    if not isinstance(env, list) or len(env) != 10:
        v("C07.envelope.shape", f"{where}: ENVELOPE is not a 10-element list: {env!r:.200}", "envelope")
        return False
    for i in (0, 1, 8, 9):
        if env[i] is not None and not isinstance(env[i], bytes):
            v("C07.envelope.shape", f"{where}: ENVELOPE field {i} is neither NIL nor a string: {env[i]!r:.100}", "envelope")
            return False
    for i in range(2, 8):
        al = env[i]
        if al is None:
            continue
        if not isinstance(al, list) or not al:
            v("C07.envelope.shape", f"{where}: ENVELOPE address list {i} is {al!r:.120}", "envelope")
            return False
        for a in al:
            if not isinstance(a, list) or len(a) != 4 or any(x is not None and not isinstance(x, bytes) for x in a):
                v("C07.envelope.shape", f"{where}: ENVELOPE address {a!r:.160} is not (name adl mailbox host)", "envelope")
                return False
    return True


def check_bodystructure(bs, where, v, ext: bool, depth=0):
    """Shape of body / bodystructure (RFC 3501 7.4.2)."""
    if not isinstance(bs, list) or not bs:
        v("C07.bodystructure.shape", f"{where}: body structure element is {bs!r:.120}", "bodystructure")
        return False
    if isinstance(bs[0], list):
        # multipart: 1*body SP subtype [ext]
        i = 0
        while i < len(bs) and isinstance(bs[i], list):
            if not check_bodystructure(bs[i], where, v, ext, depth + 1):
                return False
            i += 1
        if i >= len(bs) or not isinstance(bs[i], bytes):
            v("C07.bodystructure.shape", f"{where}: multipart without a subtype string: {bs[i:i+2]!r:.120}", "bodystructure")
            return False
        return True
    if len(bs) < 7:
        v("C07.bodystructure.shape", f"{where}: single-part body has {len(bs)} < 7 fields: {bs!r:.200}", "bodystructure")
        return False
    typ, sub, params, cid, desc, enc, size = bs[:7]
    if not isinstance(typ, bytes) or not isinstance(sub, bytes):
        v("C07.bodystructure.shape", f"{where}: type/subtype are not strings: {bs[:2]!r}", "bodystructure")
        return False
    if params is not None and (not isinstance(params, list) or len(params) % 2 or any(not isinstance(x, bytes) for x in params)):
        v("C07.bodystructure.shape", f"{where}: parameter list is {params!r:.160}", "bodystructure")
        return False
    for x, nm in ((cid, "id"), (desc, "description")):
        if x is not None and not isinstance(x, bytes):
            v("C07.bodystructure.shape", f"{where}: body {nm} is {x!r:.80}", "bodystructure")
            return False
    if not isinstance(enc, bytes):
        v("C07.bodystructure.shape", f"{where}: body encoding is {enc!r:.80}", "bodystructure")
        return False
    if not (isinstance(size, str) and size.isdigit()):
        v("C07.bodystructure.shape", f"{where}: body size is {size!r:.80}", "bodystructure")
        return False
    rest = bs[7:]
    if typ.upper() == b"MESSAGE" and sub.upper() == b"RFC822" and len(rest) >= 3:
        if not check_envelope(rest[0], where + " (encapsulated)", v):
            return False
        if not check_bodystructure(rest[1], where, v, ext, depth + 1):
            return False
        if not (isinstance(rest[2], str) and rest[2].isdigit()):
            v("C07.bodystructure.shape", f"{where}: message/rfc822 line count is {rest[2]!r:.60}", "bodystructure")
            return False
    elif typ.upper() == b"TEXT":
        if not rest or not (isinstance(rest[0], str) and rest[0].isdigit()):
            v("C07.bodystructure.shape", f"{where}: text part without a line count: {rest[:1]!r}", "bodystructure")
            return False
    return True


def execute(trace) -> CaseResult:
    res = CaseResult()
    viol = []
    w = World(rseed=trace.get("rseed", 0))
    transcript = []
    labels = set()
    fixtures_dir = os.path.join(os.environ.get("VERIF_REPO", "/repo"), "asimap", "test", "fixtures", "mhdir")

    def v(clause, detail, sig=""):
        if len([x for x in viol if x.clause == clause and x.sig == sig]) < 2:
            viol.append(Violation(ID, clause, detail, trace, sig))

    def strict(sess, what):
        """Strict parse of everything a session has received."""
        buf = sess.stream
        try:
            resps, _, used = wire.parse_stream(buf, strict=True)
        except wire.Malformed as e:
            ctx = buf[max(0, e.pos - 60): e.pos + 60]
            v("C07.wire." + e.clause, f"{what}: {e.clause} at octet {e.pos}: ...{ctx!r}...", what.split(":")[0])
            return None
        return resps

    async def main():
        await w.boot()
        s = w.session("a")
        # ---- (1) messages -----------------------------------------------------------
        raws = []
        for m in trace["msgs"]:
            if "fixture" in m:
                try:
                    raw = open(os.path.join(fixtures_dir, m["fixture"]), "rb").read()
                except OSError:
                    continue
                labels.add("fixture")
            else:
                raw = m["raw"].encode("latin-1")
                for lb in m.get("glabels", []):
                    labels.add(lb)
            if m.get("how") == "append":
                lit = raw if b"\r\n" in raw or b"\n" not in raw else raw.replace(b"\n", b"\r\n")
                r = await s.cmd(b"APPEND inbox {%d}\r\n%s" % (len(lit), lit))
                if not r.ok:
                    w.deliver("inbox", [raw], unseen=True)
            else:
                # exact octets as an LF file, like an MH delivery
                w.deliver("inbox", [raw], unseen=True)
            raws.append(raw)
        r = await s.cmd(b"SELECT inbox")
        n = max((x.num for x in r.resps if x.kind == "untagged" and x.name == "EXISTS"), default=0)
        if n:
            r = await s.cmd(b"FETCH 1:* (UID FLAGS INTERNALDATE RFC822.SIZE ENVELOPE BODYSTRUCTURE BODY)")
            transcript.append({"c": "FETCH 1:* (... ENVELOPE BODYSTRUCTURE BODY)", "r": r.status, "n": n})
            for (si, pm, o, ln) in trace["secs"]:
                sec = SECTIONS[si % len(SECTIONS)]
                part = ["", f"<{o}.{max(ln, 1)}>", f"<{o}.1>", f"<0.{max(ln, 1)}>"][pm % 4] if sec.startswith("BODY") else ""
                r2 = await s.cmd(f"FETCH 1:* ({sec}{part})".encode())
                transcript.append({"c": f"FETCH 1:* ({sec}{part})", "r": r2.status})
        resps = strict(s, "fetch: message data")
        if resps is not None:
            nontriv_msg = any(re.search(rb'["\\\x80-\xff]|=\?', raw.split(b"\n\n")[0].split(b"\r\n\r\n")[0]) for raw in raws)
            if nontriv_msg:
                res.nontrivial = True
            for x in resps:
                if x.kind == "untagged" and x.name == "FETCH":
                    try:
                        items = wire.fetch_items(x)
                    except wire.Malformed as e:
                        v("C07.fetch.shape", f"FETCH response {x.num}: {e}", "fetch")
                        continue
                    where = f"message {x.num}"
                    if "ENVELOPE" in items and check_envelope(items["ENVELOPE"], where, v):
                        env = items["ENVELOPE"]
                        if 1 <= x.num <= len(raws) and len(raws) == n:
                            planted = first_fields(raws[x.num - 1])
                            for idx, field in ((1, b"subject"), (9, b"message-id"), (8, b"in-reply-to")):
                                if field in planted:
                                    want = decode_words(planted[field][0])
                                    got = decode_words(env[idx]) if env[idx] is not None else ""
                                    if want is not None and got is not None and want != got and want.strip():
                                        v("C07.roundtrip." + field.decode(), f"{where}: ENVELOPE {field.decode()} decodes to {got!r}, the message says {want!r}", "envelope")
                    if "BODYSTRUCTURE" in items:
                        check_bodystructure(items["BODYSTRUCTURE"], where + " BODYSTRUCTURE", v, True)
                    if "BODY" in items:
                        check_bodystructure(items["BODY"], where + " BODY", v, False)
                    idate = items.get("INTERNALDATE")
                    if idate is not None and not re.fullmatch(rb"[ 0-9]\d-[A-Z][a-z]{2}-\d{4} \d\d:\d\d:\d\d [-+]\d{4}", bytes(idate)):
                        v("C07.internaldate.format", f"{where}: INTERNALDATE {bytes(idate)!r} is not an RFC 3501 date-time", "internaldate")
        # ---- (3) keywords -------------------------------------------------------------
        if n:
            for kw in trace["kws"]:
                if kw.lower() in ("nil",) or kw[0] == "\\":
                    continue
                r = await s.cmd(b"STORE 1 +FLAGS (" + kw.encode("latin-1") + b")")
                transcript.append({"c": f"STORE 1 +FLAGS ({kw})", "r": r.status})
            await s.cmd(b"FETCH 1 (FLAGS)")
            await s.cmd(b"EXAMINE inbox")
            strict(s, "keywords: STORE/FETCH FLAGS/SELECT")
        # ---- (2) mailbox names -----------------------------------------------------------
        s2 = w.session("b")
        made = []
        for nm in trace["names"]:
            r = await s2.cmd(b"CREATE " + quote(nm))
            transcript.append({"c": "CREATE " + quote(nm).decode("latin-1"), "r": r.status})
            if r.ok:
                made.append(nm)
                await s2.cmd(b"SUBSCRIBE " + quote(nm))
                if re.search(r'["\\\x80-\xff(){}%*]', nm):
                    res.nontrivial = True
                    labels.add("name:special")
        for nm in made:
            await s2.cmd(b"STATUS " + quote(nm) + b" (MESSAGES UIDNEXT UNSEEN)")
            await s2.cmd(b"SELECT " + quote(nm))
        await s2.cmd(b'LIST "" "*"')
        await s2.cmd(b'LSUB "" "*"')
        await s2.cmd(b'LIST "" "*" RETURN (STATUS (MESSAGES) SUBSCRIBED)')
        resps = strict(s2, "names: CREATE/STATUS/SELECT/LIST/LSUB")
        if resps is not None and made:
            listed = set()
            statused = set()
            for x in resps:
                if x.kind == "untagged" and x.name in ("LIST", "LSUB"):
                    try:
                        attrs, delim, name, ext = wire.list_item(x)
                        listed.add(name)
                        if not isinstance(delim, bytes) and delim is not None:
                            v("C07.list.shape", f"hierarchy delimiter is {delim!r}", "list")
                    except wire.Malformed as e:
                        v("C07.list.shape", f"LIST response: {e}", "list")
                elif x.kind == "untagged" and x.name == "STATUS":
                    try:
                        nm_, d = wire.status_items(x)
                        statused.add(nm_)
                    except (wire.Malformed, ValueError, AttributeError) as e:
                        v("C07.status.shape", f"STATUS response {x.raw[:80]!r}: {e}", "status")
            for nm in made:
                canon = os.path.normpath(nm)
                if canon.startswith("/") and not canon.startswith("//"):
                    canon = canon[1:]  # '/' is the name-space prefix: '/x' is the mailbox 'x'
                canon = canon.encode("latin-1")
                parts = canon.split(b"/")
                if canon not in listed and not any(p in (b".", b"..", b"") for p in parts):
                    v("C07.roundtrip.list-name", f"mailbox created as {nm!r} is not among the decoded LIST names {sorted(listed)[:12]!r}", "list")
                if canon not in statused and nm.encode("latin-1") not in statused:
                    v("C07.roundtrip.status-name", f"STATUS for {nm!r} came back naming {sorted(statused)[:8]!r}", "status")
        # ---- (4) error paths ----------------------------------------------------------------
        s3 = w.session("c")
        await s3.cmd(b"SELECT inbox")
        for i in trace["errs"]:
            line = ERR_LINES[i % len(ERR_LINES)]
            if not s3.alive:
                s3 = w.session("c")
            r = await s3.cmd(line.encode("latin-1"))
            transcript.append({"c": line[:60], "r": r.status})
            if r.status in ("NO", "BAD"):
                res.nontrivial = True
                labels.add("error-path")
        if trace.get("idle_misuse") and s3.alive:
            await s3.idle()
            await s3.raw_line(b"zz IDLE", settle=0.2)
            await s3.raw_line(b"not \"done\" {3}", settle=0.2)
            r = await s3.done()
            await s3.cmd(b"NOOP")
            labels.add("idle-misuse")
        # response codes with arguments: `[COPYUID uidvalidity uid-set uid-set]`, `[APPENDUID uidvalidity uid]`
        # (RFC 4315; a uid-set is never empty - seen as `[COPYUID 1  ]` for a UID COPY that names no message)
        if s3.alive:
            mark = len(s3.writer.buf)
            m1 = tagged_message("c07code")
            for line in (b"SELECT inbox", b"UID COPY 4294967290 inbox", b"UID MOVE 4294967290 inbox", b"COPY 1 inbox",
                         b"APPEND inbox {%d}\r\n%s" % (len(m1), m1)):
                if s3.alive:
                    await s3.cmd(line)
            out = bytes(s3.writer.buf[mark:])
            for mm in re.finditer(rb"\[(COPYUID|APPENDUID)([^\]\r\n]*)\]", out):
                body = mm.group(2)
                pat = rb" [1-9]\d* [0-9:,*]+ [0-9:,*]+" if mm.group(1) == b"COPYUID" else rb" [1-9]\d* [1-9]\d*"
                if not re.fullmatch(pat, body):
                    v("C07.respcode.uidplus", f"response code [{mm.group(1).decode()}{body.decode('latin-1')}] is not RFC 4315 syntax", mm.group(1).decode())
            labels.add("uidplus-codes")
        strict(s3, "errors: refusals and IDLE misuse")

    try:
        w.run(main())
    except Hang as e:
        v("C06.deadlock", str(e))
    finally:
        res.vseconds = w.loop.time() - 1000.0
        w.close()
    own = [x for x in viol if x.clause.startswith("C07")]
    res.violations = own
    if not own and any(not x.clause.startswith("C07") for x in viol):
        res.blocked = "C06"
    res.sample = transcript
    res.labels = sorted(labels)
    res.steps = len(transcript)
    return res

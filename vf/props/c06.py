"""C06 - every command is answered exactly once, promptly, whatever its arguments."""
from __future__ import annotations

import os
import shutil

from hypothesis import strategies as st

from .. import wire
from ..driver import Hang, World, tagged_message
from ..run import CaseResult, Violation, open_ids
from ..world import rmtree, scratch_root

ID = "C06"
LEVEL = "exploration"
RULE = (
    "Hypothesis-generated sequences of 3-10 steps (commands from the full command set with boundary "
    "arguments: sets beyond N, 0, *, empty/missing/deleted/\\Noselect mailboxes, malformed lines, tag-less "
    "garbage, IDLE/DONE, restart, selected-mailbox-deleted-by-other-session) on 1-2 sessions of a world with "
    "INBOX(3) mb(2) emp(0) par+par/child(1) and a \\Noselect placeholder ph; every step runs through "
    "IMAPClientProxy.run() on a virtual-time loop. Non-trivial = at least one command was refused (NO/BAD) "
    "for its arguments or mailbox state; distinct = distinct trace hash."
)
ASSUMPTIONS = [
    "single cooperative event loop with virtual time; DB calls and executor jobs run inline (zero latency in this check)",
    "commands are fed through the {len}\\n framing exactly as the front-end relays them",
    "an untagged response kind that only commands produce (SEARCH/LIST/LSUB/STATUS/CAPABILITY/NAMESPACE/ID) after the tagged line counts as misplaced; unsolicited EXISTS/RECENT/EXPUNGE/FETCH FLAGS do not",
]

OPEN = open_ids(ID)

NAMES = ["inbox", "INBOX", "mb", "emp", "par", "par/child", "ph", "ph/kid", "gone", "gone/x", '"mb"', "Drafts", '"emp"', "par/",
         # names with a level that is just digits: inside an MH folder such a name looks like a message
         "mb/2", "par/2024", "77", "new/1"]
NUMS = ["0", "1", "2", "3", "4", "5", "9", "4294967295", "*"]


@st.composite
def seqset(draw):
    def atom():
        return draw(st.sampled_from(NUMS))

    parts = []
    for _ in range(draw(st.integers(1, 3))):
        if draw(st.booleans()):
            parts.append(atom())
        else:
            parts.append(atom() + ":" + atom())
    return ",".join(parts)


FLAGS = ["\\Seen", "\\Deleted", "\\Flagged", "\\Answered", "\\Draft", "\\Recent", "kw1", "$Fwd", "\\Bogus"]
FETCH_ATTS = [
    "FLAGS", "UID", "(UID FLAGS)", "BODY[]", "BODY.PEEK[]", "RFC822.SIZE", "ENVELOPE", "BODYSTRUCTURE", "ALL", "FAST",
    "FULL", "BODY[1]", "BODY[2]", "BODY[1.MIME]", "BODY[HEADER]", "BODY.PEEK[HEADER.FIELDS (From)]", "BODY[]<0.5>",
    "BODY[]<99999.5>", "BODY[TEXT]<0.0>", "INTERNALDATE", "RFC822", "RFC822.HEADER", "RFC822.TEXT", "BODY[9.9]",
    "(FLAGS BODY[3.TEXT])", "BODY", "BODY[1.HEADER]",
]
SEARCHES = [
    "ALL", "1", "9", "0", "*", "1:*", "UID 9", "UID 1:*", "SEEN", "NOT DELETED", "OR SEEN 9", "SUBJECT foo", "BODY tok",
    "LARGER 0", "SMALLER 1", "BEFORE 1-Jan-2020", "SINCE 1-Jan-1990", "KEYWORD kw1", "HEADER X-VF-Tag m1", "(1 2)",
    "NEW", "OLD", "TEXT \"x\"", "SENTON 2-Jan-2023", "UID *", "*:1", "3:1", "CHARSET utf-8 ALL", "CHARSET bogus ALL",
]
MALFORMED = [
    "FETCH", "FETCH 1", "FETCH 1 (", "FETCH 1 BODY[", "FETCH x FLAGS", "STORE 1 +FLAGS", "STORE 1 FLAGS (", "STORE 1 XFLAGS (a)",
    "SEARCH", "SEARCH FOO", "SEARCH OR SEEN", "UID NOOP", "UID", "UID FETCH", "COPY 1", "COPY mb", "MOVE", "STATUS mb",
    "STATUS mb ()", "STATUS mb (BOGUS)", "LIST", "LIST \"\"", "SELECT", "CREATE", "RENAME mb", "APPEND mb", "APPEND mb {3}",
    "BOGUS", "BOGUS arg", "NOOP extra", "LOGIN a", "AUTHENTICATE", "ID", "ID (\"a\")", "SELECT \"unterminated", "EXAMINE {5}\r\nab",
    "FETCH 1:2:3 FLAGS", "FETCH 1, FLAGS", "STORE 1 +FLAGS.SILENT", "SEARCH BEFORE 99-Foo-2020", "SEARCH LARGER x",
    "LIST (BOGUS) \"\" *", "LIST \"\" * RETURN (BOGUS)", "SEARCH BEFORE 31-Feb-2020", "SEARCH *:2",
    "APPEND mb \"01-Jan-2020 25:00:00 +0000\" {3}\r\nabc", "SEARCH SINCE 01-Jan-0000",
]


@st.composite
def command_line(draw):
    kind = draw(
        st.sampled_from(
            [
                "select", "examine", "fetch", "uidfetch", "store", "uidstore", "search", "uidsearch", "copy", "uidcopy", "move",
                "uidmove", "expunge", "uidexpunge", "close", "unselect", "check", "noop", "status", "create", "delete", "rename",
                "subscribe", "unsubscribe", "list", "lsub", "append", "simple", "malformed", "malformed", "fetch", "store", "copy",
            ]
        )
    )
    name = draw(st.sampled_from(NAMES))
    if kind in ("select", "examine", "subscribe", "unsubscribe", "create", "delete"):
        if kind in ("create", "delete"):
            name = draw(st.sampled_from(NAMES + ["new1", "par/new2", "123", "inbox/x", "new1/a/b"]))
        return f"{kind.upper()} {name}"
    if kind in ("fetch", "uidfetch"):
        return ("UID " if kind.startswith("uid") else "") + f"FETCH {draw(seqset())} {draw(st.sampled_from(FETCH_ATTS))}"
    if kind in ("store", "uidstore"):
        act = draw(st.sampled_from(["+FLAGS", "-FLAGS", "FLAGS", "+FLAGS.SILENT", "FLAGS.SILENT"]))
        fl = draw(st.lists(st.sampled_from(FLAGS), min_size=0, max_size=3))
        return ("UID " if kind.startswith("uid") else "") + f"STORE {draw(seqset())} {act} ({' '.join(fl)})"
    if kind in ("search", "uidsearch"):
        return ("UID " if kind.startswith("uid") else "") + f"SEARCH {draw(st.sampled_from(SEARCHES))}"
    if kind in ("copy", "uidcopy", "move", "uidmove"):
        c = "COPY" if "copy" in kind else "MOVE"
        return ("UID " if kind.startswith("uid") else "") + f"{c} {draw(seqset())} {name}"
    if kind == "expunge":
        return "EXPUNGE"
    if kind == "uidexpunge":
        return f"UID EXPUNGE {draw(seqset())}"
    if kind in ("close", "unselect", "check", "noop"):
        return kind.upper()
    if kind == "status":
        items = draw(st.lists(st.sampled_from(["MESSAGES", "RECENT", "UIDNEXT", "UIDVALIDITY", "UNSEEN"]), min_size=1, max_size=5))
        return f"STATUS {name} ({' '.join(items)})"
    if kind == "rename":
        dst = draw(st.sampled_from(NAMES + ["new3", "par/new4", "mb/sub", "par/child/deeper"]))
        return f"RENAME {name} {dst}"
    if kind in ("list", "lsub"):
        ref = draw(st.sampled_from(['""', "par/", "gone/", "inbox", '"par"']))
        pat = draw(st.sampled_from(["*", "%", '""', "INBOX", "par/%", "*/*", "%/%", "gone", '"m*"']))
        ext = ""
        if kind == "list" and draw(st.integers(0, 4)) == 0:
            ext = draw(st.sampled_from([" RETURN (CHILDREN)", " RETURN (SUBSCRIBED)", " RETURN (STATUS (MESSAGES UNSEEN))", " RETURN (SPECIAL-USE)"]))
            sel = draw(st.sampled_from(["", "(SUBSCRIBED) ", "(SUBSCRIBED RECURSIVEMATCH) ", "(SPECIAL-USE) ", "(REMOTE) "]))
            return f"LIST {sel}{ref} {pat}{ext}"
        return f"{kind.upper()} {ref} {pat}"
    if kind == "append":
        body = draw(st.sampled_from(["From: a@b\r\n\r\nx\r\n", "", "junk without headers", "Subject: s\r\n\r\n"]))
        fl = draw(st.sampled_from(["", "(\\Seen) ", "(kw1 \\Deleted) ", "(\\Recent) "]))
        dt = draw(st.sampled_from(["", '"01-Jan-2020 10:00:00 +0000" ', '" 1-Jan-2020 10:00:00 -0800" ']))
        plus = draw(st.sampled_from(["", "+"]))
        return f"APPEND {name} {fl}{dt}{{{len(body)}{plus}}}\r\n{body}"
    if kind == "simple":
        return draw(st.sampled_from(["CAPABILITY", "NAMESPACE", "ID NIL", 'ID ("name" "x")', "LOGIN u p", "AUTHENTICATE PLAIN", "NOOP"]))
    return draw(st.sampled_from(MALFORMED))


@st.composite
def pair_step(draw):
    # two sessions send a command at the same instant: the second one queues behind / races the first
    # (seeded/C06-2: a command the management task holds while the mailbox is shut down by a DELETE)
    # "@SEL" stands for whatever mailbox session a has selected when the step runs
    box = draw(st.sampled_from(["@SEL", "@SEL", "@SEL", "mb", "emp", "par/child", "par", "gone", "inbox"]))
    if draw(st.integers(0, 3)) == 0:
        # two name-space commands on the same (or a related) mailbox at the same instant, in either order
        # (seeded/C06-5: DELETE and RENAME taking the name-space lock and the mailbox queue in opposite orders)
        nb = draw(st.sampled_from(["mb", "emp", "par/child", "par", "@SEL", "gone"]))
        ns = [f"DELETE {nb}", f"RENAME {nb} {nb}2", f"RENAME {nb} other9", f"CREATE {nb}/kid9", f"CREATE {nb}", f"DELETE {nb}/kid9", f"RENAME inbox {nb}", f"RENAME other9 {nb}"]
        return {"op": "pair", "line": draw(st.sampled_from(ns)), "line2": draw(st.sampled_from(ns)), "gap": draw(st.sampled_from([0, 0, 0, 1, 2])), "slow": draw(st.booleans())}
    m9 = "From: a@example.com\r\nSubject: pair\r\n\r\nx\r\n"
    if draw(st.integers(0, 3)) == 1:
        # every kind of command arriving while a long-running command of a slow client is still executing on the
        # same mailbox (seeded/C06-4: an EXAMINE in that position killed the mailbox's management task); session b
        # may first select that mailbox itself
        first = draw(st.sampled_from(["FETCH 1:* (FLAGS BODY.PEEK[])", "UID FETCH 1:* (BODY.PEEK[HEADER])", "SEARCH TEXT zzz9", "COPY 1:* emp", "UID SEARCH BODY pair",
                                      "FETCH 1:* (BODY[])", "STORE 1:* +FLAGS (kw9)", "UID COPY 1:* @SEL"]))
        second = draw(st.sampled_from(["EXAMINE @SEL", "EXAMINE @SEL", "SELECT @SEL", "STATUS @SEL (MESSAGES UIDNEXT)", "NOOP", "CHECK", "CLOSE", "UNSELECT", "EXPUNGE", "STORE 1 +FLAGS (kw8)",
                                       "FETCH 1 (FLAGS)", "FETCH 1:* (BODY[])", "SEARCH ALL", "UID SEARCH 1:*", f"APPEND @SEL {{{len(m9)}}}\r\n{m9}", "COPY 1 @SEL", "UID COPY 1 emp", "UID MOVE 1 emp",
                                       "UID EXPUNGE 1", "UID STORE 1 -FLAGS (kw8)", "UID FETCH 1 (BODY[])", "DELETE @SEL", "RENAME @SEL other9", "SUBSCRIBE @SEL", "LIST \"\" *", "LOGOUT"]))
        pre2 = draw(st.sampled_from([None, "SELECT @SEL", "SELECT @SEL", "EXAMINE @SEL"]))
        return {"op": "pair", "line": first, "line2": second, "gap": draw(st.sampled_from([0, 1, 1, 2, 3, 5])), "slow": True, "pre2": pre2}
    # (the long-running first commands and the slow client were added after seeded/C06-4: an EXAMINE that
    #  arrives while another session's command is still executing on the mailbox)
    pair_first = draw(st.sampled_from([f"DELETE {box}", f"DELETE {box}", f"RENAME {box} {box}2", "EXPUNGE", "CLOSE", f"SELECT {box}",
                                       "FETCH 1:* (FLAGS BODY.PEEK[])", "UID FETCH 1:* (BODY.PEEK[HEADER])", "SEARCH TEXT zzz9", "COPY 1:* emp", "FETCH 1:* (FLAGS BODY.PEEK[])"]))
    same_box = [f"SELECT {box}", f"EXAMINE {box}", f"STATUS {box} (MESSAGES UNSEEN)", f"APPEND {box} {{{len(m9)}}}\r\n{m9}", f"DELETE {box}",
                f"RENAME {box} other9", f"SUBSCRIBE {box}", f"COPY 1 {box}", f"UID MOVE 1 {box}", f"CREATE {box}/kid9"]
    second = draw(st.one_of(st.sampled_from(same_box), st.sampled_from(same_box), command_line()))
    return {"op": "pair", "line": pair_first, "line2": second, "gap": draw(st.integers(0, 3)), "slow": draw(st.booleans())}


@st.composite
def step(draw):
    k = draw(st.integers(0, 19))
    s = draw(st.sampled_from(["a", "a", "b"]))
    if k <= 12:
        return {"op": "cmd", "s": s, "line": draw(command_line())}
    if k in (13, 14):
        return draw(pair_step())
    if k == 15:
        return {"op": "idle", "s": s}
    if k == 16:
        return {"op": "garbage", "s": s, "data": draw(st.sampled_from(["", " ", "hello", "* OK", "+ go", "a", "DONE", "\x00\x01", "(((", "NOOP"]))}
    if k == 17:
        return {"op": "restart"}
    if k == 18:
        return {"op": "cmd", "s": s, "line": "SELECT " + draw(st.sampled_from(["inbox", "mb", "emp", "par/child"]))}
    return {"op": "cmd", "s": s, "line": "LOGOUT"}


def strategy(tier, shard, nshards):
    n = 10 if tier == "quick" else 14
    return st.fixed_dictionaries(
        {
            "rseed": st.integers(0, 2**16),
            "presel": st.sampled_from([None, "inbox", "mb", "emp", "par/child"]),
            "examine": st.booleans(),
            "steps": st.lists(step(), min_size=3, max_size=n),
        }
    )


def budget(tier):
    if tier == "quick":
        return {"examples": 260, "shards": 16, "guard_s": 600}
    return {"examples": 4000, "shards": 16, "guard_s": 7200}


# ---------------------------------------------------------------- template

_TEMPLATE = {}


def template_dir():
    pid = os.getpid()
    if pid in _TEMPLATE:
        return _TEMPLATE[pid]
    w = World(rseed=0)

    async def build():
        await w.boot()
        s = w.session("t")
        for name in ("mb", "emp", "par", "par/child", "ph", "ph/kid"):
            r = await s.cmd(b"CREATE " + name.encode())
            assert r.ok, r.raw
        n = 0
        for name, k in (("inbox", 3), ("mb", 2), ("par/child", 1)):
            for _ in range(k):
                n += 1
                m = tagged_message(f"m{n}")
                r = await s.cmd(b"APPEND %s {%d}\r\n%s" % (name.encode(), len(m), m))
                assert r.ok, r.raw
        r = await s.cmd(b"DELETE ph")
        assert r.ok, r.raw
        await s.cmd(b"LOGOUT")
        await w.shutdown()

    w.run(build())
    dst = str(scratch_root() / f"tmpl-c06-{pid}")
    rmtree(dst)
    shutil.copytree(w.root, dst, symlinks=True)
    w.close()
    _TEMPLATE[pid] = dst
    return dst


COMMAND_ONLY = {"SEARCH", "LIST", "LSUB", "STATUS", "CAPABILITY", "NAMESPACE", "ID"}


def execute(trace) -> CaseResult:
    res = CaseResult()
    tmpl = template_dir()
    w = World(rseed=trace["rseed"])
    rmtree(w.root)
    shutil.copytree(tmpl, w.root, symlinks=True)
    transcript = []
    viol = []

    def v(clause, detail, sig=""):
        viol.append(Violation(ID, clause, detail, trace, sig))

    def cmd_sig(line: str) -> str:
        parts = line.split()
        if not parts:
            return "empty"
        c = parts[0].upper()
        if c == "UID" and len(parts) > 1:
            c = "UID " + parts[1].upper()
        return c

    selected = {}  # session name -> mailbox it has selected (as far as the harness knows)

    async def check_cmd(sess, line: str):
        r = await sess.cmd(line.encode("latin-1"))
        up = line.upper()
        if up.startswith(("SELECT ", "EXAMINE ")):
            selected[sess.name] = line.split(" ", 1)[1].strip().strip('"') if r.ok else None
        elif up.startswith(("CLOSE", "UNSELECT", "LOGOUT")):
            selected[sess.name] = None
        transcript.append({"s": sess.name, "c": line[:80], "r": r.status, "t": round(r.vdur, 2), "closed": r.closed, **({"raw": r.raw[-200:].decode("latin-1")} if os.environ.get("C06_RAW") else {})})
        sig = cmd_sig(line)
        if r.hang or r.watchdog:
            v("C06.watchdog", f"'{line[:60]}' answered only by the watchdog / not at all (vdur={r.vdur:.0f}s)", sig)
            return r
        if r.status in ("NO", "BAD"):
            res.nontrivial = True
        if r.n_tagged != 1:
            if r.closed and r.n_tagged == 0 and r.bye:
                pass  # told BYE: the session legitimately ends here
            elif r.closed and r.n_tagged == 0:
                v("C06.closed-without-answer", f"'{line[:60]}': connection closed with no tagged reply; raw={r.raw[-120:]!r}", sig)
            else:
                v("C06.tagged.count", f"'{line[:60]}': {r.n_tagged} tagged replies; raw={r.raw[-160:]!r}", sig)
        else:
            # tagged must be last among the command's own data
            seen_tagged = False
            for x in r.resps:
                if x.kind == "tagged" and x.tag == r.tag:
                    seen_tagged = True
                elif seen_tagged and x.kind == "untagged" and x.name in COMMAND_ONLY:
                    v("C06.tagged.not-last", f"'{line[:60]}': {x.name} after the tagged reply", sig)
        if r.closed and not r.bye:
            v("C06.closed-without-bye", f"'{line[:60]}' -> {r.status}, then the connection was closed without BYE", sig if r.status != "BAD" else "after-BAD")
        return r

    async def main():
        await w.boot(first=False)
        sessions = {}

        def get(name):
            s = sessions.get(name)
            if s is None or not s.alive:
                s = w.session(name)
                sessions[name] = s
            return s

        if trace.get("presel"):
            s = get("a")
            rp = await s.cmd((b"EXAMINE " if trace.get("examine") else b"SELECT ") + trace["presel"].encode())
            selected["a"] = trace["presel"] if rp.ok else None
        for st_ in trace["steps"]:
            res.steps += 1
            op = st_["op"]
            if op == "restart":
                await w.restart()
                sessions.clear()
                transcript.append({"op": "restart"})
                res.labels.append("restart")
                continue
            if op == "pair":
                import asyncio

                sa, sb = get("a"), get("b")
                if sa.idle_tag or sb.idle_tag:
                    continue
                cur = selected.get("a") or "inbox"
                st_ = dict(st_, line=st_["line"].replace("@SEL", cur), line2=st_["line2"].replace("@SEL", cur))
                if st_.get("pre2"):
                    await check_cmd(sb, st_["pre2"].replace("@SEL", cur))
                    if not sb.alive:
                        sessions.pop("b", None)
                        continue

                if st_.get("slow"):
                    import random as _rnd

                    rr = _rnd.Random(trace.get("rseed", 0) * 31 + res.steps)
                    sa.writer.slow = lambda: rr.choice((0.0, 0.001, 0.003, 0.02))  # session a reads slowly

                async def second():
                    if st_["gap"]:
                        await asyncio.sleep(st_["gap"] * 0.001)
                    return await check_cmd(sb, st_["line2"])

                await asyncio.gather(check_cmd(sa, st_["line"]), second())
                sa.writer.slow = None
                res.labels.append("pair")
                for nm_, ss_ in (("a", sa), ("b", sb)):
                    if not ss_.alive:
                        sessions.pop(nm_, None)
                continue
            s = get(st_["s"])
            if op == "cmd":
                if s.idle_tag:
                    r = await s.done()
                    if r.status != "OK" or r.watchdog:
                        v("C06.idle.done", f"DONE answered {r.status} raw={r.raw[-100:]!r}", "IDLE")
                    if not s.alive:
                        continue
                r = await check_cmd(s, st_["line"])
                if st_["line"].upper().startswith("LOGOUT"):
                    sessions.pop(st_["s"], None)
            elif op == "idle":
                if s.idle_tag:
                    continue
                tag = await s.idle()
                got = bytes(s.writer.buf[s.idle_start :])
                transcript.append({"s": s.name, "c": "IDLE", "r": got[:40].decode("latin-1")})
                if b"+ " not in got:
                    # refused? then it must be a tagged reply
                    if s._find_tagged(tag, s.idle_start) is None:
                        v("C06.idle.no-continuation", f"IDLE got neither '+' nor a tagged reply: {got[:80]!r}", "IDLE")
                    s.idle_tag = None
            elif op == "garbage":
                if s.idle_tag:
                    continue
                before = len(s.writer.buf)
                await s.raw_line(st_["data"].encode("latin-1"), settle=0.5)
                out = bytes(s.writer.buf[before:])
                transcript.append({"s": s.name, "c": "garbage " + repr(st_["data"]), "r": out[:60].decode("latin-1"), "closed": not s.alive})
                # the front-end never relays an empty line; only judge non-empty
                if st_["data"].strip() and not st_["data"].strip().upper().startswith("DONE"):
                    if b"BAD" not in out:
                        v("C06.garbage.no-bad", f"tag-less line {st_['data']!r} got {out[:80]!r}", "garbage")
                    if not s.alive and b"* BYE" not in out:
                        v("C06.closed-without-bye", f"tag-less line {st_['data']!r}: connection closed without BYE", "after-BAD")
                    else:
                        res.nontrivial = True
        # usability: every live session answers NOOP
        for name, s in list(sessions.items()):
            if not s.alive:
                continue
            if s.idle_tag:
                r = await s.done()
                if r.status != "OK" or r.watchdog:
                    v("C06.idle.done", f"DONE answered {r.status}", "IDLE")
                if not s.alive:
                    continue
            r = await s.cmd(b"NOOP")
            if r.status != "OK" or r.watchdog or r.hang:
                v("C06.unusable-after", f"final NOOP on session {name}: {r.status} vdur={r.vdur:.0f} closed={r.closed}", "")

    try:
        w.run(main())
    except Hang as e:
        v("C06.deadlock", f"loop stuck: {e}", "")
    finally:
        res.vseconds = w.loop.time() - 1000.0
        w.close()
    res.violations = viol
    res.sample = transcript
    kinds = {t.get("c", "").split(" ")[0] for t in transcript if "c" in t}
    res.labels.extend(sorted(k for k in kinds if k))
    return res


def finding_matches(finding, vj):
    sigs = finding.get("sigs")
    if sigs is not None and vj.get("sig") not in sigs:
        return False
    return True

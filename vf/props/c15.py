"""C15 - a message set denotes the same messages in every command."""
from __future__ import annotations

import itertools
import multiprocessing as mp
import os
import shutil

from hypothesis import strategies as st

from .. import wire
from ..driver import Hang, World, tagged_message
from ..run import CaseResult, Violation, case_hash, open_ids
from ..world import rmtree, scratch_root

ID = "C15"
LEVEL = "exploration"
RULE = (
    "ENUMERATED end-to-end: every sequence set of one or two elements, each element an atom from {0..N+1, *} (UID sets: {0, 1, first, a gap, last, last+1, *}; all of 0..last+1 for N <= 2) or a range of two "
    "such atoms, for every mailbox size N in 0..3 (quick) / 0..5 (thorough), in each of FETCH, UID FETCH, STORE, UID STORE, COPY, "
    "UID COPY, MOVE, UID MOVE, SEARCH <set>, SEARCH UID <set>, UID SEARCH <set>, UID EXPUNGE, on a mailbox whose UIDs are sparse "
    "(UID != sequence number). Function level: every set of up to three elements for N <= 5 through sequence_set_to_list / "
    "clip_uid_set and the two SEARCH matchers. Hypothesis adds sampled sets of up to 4 elements for N in 6..9. Oracle = "
    "model.denote(): a:b == b:a, * = last (highest UID), absent UIDs skipped, n:* includes the last, a non-UID number outside "
    "1..N => BAD and nothing touched (a SEARCH key may match nothing instead). Non-trivial = the set contains *, a reversed "
    "range or an out-of-range element; distinct = distinct (N, command, set) triple."
)
ASSUMPTIONS = [
    "what a command touched is observed through unique marker keywords (STORE), COPYUID + read-back of the destination (COPY/MOVE), "
    "the FETCH/SEARCH responses themselves, and a read-back of the source (MOVE, UID EXPUNGE)",
    "UID 0 is syntactically not a sequence number: BAD or 'names nothing' are both accepted for it in UID sets",
]
OPEN = open_ids(ID)
COMMANDS = ["FETCH", "UID FETCH", "STORE", "UID STORE", "COPY", "UID COPY", "MOVE", "UID MOVE", "SEARCH", "SEARCH UID", "UID SEARCH", "UID SEARCH UID", "UID EXPUNGE"]


# ------------------------------------------------------------------ model
def denote(elts, universe, star):
    """elts: list of (lo, hi) with ints or '*'.  universe: sorted list of valid numbers
    (1..N for sequence numbers, the live UIDs for UID sets).  Returns (set, invalid?) where
    invalid? tells whether some explicit element lies outside the universe's range
    (only meaningful for sequence numbers)."""
    out = set()
    bad = False
    for lo, hi in elts:
        if lo == "*":
            lo = star
        if hi == "*":
            hi = star
        if lo is None or hi is None:
            bad = True
            continue
        a, b = min(lo, hi), max(lo, hi)
        out.update(x for x in universe if a <= x <= b)
        if not universe or a < universe[0] or b > universe[-1]:
            bad = True
    return out, bad


def all_elements(n):
    atoms = list(range(0, n + 2)) + ["*"]
    el = [(a, a) for a in atoms] + [(a, b) for a in atoms for b in atoms]
    return atoms, el


def text_of(elts):
    return ",".join(str(lo) if lo == hi and not isinstance(lo, tuple) and (lo, hi) in _SINGLE else f"{lo}:{hi}" for lo, hi in elts)


_SINGLE = set()


def set_text(elts, singles):
    parts = []
    for (lo, hi), single in zip(elts, singles):
        parts.append(str(lo) if single else f"{lo}:{hi}")
    return ",".join(parts)


def uid_atoms(n):
    """Atoms for UID sets over the sparse UIDs 2,4,..,2n: below the first, the first, a gap, the last
    and ABOVE the last UID (the seeded change seeded/C15 showed that 0..N+1 never exceeds the highest
    UID, so `6:1`-like ranges that start above it were never written)."""
    top = 2 * n
    if n <= 2:
        nums = list(range(0, top + 2))
    else:
        nums = sorted({0, 1, 2, 3, top, top + 1})
    return nums + ["*"]


def enumerate_sets(n, max_elts=2, uid_mode=False):
    atoms = uid_atoms(n) if uid_mode else list(range(0, n + 2)) + ["*"]
    base = [((a, a), True) for a in atoms] + [((a, b), False) for a in atoms for b in atoms]
    for k in range(1, max_elts + 1):
        for combo in itertools.product(base, repeat=k):
            elts = [c[0] for c in combo]
            singles = [c[1] for c in combo]
            yield elts, set_text(elts, singles)


def nontrivial(elts, n, uid_mode=False):
    top = 2 * n if uid_mode else n
    for lo, hi in elts:
        if lo == "*" or hi == "*":
            return True
        if lo > hi:
            return True
        if lo < 1 or hi > top or lo > top:
            return True
    return False


def is_uid_mode(cmd):
    return cmd.startswith("UID ") and cmd != "UID SEARCH" or cmd in ("SEARCH UID", "UID SEARCH UID")


# ------------------------------------------------------------- end-to-end
_TEMPL = {}


def template(n: int):
    """A mail root with mailbox 'mb' holding n messages with sparse UIDs
    (uid = 2*i for message i, odd UIDs expunged) and an empty 'dst'."""
    key = (os.getpid(), n)
    if key in _TEMPL:
        return _TEMPL[key]
    w = World(rseed=n)

    async def build():
        await w.boot()
        s = w.session("t")
        await s.cmd(b"CREATE mb")
        await s.cmd(b"CREATE dst")
        for i in range(2 * n + 1):
            m = tagged_message(f"x{i + 1}")
            await s.cmd(b"APPEND mb {%d}\r\n%s" % (len(m), m))
        await s.cmd(b"SELECT mb")
        odd = ",".join(str(i) for i in range(1, 2 * n + 2, 2))
        await s.cmd(b"STORE " + odd.encode() + b" +FLAGS.SILENT (\\Deleted)")
        await s.cmd(b"EXPUNGE")
        await s.cmd(b"LOGOUT")
        await w.shutdown()

    w.run(build())
    dst = str(scratch_root() / f"tmpl-c15-{os.getpid()}-{n}")
    rmtree(dst)
    shutil.copytree(w.root, dst, symlinks=True)
    w.close()
    _TEMPL[key] = dst
    return dst


class Bench:
    """A booted world cloned from the template, reused until a case modifies the source."""

    def __init__(self, n):
        self.n = n
        tmpl = template(n)  # (builds its own World: must happen before ours becomes current)
        self.w = World(rseed=n)
        rmtree(self.w.root)
        shutil.copytree(tmpl, self.w.root, symlinks=True)
        self.uids = [2 * i for i in range(1, n + 1)]
        self.nmark = 0
        self.dst_seen = 0
        self.dirty = False

        async def up():
            await self.w.boot(first=False)
            self.s = self.w.session("a")
            r = await self.s.cmd(b"SELECT mb")
            assert r.ok
            self.o = self.w.session("o")

        self.w.run(up())

    def close(self):
        self.w.close()


def run_case(b: Bench, cmd: str, elts, text: str):
    """-> (clause or None, detail).  May set b.dirty."""
    n = b.n
    uid_mode = is_uid_mode(cmd)
    seqs = list(range(1, n + 1))
    if uid_mode:
        want, _ = denote(elts, b.uids, b.uids[-1] if b.uids else None)
        has_zero = any(lo == 0 or hi == 0 for lo, hi in elts)
        invalid = False
        want_uids = want
    else:
        want, invalid = denote(elts, seqs, n if n else None)
        has_zero = False
        want_uids = {b.uids[i - 1] for i in want}
    res = {}

    async def go():
        s, o = b.s, b.o
        t = text.encode()
        if cmd in ("FETCH", "UID FETCH"):
            r = await s.cmd((b"UID " if uid_mode else b"") + b"FETCH " + t + b" (UID)")
            res["r"] = r
            res["got"] = {int(it["UID"]) for _, it in r.fetches() if "UID" in it}
        elif cmd in ("SEARCH", "SEARCH UID", "UID SEARCH", "UID SEARCH UID"):
            line = (b"UID " if cmd.startswith("UID ") else b"") + b"SEARCH " + (b"UID " if cmd.endswith("UID") else b"") + t
            r = await s.cmd(line)
            res["r"] = r
            nums = set()
            for x in r.untagged("SEARCH"):
                try:
                    nums.update(wire.search_nums(x))
                except wire.Malformed:
                    pass
            res["got"] = nums if cmd.startswith("UID ") else {b.uids[i - 1] for i in nums if 1 <= i <= n}
            res["raw_nums"] = nums
        elif cmd in ("STORE", "UID STORE"):
            b.nmark += 1
            mk = f"mk{b.nmark}".encode()
            r = await s.cmd((b"UID " if uid_mode else b"") + b"STORE " + t + b" +FLAGS.SILENT (" + mk + b")")
            res["r"] = r
            r2 = await s.cmd(b"UID SEARCH KEYWORD " + mk)
            got = set()
            for x in r2.untagged("SEARCH"):
                got.update(wire.search_nums(x))
            res["got"] = got
        elif cmd in ("COPY", "UID COPY", "MOVE", "UID MOVE"):
            verb = b"MOVE " if "MOVE" in cmd else b"COPY "
            r = await s.cmd((b"UID " if uid_mode else b"") + verb + t + b" dst")
            res["r"] = r
            # what arrived in dst since last time
            r2 = await o.cmd(b"EXAMINE dst")
            r3 = await o.cmd(b"UID FETCH %d:* (UID BODY.PEEK[HEADER.FIELDS (X-VF-Tag)])" % (b.dst_seen + 1))
            import re as _re

            tags = []
            for _, it in r3.fetches():
                if "UID" in it and int(it["UID"]) > b.dst_seen:
                    h = it.get("BODY[HEADER.FIELDS (X-VF-TAG)]")
                    m = _re.search(rb"X-VF-Tag:\s*x(\d+)", bytes(h or b""))
                    tags.append((int(it["UID"]), int(m.group(1)) if m else None))
            await o.cmd(b"UNSELECT")
            if tags:
                b.dst_seen = max(u for u, _ in tags)
            res["got"] = {t_ for _, t_ in tags}  # message i has tag x(2i), uid 2i
            res["ncopies"] = len(tags)
            if "MOVE" in cmd:
                r4 = await s.cmd(b"UID SEARCH ALL")
                left = set()
                for x in r4.untagged("SEARCH"):
                    left.update(wire.search_nums(x))
                res["left"] = left
                if left != set(b.uids):
                    b.dirty = True
        elif cmd == "UID EXPUNGE":
            await s.cmd(b"STORE 1:* +FLAGS.SILENT (\\Deleted)") if n else None
            r = await s.cmd(b"UID EXPUNGE " + t)
            res["r"] = r
            r4 = await s.cmd(b"UID SEARCH ALL")
            left = set()
            for x in r4.untagged("SEARCH"):
                left.update(wire.search_nums(x))
            res["got"] = set(b.uids) - left
            if left != set(b.uids):
                b.dirty = True
            elif n:
                await s.cmd(b"STORE 1:* -FLAGS.SILENT (\\Deleted)")

    try:
        b.w.run(go())
    except Hang as e:
        b.dirty = True
        return "C06.deadlock", str(e)
    r = res["r"]
    if r.hang or r.watchdog or r.closed:
        b.dirty = True
        return "C06.watchdog", f"{cmd} {text}: answered only by the watchdog / connection closed"
    got = res.get("got", set())
    shown = f"N={n} uids={b.uids}: '{cmd} {text}'"
    is_search = "SEARCH" in cmd
    if not uid_mode and invalid:
        # a number outside 1..N (or * on an empty mailbox): BAD, nothing touched
        if is_search:
            if r.ok and not got <= want_uids:
                return "C15.search.out-of-range", f"{shown} has an out-of-range element; it returned uids {sorted(got)}, its in-range part denotes {sorted(want_uids)}"
            return None, ""
        if r.status != "BAD":
            return "C15.out-of-range.not-bad", f"{shown} has a sequence number outside 1..{n}; answered {r.status}, touched uids {sorted(got)}"
        if got or res.get("left", set(b.uids)) != set(b.uids):
            return "C15.out-of-range.touched", f"{shown} was refused but touched uids {sorted(got)}"
        return None, ""
    if uid_mode and has_zero and not r.ok:
        if got:
            return "C15.refused.touched", f"{shown} was refused ({r.status}) but touched uids {sorted(got)}"
        return None, ""
    if not r.ok:
        if uid_mode or not invalid:
            # NO is acceptable for COPY/MOVE/FETCH on an EMPTY denotation? no: a valid set must be accepted
            if not want_uids and cmd in ("FETCH", "COPY", "MOVE") and n == 0:
                return None, ""
            return "C15.valid.refused", f"{shown} is a valid set denoting uids {sorted(want_uids)}; answered {r.status}"
    if got != want_uids:
        return "C15.denotation", f"{shown} touched/returned uids {sorted(got)}; the set denotes {sorted(want_uids)}"
    if "ncopies" in res and res["ncopies"] != len(want_uids):
        return "C15.copy.count", f"{shown} created {res['ncopies']} copies for {len(want_uids)} denoted messages"
    if "left" in res and r.ok and res["left"] != set(b.uids) - want_uids:
        return "C15.move.removed", f"{shown} left uids {sorted(res['left'])} in the source; expected {sorted(set(b.uids) - want_uids)}"
    if is_search and r.ok and not cmd.startswith("UID "):
        rn = sorted(res["raw_nums"])
        if rn != sorted(set(rn)) or any(x < 1 or x > n for x in rn):
            return "C15.search.numbers", f"{shown} returned {rn}"
    return None, ""


def _slice(args):
    n, cmd, max_elts = args
    from ..run import _limit_resources

    _limit_resources()
    b = None
    out = {"evaluations": 0, "nontrivial": 0, "violations": [], "samples": []}
    try:
        um = is_uid_mode(cmd)
        for elts, text in enumerate_sets(n, max_elts, um):
            if b is None or b.dirty:
                if b is not None:
                    b.close()
                b = Bench(n)
            clause, detail = run_case(b, cmd, elts, text)
            out["evaluations"] += 1
            if nontrivial(elts, n, um):
                out["nontrivial"] += 1
            if len(out["samples"]) < 2 and nontrivial(elts, n, um):
                out["samples"].append({"N": n, "cmd": cmd, "set": text})
            if clause and clause.startswith("C15"):
                trace = {"kind": "e2e", "N": n, "cmd": cmd, "set": text, "elts": [[lo, hi] for lo, hi in elts]}
                if len([v for v in out["violations"] if v["clause"] == clause]) < 3:
                    out["violations"].append({"property": ID, "clause": clause, "sig": f"{cmd}", "detail": detail, "trace": trace})
    finally:
        if b is not None:
            b.close()
    return out


# ------------------------------------------------------------ function level
def function_level(max_n=5):
    """Every set of <= 3 elements through the pure helpers."""
    viol = []
    count = 0
    try:
        from asimap.exceptions import Bad
        from asimap.utils import sequence_set_to_list

        try:
            from asimap.utils import clip_uid_set
        except ImportError:
            clip_uid_set = None
    except Exception as e:  # refactored away: not an error of the property
        return 0, [], f"function-level slice skipped: {e}"
    for n in range(0, max_n + 1):
        atoms = list(range(0, n + 2)) + ["*"]
        base = [a for a in atoms] + [(a, b) for a in atoms for b in atoms]
        seqs = list(range(1, n + 1))
        uids = [2 * i for i in range(1, n + 1)]
        for k in (1, 2, 3):
            for combo in itertools.product(base, repeat=k):
                if k == 3 and n > 3:
                    break
                elts = [(c, c) if not isinstance(c, tuple) else c for c in combo]
                count += 1
                want, invalid = denote(elts, seqs, n if n else None)
                try:
                    got = set(sequence_set_to_list(list(combo), n, uid_cmd=False))
                    refused = False
                except Bad:
                    got, refused = set(), True
                except Exception as e:
                    viol.append(("C15.fn.exception", f"sequence_set_to_list({list(combo)!r}, {n}) raised {type(e).__name__}: {e}", combo, n))
                    continue
                if invalid != refused or (not refused and got != want):
                    if len(viol) < 20:
                        viol.append(("C15.fn.seq", f"sequence_set_to_list({list(combo)!r}, {n}) -> {'Bad' if refused else sorted(got)}; expected {'Bad' if invalid else sorted(want)}", combo, n))
        # uid mode (clipped as the callers do), then mapped through the uid table; atoms reach above the last uid
        uatoms = [a for a in uid_atoms(n) if a != 0]
        ubase = [a for a in uatoms] + [(a, b) for a in uatoms for b in uatoms]
        umax = uids[-1] if uids else 1
        for k in (1, 2):
            if k == 2 and n > 3:
                break
            for combo in itertools.product(ubase, repeat=k):
                elts = [(c, c) if not isinstance(c, tuple) else c for c in combo]
                count += 1
                wantu, _ = denote(elts, uids, uids[-1] if uids else None)
                try:
                    ms = list(combo)
                    if clip_uid_set is not None:
                        ms = clip_uid_set(ms, umax)
                    gotu = {u for u in sequence_set_to_list(ms, umax, uid_cmd=True) if u in uids}
                except Exception as e:
                    viol.append(("C15.fn.exception", f"uid sequence_set_to_list({list(combo)!r}, {umax}) raised {type(e).__name__}: {e}", combo, n))
                    continue
                if uids and gotu != wantu and len(viol) < 20:
                    viol.append(("C15.fn.uid", f"uid set {list(combo)!r} over uids {uids} -> {sorted(gotu)}; expected {sorted(wantu)}", combo, n))
    return count, viol, None


def extra(tier, seed):
    max_n = 3 if tier == "quick" else 5
    jobs = [(n, cmd, 2 if n <= (3 if tier == "quick" else 4) else 1) for n in range(0, max_n + 1) for cmd in COMMANDS]
    ctx = mp.get_context("fork")
    with ctx.Pool(min(16, os.cpu_count() or 1)) as pool:
        outs = pool.map(_slice, jobs, chunksize=1)
    ev = sum(o["evaluations"] for o in outs)
    viols = [v for o in outs for v in o["violations"]]
    samples = [s for o in outs for s in o["samples"]][:4]
    nt = sum(o["nontrivial"] for o in outs)
    fcount, fviol, note = function_level(5)
    for clause, detail, combo, n in fviol[:6]:
        viols.append({"property": ID, "clause": clause, "sig": "fn", "detail": detail, "trace": {"kind": "fn", "N": n, "set": repr(combo)}})
    return {
        "evaluations": ev + fcount,
        "nontrivial": [f"enum-{i}" for i in range(nt)],
        "violations": viols,
        "samples": samples,
        "coverage": {"exhaustive": False, "bounded_slices_enumerated_completely": True, "enumerated_end_to_end": ev, "enumerated_function_level": fcount, "enumeration_bounds": f"N<= {max_n}, <=2 elements end-to-end; <=3 elements function level (N<=3), <=2 (N<=5)", "function_level_note": note},
    }


# --------------------------------------------------------------- hypothesis
def strategy(tier, shard, nshards):
    def elt(n):
        atom = st.one_of(st.integers(0, n + 1), st.integers(0, 2 * n + 1), st.just("*"))
        return st.one_of(atom.map(lambda a: ((a, a), True)), st.tuples(atom, atom).map(lambda t: ((t[0], t[1]), False)))

    return st.integers(6, 9).flatmap(
        lambda n: st.fixed_dictionaries(
            {"kind": st.just("e2e"), "N": st.just(n), "cmd": st.sampled_from(COMMANDS), "elts": st.lists(elt(n), min_size=1, max_size=4)}
        )
    ).map(lambda d: {"kind": "e2e", "N": d["N"], "cmd": d["cmd"], "set": set_text([e[0] for e in d["elts"]], [e[1] for e in d["elts"]]), "elts": [list(e[0]) for e in d["elts"]]})


def budget(tier):
    if tier == "quick":
        return {"examples": 60, "shards": 16, "guard_s": 900}
    return {"examples": 2500, "shards": 16, "guard_s": 7200}


def execute(trace) -> CaseResult:
    res = CaseResult()
    if trace.get("kind") == "fn":
        # function-level violations replay through the enumeration itself
        _, fviol, _ = function_level(trace.get("N", 5))
        res.violations = [Violation(ID, c, d, trace, "fn") for c, d, combo, n in fviol if repr(combo) == trace.get("set")]
        return res
    n = trace["N"]
    elts = [(lo, hi) for lo, hi in trace["elts"]]
    b = Bench(n)
    try:
        clause, detail = run_case(b, trace["cmd"], elts, trace["set"])
    finally:
        b.close()
    res.steps = 1
    res.nontrivial = nontrivial(elts, n, is_uid_mode(trace["cmd"]))
    res.labels = [trace["cmd"], f"N={n}"]
    res.sample = [{"N": n, "cmd": trace["cmd"], "set": trace["set"], "result": clause or "ok"}]
    if clause:
        if clause.startswith("C15"):
            res.violations = [Violation(ID, clause, detail, trace, trace["cmd"])]
        else:
            res.blocked = clause.split(".")[0]
    return res

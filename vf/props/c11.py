"""C11 - a crash at any instant loses nothing acknowledged and never rebinds a UID.

Fault enumeration: for each generated history a counting dry run (in a forked
child) numbers every durable effect - every database call (statement, commit)
and every file-system primitive (os.rename/remove/unlink/utime/mkdir/rmdir/
symlink/link/replace/truncate, and the write/flush/close/truncate methods of
file objects, seen through a sys.monitoring CALL hook) - and, after every
acknowledged command, copies the mail directory (snapshot S_i).  Then for
EVERY k a forked child replays the history and os._exit()s just before effect
k (no cleanup runs, Python-level buffers are lost, as under SIGKILL), logging
with unbuffered os.write every byte the client was sent.  A third forked
process starts the server on the crashed directory and reads everything back.
"""
from __future__ import annotations

import json
import os
import re
import shutil
import sqlite3
import sys
import tempfile

from hypothesis import strategies as st

from .. import wire
from ..run import CaseResult, Violation, open_ids
from ..world import rmtree, scratch_root

ID = "C11"
LEVEL = "fault_enumeration"
RULE = (
    "Hypothesis-generated histories of 3-8 steps (APPEND with flags, STORE on generated sets, body FETCH without PEEK, EXPUNGE, UID EXPUNGE, COPY, MOVE, "
    "CREATE, DELETE, RENAME incl. a subtree, SUBSCRIBE, pack with a lowered limit) over mailboxes inbox/mb/mb/sub, plus two "
    "special kinds: first start-up on an empty directory and start-up on a database left at schema version k (k = 0..6, built by "
    "running the first k migrations). For every history EVERY crash point is enumerated: a counting dry run numbers each durable "
    "effect (statement/commit handed to SQLite; os.rename/remove/link/mkdir/rmdir/utime/truncate and open-for-writing via an audit hook; flush/close/unbuffered write of writable files via sys.monitoring) and for k = 1..K a forked child replays the "
    "history and os._exit()s just before effect k. Oracle (fresh forked process on the crashed directory): the server starts; "
    "LIST works and every selectable mailbox can be selected; with j = number of commands acknowledged before the crash, every "
    "mailbox state lies 'between' snapshot S_j-1 and S_j of the dry run (messages and flags untouched by the in-flight command "
    "are exactly as acknowledged; its own effects may be absent, partial or complete); every (mailbox, UIDVALIDITY, UID) that "
    "was revealed to the client still names the same message; UIDNEXT is above every revealed UID; the recovered server is stopped and started once more and must show the same uid->message pairs; "
    "independently of the snapshots, the flags the server reported in the untagged FETCH responses of a STORE / body FETCH must be the flags of that message in the copy taken right after the acknowledgement (C11.flags.told). Non-trivial = a crash point "
    "strictly inside a mutating command (between two of its effects) or inside start-up/migration; distinct = distinct "
    "(history hash, k). Crash points inside the pack of a folder are not enumerated while the known finding pack-not-crash-safe is open (counted under excluded_by_known_finding; its replay runs them)."
)
ASSUMPTIONS = [
    "a crash is a process kill between Python-visible effects; torn writes inside one write(2), power loss and fsync ordering are not modelled",
    "the dry run and the crash runs are the same deterministic execution (virtual time, seeded RNG, inline DB/executor), so effect k is the same effect",
    "snapshots S_i are read back by starting a server on a copy of the directory after acknowledged command i (relies on orderly-restart transparency, C12); a change that no restart ever shows is therefore invisible to the snapshot comparison - for flags the told-flags oracle covers it, for messages the uid/tag reveals taken from acknowledged responses do",
]
OPEN = open_ids(ID)
NAMES = ["inbox", "mb", "mb/sub", "new1"]
FLAGS = ["\\Seen", "\\Flagged", "\\Deleted", "kw1", "\\Answered"]


# ------------------------------------------------------------- strategies
def build_trace(rnd, tier, special: bool):
    """A history drawn from a PRNG (Hypothesis supplies the PRNG seed: its first example is always the
    minimal one, which would make every shard run the same history at one example per shard)."""
    if special:
        kind = rnd.choice(["startup", "migration", "migration"])
        t = {"kind": kind, "rseed": rnd.randrange(2**16), "steps": [], "stride": 3 if tier == "quick" else 1, "offset": rnd.randrange(3)}
        if kind == "migration":
            t["version"] = rnd.randrange(0, 7)
        return t

    def sset():
        return [rnd.randrange(8) for _ in range(rnd.randint(1, 3))]

    def step():
        op = rnd.choice(["append", "append", "store", "store", "expunge", "expunge", "copy", "copy", "create", "delete", "rename", "rename", "subscribe", "advance", "fetch", "fetch"])
        if op == "fetch":
            # a body fetch without PEEK: its implicit \\Seen is a flag change the client was told about
            # (seeded/C11-5: that change left uncommitted until some later command commits the mailbox)
            return {"op": op, "box": rnd.randrange(3), "set": sset(), "what": rnd.randrange(4)}
        if op == "append":
            return {"op": op, "box": rnd.randrange(3), "flags": [rnd.randrange(5) for _ in range(rnd.randint(0, 2))]}
        if op == "store":
            return {"op": op, "box": rnd.randrange(3), "set": sset(), "flags": [rnd.randrange(5) for _ in range(rnd.randint(1, 2))], "act": rnd.randrange(3)}
        if op == "expunge":
            return {"op": op, "box": rnd.randrange(3), "set": sset(), "uid": rnd.random() < 0.5}
        if op == "copy":
            return {"op": op, "box": rnd.randrange(3), "set": sset(), "dst": rnd.randrange(3), "move": rnd.random() < 0.5}
        if op == "rename":
            return {"op": op, "name": rnd.randrange(4), "dst": rnd.randrange(1, 4)}
        if op in ("create", "subscribe"):
            return {"op": op, "name": rnd.randrange(4)}
        if op == "delete":
            return {"op": op, "name": rnd.randrange(1, 4)}
        return {"op": "advance"}

    n = rnd.randint(3, 6 if tier == "quick" else 8)
    steps = [step() for _ in range(n)]
    if rnd.random() < 0.4:
        # a flag set, cleared and set again on the same messages: in between its sequence is empty and its
        # database row deleted (seeded/C11-3: a write-skipping cache that forgets the row is gone)
        b, ss, f = rnd.randrange(3), sset(), rnd.choice([1, 3, 4, 0])
        tog = [{"op": "store", "box": b, "set": ss, "flags": [f], "act": a} for a in (0, 1, 0)]
        at = rnd.randrange(0, max(1, len(steps) - 1))
        steps[at:at] = tog
        steps = steps[: (8 if tier == "quick" else 11)]
    return {"kind": "history", "rseed": rnd.randrange(2**16), "prefill": rnd.randint(2, 4), "pack_limit": rnd.choice([3, 100]), "steps": steps}


def strategy(tier, shard, nshards):
    import random

    vseed = int(os.environ.get("VERIF_SEED", "1") or 1)
    special = shard % 8 == 7
    return st.integers(0, 2**31 - 1).map(lambda n: build_trace(random.Random(n * 1000003 + shard * 7919 + vseed * 104729), tier, special))


def budget(tier):
    if tier == "quick":
        return {"examples": 1, "shards": 16, "guard_s": 1500, "case_guard_s": 900}
    return {"examples": 40, "shards": 16, "guard_s": 9000, "case_guard_s": 1800}


# ------------------------------------------------------ the history itself
def _install_counter(state):
    """sys.monitoring CALL hook + DB hook; state = {'n': 0, 'crash_at': k or None, 'on': bool, 'marks': []}"""
    import builtins
    import io

    mon = sys.monitoring
    tool = 4
    targets = set()  # file-system primitives are counted by the audit hook below (it also sees calls made through functools.partial / an executor)
    audit_mut = {"os.rename", "os.remove", "os.link", "os.mkdir", "os.rmdir", "os.truncate", "os.utime", "os.chmod", "os.symlink"}
    method_names = {"write", "flush", "close", "truncate", "writelines"}

    show = bool(os.environ.get("C11_EFFECTS"))

    def effect(desc=""):
        if not state["on"]:
            return
        state["n"] += 1
        if show:
            os.write(2, f"effect {state['n']}: {desc}\n".encode())
        if state["crash_at"] is None:
            # dry run: remember which effects belong to a pack of a folder (known finding pack-not-crash-safe)
            f = sys._getframe(1)
            depth = 0
            while f is not None and depth < 60:
                if f.f_code.co_name == "_pack_if_necessary":
                    f2 = sys._getframe(1)
                    inner = False
                    for _ in range(8):
                        if f2 is None:
                            break
                        if f2.f_code.co_name == "pack" and f2.f_code.co_filename.endswith("mailbox.py"):
                            inner = True
                            break
                        f2 = f2.f_back
                    state.setdefault("pack", []).append((state["n"], inner, f.f_lineno))
                    break
                f = f.f_back
                depth += 1
        if state["crash_at"] is not None and state["n"] == state["crash_at"]:
            os._exit(77)

    def on_call(code, off, callee, arg0):
        try:
            hit = callee in targets
        except TypeError:
            hit = False
        f = None
        if not hit:
            nm = getattr(callee, "__name__", "")
            if nm in method_names:
                # bound builtin method (callee.__self__) or, for `f.write(..)` call sites, the
                # unbound method descriptor with the file object as first argument
                f = getattr(callee, "__self__", None)
                if not isinstance(f, io.IOBase):
                    f = arg0 if isinstance(arg0, io.IOBase) else None
                if f is None:
                    return
                if nm in ("write", "writelines") and not isinstance(f, io.RawIOBase):
                    return  # buffered: nothing reaches the file before flush()/close()
                try:
                    if f.closed or f.fileno() in (0, 1, 2, state.get("logfd", -1)):
                        return
                    if not (f.writable() if hasattr(f, "writable") else True):
                        return
                    name = getattr(f, "name", None)
                    if isinstance(name, (str, bytes)) and not os.fsdecode(name).startswith(state.get("root", "/")):
                        return
                except Exception:
                    return
                hit = True
        if hit:
            if show:
                nm = getattr(callee, "__name__", "?")
                tgt = getattr(f, "name", None) if f is not None else arg0
                effect(f"{nm} {tgt!r}")
            else:
                effect()

    wr = os.O_WRONLY | os.O_RDWR | os.O_CREAT | os.O_TRUNC | os.O_APPEND

    def audit(event, args):
        # opening a file for writing creates / truncates it: a durable effect of its own
        if event == "open" and state["on"]:
            path, mode, flags = args
            if isinstance(flags, int) and flags & wr and isinstance(path, (str, bytes)):
                ps = os.fsdecode(path)
                if ps.startswith(state.get("root", "/")) and not ps.endswith(("asimap.db", "-journal", "-wal")):
                    effect(f"open {ps!r} flags={flags:#o}")

    def audit2(event, args):
        if event in audit_mut and state["on"]:
            path = args[0] if args else None
            if isinstance(path, (str, bytes)):
                ps = os.fsdecode(path)
                if os.path.isabs(ps) and not ps.startswith(state.get("root", "/")):
                    return
            effect(f"{event} {path!r}")

    sys.addaudithook(audit)
    sys.addaudithook(audit2)
    mon.use_tool_id(tool, "c11-crash")
    mon.register_callback(tool, mon.events.CALL, on_call)
    mon.set_events(tool, mon.events.CALL)
    state["effect"] = effect


def _make_old_db(root: str, version: int):
    """A database left at schema version `version` (migrations 0..version-1 applied), with a row or two."""
    import asyncio

    import aiosqlite

    from asimap import db as adb

    async def go():
        c = await aiosqlite.connect(os.path.join(root, "asimap.db"))
        for idx, mig in enumerate(adb.MIGRATIONS[:version]):
            await mig(c)
            await c.execute("insert into versions (version) values (?)", (str(idx),))
            await c.commit()
        if version >= 1:
            await c.execute("insert into user_server (uid_vv) values (3)")
            await c.execute("insert into mailboxes (name, uid_vv, attributes, mtime, next_uid, num_msgs, num_recent) values ('inbox', 1, '\\\\Unmarked,\\\\HasNoChildren', 0, 3, 2, 0)")
            await c.commit()
        await c.close()

    return go()


def run_history(trace, root_dir: str, crash_at, logfd: int, snap_dir=None):
    """Executed inside a forked child.  Returns the number of effects (dry run)."""
    from ..driver import World, tagged_message

    state = {"n": 0, "crash_at": crash_at, "on": False, "logfd": logfd, "marks": [], "root": root_dir}
    # the server's own temporary directories (Mailbox.copy) are leaked when the process is killed: keep them next
    # to the case directory (outside `root_dir`, so they are not counted as effects), where they are removed
    import tempfile

    tdir = os.path.join(os.path.dirname(root_dir.rstrip("/")), "tmp-" + os.path.basename(root_dir.rstrip("/")))
    os.makedirs(tdir, exist_ok=True)
    tempfile.tempdir = tdir
    _install_counter(state)
    w = World(rseed=trace.get("rseed", 0), pack_limit=trace.get("pack_limit"), root_dir=root_dir)
    w.loop.effect_hook = lambda kind, fn: state["effect"](f"{kind} {getattr(fn, '__name__', fn)!r}"[:160])
    kind = trace.get("kind", "history")
    ncmd = [0]

    def log(obj):
        os.write(logfd, (json.dumps(obj) + "\n").encode())

    def snapshot(i):
        if snap_dir is None:
            return
        on = state["on"]
        state["on"] = False
        dst = os.path.join(snap_dir, f"s{i}")
        shutil.copytree(os.path.join(root_dir, "mail"), os.path.join(dst, "mail"), symlinks=True)
        state["on"] = on

    async def cmd(s, line: bytes, mutating=True):
        first = state["n"]
        r = await s.cmd(line)
        ncmd[0] += 1
        log({"ack": ncmd[0], "line": line[:80].decode("latin-1"), "status": r.status, "raw": r.raw.decode("latin-1"), "effects": [first + 1, state["n"]], "mutating": mutating})
        state["marks"].append((first + 1, state["n"], mutating))
        snapshot(ncmd[0])
        return r

    async def main():
        from asimap.mh import MH

        if kind == "migration":
            os.makedirs(os.path.join(root_dir, "mail", "inbox"), exist_ok=True)
            await _make_old_db(os.path.join(root_dir, "mail"), trace.get("version", 0))
            if trace.get("version", 0) == 0:
                try:
                    os.remove(os.path.join(root_dir, "mail", "asimap.db"))
                except OSError:
                    pass
        if kind in ("startup", "migration"):
            state["on"] = True
            log({"phase": "startup-begins"})
            await w.boot()
            state["on"] = False
            log({"ack": 1, "line": "<startup>", "status": "OK", "raw": "", "effects": [1, state["n"]], "mutating": True})
            state["marks"].append((1, state["n"], True))
            ncmd[0] = 1
            snapshot(1)
            return
        # ---- set-up (not crash-tested, not counted) ----------------------------------
        await w.boot()
        s = w.session("a")
        for n in ("mb", "mb/sub"):
            await s.cmd(b"CREATE " + n.encode())
        ntag = 0
        for i in range(trace.get("prefill", 3)):
            for b in ("inbox", "mb"):
                ntag += 1
                m = tagged_message(f"p{ntag}")
                await s.cmd(b"APPEND " + b.encode() + (b" (\\Seen)" if i % 2 else b"") + b" {%d}\r\n%s" % (len(m), m))
        for b in ("inbox", "mb"):
            r = await s.cmd(b"SELECT " + b.encode())
            log({"reveal": b, "raw": r.raw.decode("latin-1")})
            r = await s.cmd(b"FETCH 1:* (UID BODY.PEEK[HEADER.FIELDS (X-VF-Tag)])")
            log({"reveal": b, "raw": r.raw.decode("latin-1")})
        await s.cmd(b"UNSELECT")
        snapshot(0)
        state["on"] = True
        # ---- the history ----------------------------------------------------------------
        for st_ in trace["steps"]:
            op = st_["op"]
            if op == "advance":
                await w.settle(25)
                continue
            if op == "append":
                ntag += 1
                b = NAMES[st_["box"] % 3]
                m = tagged_message(f"h{ntag}")
                fl = " ".join(FLAGS[i % len(FLAGS)] for i in st_["flags"])
                await cmd(s, b"APPEND " + b.encode() + (b" (" + fl.encode() + b")" if fl else b"") + b" {%d}\r\n%s" % (len(m), m))
                continue
            if op in ("create", "delete", "rename", "subscribe"):
                nm = NAMES[st_["name"] % len(NAMES)]
                if op == "rename":
                    await cmd(s, b"RENAME " + nm.encode() + b" " + NAMES[st_["dst"] % len(NAMES)].encode())
                else:
                    await cmd(s, op.upper().encode() + b" " + nm.encode())
                continue
            b = NAMES[st_["box"] % 3]
            r = await cmd(s, b"SELECT " + b.encode(), mutating=False)
            log({"reveal": b, "raw": r.raw.decode("latin-1")})
            if not r.ok:
                continue
            n = max((x.num for x in r.resps if x.kind == "untagged" and x.name == "EXISTS"), default=0)
            if n:
                seqs = sorted({1 + v % n for v in st_["set"]})
                text = ",".join(map(str, seqs)).encode()
                if op == "store":
                    fl = " ".join(FLAGS[i % len(FLAGS)] for i in st_["flags"])
                    act = [b"+FLAGS", b"-FLAGS", b"FLAGS"][st_["act"] % 3]
                    await cmd(s, b"STORE " + text + b" " + act + b" (" + fl.encode() + b")")
                elif op == "expunge":
                    await cmd(s, b"STORE " + text + b" +FLAGS.SILENT (\\Deleted)")
                    if st_.get("uid"):
                        r2 = await cmd(s, b"FETCH " + text + b" (UID)", mutating=False)
                        uids = ",".join(str(it["UID"]) for _, it in r2.fetches() if "UID" in it)
                        if uids:
                            await cmd(s, b"UID EXPUNGE " + uids.encode())
                    else:
                        await cmd(s, b"EXPUNGE")
                elif op == "fetch":
                    what = [b"(BODY[TEXT])", b"(RFC822)", b"(FLAGS BODY[]<0.10>)", b"(UID RFC822.TEXT)"][st_.get("what", 0) % 4]
                    await cmd(s, b"FETCH " + text + b" " + what)
                elif op == "copy":
                    dst = NAMES[st_["dst"] % 3]
                    await cmd(s, (b"MOVE " if st_["move"] else b"COPY ") + text + b" " + dst.encode())
                r3 = await cmd(s, b"FETCH 1:* (UID BODY.PEEK[HEADER.FIELDS (X-VF-Tag)])", mutating=False)
                log({"reveal": b, "raw": r3.raw.decode("latin-1")})
            await cmd(s, b"UNSELECT", mutating=False)
        state["on"] = False

    try:
        w.run(main(), budget=3_000_000)
    finally:
        state["on"] = False
    log({"done": True, "effects": state["n"], "marks": state["marks"], "pack": state.get("pack", [])})
    return state["n"]


def read_state(root_dir: str, rseed: int):
    """Executed inside a forked child: start the server on the directory and read everything back."""
    from ..driver import Hang, World, observe_mailbox, quote

    out = {"boot": "ok", "boxes": {}, "list": None}
    w = World(rseed=rseed, root_dir=root_dir)

    async def main():
        try:
            await w.boot(first=False)
        except BaseException as e:  # noqa
            out["boot"] = f"{type(e).__name__}: {e}"
            return
        nsess = [0]
        o = w.session("o")
        r = await o.cmd(b'LIST "" "*"')
        if not r.ok:
            out["list"] = f"LIST answered {r.status}"
            return
        names = {}
        for x in r.untagged("LIST"):
            try:
                attrs, delim, nm, ext = wire.list_item(x)
                names[nm.decode("latin-1")] = sorted(attrs)
            except wire.Malformed:
                pass
        out["list"] = names
        for nm, attrs in names.items():
            if "\\Noselect" in attrs:
                continue
            key = "inbox" if nm.upper() == "INBOX" else nm
            rs = await o.cmd(b"STATUS " + quote(nm) + b" (MESSAGES UIDNEXT UIDVALIDITY)")
            if rs.hang or rs.watchdog:
                out["boxes"][key] = {"error": "STATUS answered only by the watchdog"}
                continue
            info = await observe_mailbox(o, quote(nm))
            if not o.alive:
                nsess[0] += 1
                o = w.session(f"o{nsess[0]}")
            if info is None:
                out["boxes"][key] = {"error": "cannot be selected"}
                continue
            if info.get("fetch_status") not in (None, "OK"):
                out["boxes"][key] = {"error": f"cannot be read: FETCH 1:* answered {info.get('fetch_status')} (EXISTS {info['exists']}, {len(info['msgs'])} message(s) returned)"}
                continue
            if (info["exists"] or 0) != len(info["msgs"]):
                out["boxes"][key] = {"error": f"cannot be read: EXISTS {info['exists']} but FETCH 1:* returned {len(info['msgs'])} message(s)"}
                continue
            if info.get("select") is not None and (info["select"].hang or info["select"].watchdog):
                out["boxes"][key] = {"error": "SELECT answered only by the watchdog"}
                continue
            out["boxes"][key] = {
                "uv": info["uidvalidity"], "uidnext": info["uidnext"],
                "msgs": [[x["uid"], x["tag"], sorted(f for f in x["flags"] if f.lower() != "\\recent")] for x in info["msgs"]],
                "qname": nm,
            }
        # ... and once more after an orderly restart: what the recovery has told a client must stay true when the
        # mailboxes are loaded from the database again (seeded/C11-4: keys and uids that only mis-pair on the
        # second load)
        try:
            await w.restart()
        except BaseException as e:  # noqa
            out["second_boot"] = f"{type(e).__name__}: {e}"
            return
        o = w.session("o-second")
        for key, bx in out["boxes"].items():
            if "error" in bx:
                continue
            info = await observe_mailbox(o, quote(bx["qname"]))
            if not o.alive:
                nsess[0] += 1
                o = w.session(f"o2-{nsess[0]}")
            if info is None or info.get("fetch_status") not in (None, "OK"):
                bx["second"] = "cannot be read after a second (orderly) restart"
                continue
            bx["second"] = {"uv": info["uidvalidity"], "msgs": [[x["uid"], x["tag"]] for x in info["msgs"]]}

    try:
        w.run(main(), budget=3_000_000)
    except Hang as e:
        out["boot"] = f"Hang: {e}"
    except BaseException as e:  # noqa
        out["boot"] = f"{type(e).__name__}: {e}"
    finally:
        try:
            w.close()
        except BaseException:  # noqa
            pass
    return out


# --------------------------------------------------------------- forking
def fork_run(fn, timeout=120):
    """Run fn() in a forked child; returns (exit code, JSON result or None)."""
    r, wfd = os.pipe()
    pid = os.fork()
    if pid == 0:
        code = 0
        try:
            os.close(r)
            res = fn()
            os.write(wfd, json.dumps(res, default=str).encode())
        except BaseException as e:  # noqa
            try:
                os.write(wfd, json.dumps({"__error__": f"{type(e).__name__}: {e}"}).encode())
            except Exception:
                pass
            code = 3
        finally:
            os._exit(code)
    os.close(wfd)
    import select
    import signal
    import time

    chunks = []
    deadline = time.time() + timeout
    while True:
        left = deadline - time.time()
        if left <= 0:
            os.kill(pid, signal.SIGKILL)
            os.waitpid(pid, 0)
            os.close(r)
            return -9, None
        rd, _, _ = select.select([r], [], [], min(left, 1.0))
        if rd:
            b = os.read(r, 1 << 16)
            if not b:
                break
            chunks.append(b)
    os.close(r)
    _, st_ = os.waitpid(pid, 0)
    code = os.waitstatus_to_exitcode(st_)
    data = b"".join(chunks)
    try:
        return code, json.loads(data) if data else None
    except Exception:
        return code, None


def parse_log(path):
    acks, reveals, done = [], [], None
    try:
        for line in open(path, "rb").read().split(b"\n"):
            if not line.strip():
                continue
            try:
                j = json.loads(line)
            except Exception:
                continue  # a torn last line
            if "ack" in j:
                acks.append(j)
            elif "reveal" in j:
                reveals.append(j)
            elif "done" in j:
                done = j
    except OSError:
        pass
    return acks, reveals, done


def revealed_uids(acks, reveals, upto_ack):
    """(box, uv, uid) -> tag revealed to the client by responses that were completely written."""
    out = {}
    uv_of = {}
    items = [(0, r) for r in reveals]
    for a in acks:
        if a["ack"] <= upto_ack:
            items.append((a["ack"], {"reveal": None, "raw": a["raw"], "line": a["line"]}))
    cur = None
    for _, it in sorted(items, key=lambda t: t[0]):
        raw = it["raw"].encode("latin-1")
        if it.get("reveal"):
            cur = it["reveal"]
        m = re.search(rb"\[UIDVALIDITY (\d+)\]", raw)
        if m and cur:
            uv_of[cur] = int(m.group(1))
        line = it.get("line") or ""
        ms = re.match(r"(SELECT|EXAMINE) (\S+)", line)
        if ms:
            cur = ms.group(2)
            if m:
                uv_of[cur] = int(m.group(1))
        if cur is None or cur not in uv_of:
            continue
        try:
            resps, _, _ = wire.parse_stream(raw, strict=False)
        except Exception:
            continue
        for x in resps:
            if x.kind == "untagged" and x.name == "FETCH":
                try:
                    items_ = wire.fetch_items(x)
                except wire.Malformed:
                    continue
                h = items_.get("BODY[HEADER.FIELDS (X-VF-TAG)]")
                if "UID" in items_ and h is not None:
                    mt = re.search(rb"X-VF-Tag:\s*(\S+)", bytes(h), re.I)
                    if mt:
                        out[(cur, uv_of[cur], int(items_["UID"]))] = mt.group(1).decode()
    return out


def between(prev, nxt, got, what, inflight=""):
    """Every mailbox of the recovered state must lie between snapshot prev (all acknowledged) and nxt
    (the in-flight command completed too).  Returns a list of (clause, detail)."""
    out = []
    names = set(prev["boxes"]) | set(nxt["boxes"]) | set(got["boxes"])
    for b in sorted(names):
        p, n, g = prev["boxes"].get(b), nxt["boxes"].get(b), got["boxes"].get(b)
        if g is not None and "error" in g:
            continue  # reported by the caller
        if g is None:
            if p is not None and n is not None and "error" not in p and "error" not in n:
                out.append(("C11.lost.mailbox", f"{what}: mailbox {b!r} existed before and after the in-flight command but is gone"))
            continue
        if (p is None or "error" in p) and (n is None or "error" in n):
            continue  # a mailbox only the in-flight command is about
        # rename/delete/create in flight: the whole mailbox may be in either state
        if p is None or n is None or "error" in (p or {}) or "error" in (n or {}):
            continue
        if p.get("uv") != n.get("uv"):
            continue
        # The property speaks of messages (content), not of their UIDs: a recovery that gives
        # surviving messages fresh UIDs is allowed as long as no revealed UID names another
        # message (checked separately).  Messages are compared by tag, as multisets.
        from collections import Counter

        # A message without its X-VF-Tag header is a torn file: the message of an in-flight
        # APPEND/COPY/MOVE (or of a delivery the harness itself was making) whose bytes never reached
        # the disk.  It is "partial", which the property allows, so it takes no part in the comparison.
        pc = Counter(m[1] for m in p["msgs"] if m[1] is not None)
        nc = Counter(m[1] for m in n["msgs"] if m[1] is not None)
        gc = Counter(m[1] for m in g["msgs"] if m[1] is not None)
        for tag in sorted(set(pc) | set(nc) | set(gc), key=str):
            lo, hi = min(pc[tag], nc[tag]), max(pc[tag], nc[tag])
            if re.match(r"(UID )?(COPY|MOVE) ", inflight):
                hi += 1  # partial COPY/MOVE: the copy may exist while the original is still there
            if gc[tag] < lo:
                out.append(("C11.lost.message", f"{what}: {b!r} holds {gc[tag]} cop{'y' if gc[tag] == 1 else 'ies'} of message {tag}; {lo} acknowledged and not removed by the in-flight command"))
            elif gc[tag] > hi and hi == 0:
                # (an extra copy of a message that is still there - e.g. a kill between the link and
                #  the unlink of a rename - is not something the property speaks about)
                out.append(("C11.phantom.message", f"{what}: {b!r} holds {gc[tag]} cop{'y' if gc[tag] == 1 else 'ies'} of message {tag}, which was expunged (or never there) in the acknowledged state and is not added by the in-flight command"))
            elif pc[tag] == 1 and nc[tag] == 1 and gc[tag] == 1:
                pf = next(tuple(m[2]) for m in p["msgs"] if m[1] == tag)
                nf = next(tuple(m[2]) for m in n["msgs"] if m[1] == tag)
                gf = next(tuple(m[2]) for m in g["msgs"] if m[1] == tag)
                if gf not in (pf, nf):
                    out.append(("C11.flags", f"{what}: {b!r} message {tag} has flags {list(gf)}, the acknowledged state says {list(pf)}" + (f" (or {list(nf)} if the in-flight command completed)" if pf != nf else "")))
        gu = [m[0] for m in g["msgs"]]
        if any(b2 <= a2 for a2, b2 in zip(gu, gu[1:])):
            out.append(("C11.uid.order", f"{what}: uids of {b!r} are not ascending: {gu}"))
    return out


def told_flags(acks):
    """What the server itself told the client about flags, taken from the untagged FETCH responses of a
    (non-SILENT) STORE or a body FETCH without PEEK: -> [(ack number, mailbox, {tag: flags told}, command line)].
    This oracle does not come from reading a recovered copy (the snapshots do), so a flag change that is
    acknowledged but never reaches the database is seen in the snapshot taken right after the acknowledgement
    (seeded/C11-5).  Sequence numbers are mapped to messages by the read-only FETCH 1:* the history sends as the
    next command of the same step."""
    out = []
    cur = None
    for idx, a in enumerate(acks):
        line = a["line"]
        ms = re.match(r"SELECT (\S+)", line)
        if ms:
            cur = ms.group(1) if a["status"] == "OK" else None
            continue
        if line.startswith("UNSELECT"):
            cur = None
            continue
        if cur is None or a["status"] != "OK" or not a.get("mutating") or ".SILENT" in line:
            continue
        if not (line.startswith("STORE ") or line.startswith("FETCH ")):
            continue
        if idx + 1 >= len(acks) or not acks[idx + 1]["line"].startswith("FETCH 1:* (UID BODY.PEEK[HEADER.FIELDS") or acks[idx + 1]["status"] != "OK":
            continue
        try:
            r1, _, _ = wire.parse_stream(a["raw"].encode("latin-1"), strict=False)
            r2, _, _ = wire.parse_stream(acks[idx + 1]["raw"].encode("latin-1"), strict=False)
        except Exception:
            continue
        tag_of = {}
        for x in r2:
            if x.kind == "untagged" and x.name == "FETCH":
                try:
                    it = wire.fetch_items(x)
                except wire.Malformed:
                    continue
                h = it.get("BODY[HEADER.FIELDS (X-VF-TAG)]")
                mt = re.search(rb"X-VF-Tag:\s*(\S+)", bytes(h), re.I) if h is not None else None
                if mt:
                    tag_of[x.num] = mt.group(1).decode()
        told = {}
        for x in r1:
            if x.kind == "untagged" and x.name == "FETCH":
                try:
                    it = wire.fetch_items(x)
                except wire.Malformed:
                    continue
                if "FLAGS" in it and x.num in tag_of:
                    fl = [f.decode("latin-1") if isinstance(f, (bytes, bytearray)) else str(f) for f in it["FLAGS"]]
                    told[tag_of[x.num]] = sorted(f for f in fl if f.lower() != "\\recent")
        if told:
            out.append((a["ack"], "inbox" if cur.upper() == "INBOX" else cur, told, line))
    return out


def told_messages(acks):
    """The messages the server listed for the selected mailbox in the read-only `FETCH 1:* (UID <tag header>)` that
    ends every step: -> [(ack number, mailbox, [tags])].  Like told_flags() this comes from responses, not from a
    recovered copy: an acknowledged APPEND/COPY whose message, or an acknowledged EXPUNGE whose removal, never
    reaches the disk is missing from every snapshot alike, but not from what the client was told."""
    out = []
    cur = None
    for a in acks:
        line = a["line"]
        ms = re.match(r"SELECT (\S+)", line)
        if ms:
            cur = ms.group(1) if a["status"] == "OK" else None
            continue
        if line.startswith("UNSELECT"):
            cur = None
            continue
        if cur is None or a["status"] != "OK" or not line.startswith("FETCH 1:* (UID BODY.PEEK[HEADER.FIELDS"):
            continue
        try:
            rs, _, _ = wire.parse_stream(a["raw"].encode("latin-1"), strict=False)
        except Exception:
            continue
        tags = []
        okay = True
        for x in rs:
            if x.kind == "untagged" and x.name == "FETCH":
                try:
                    it = wire.fetch_items(x)
                except wire.Malformed:
                    okay = False
                    break
                h = it.get("BODY[HEADER.FIELDS (X-VF-TAG)]")
                if h is None:
                    continue
                mt = re.search(rb"X-VF-Tag:\s*(\S+)", bytes(h), re.I)
                if mt is None:
                    okay = False
                    break
                tags.append(mt.group(1).decode())
        if okay:
            out.append((a["ack"], "inbox" if cur.upper() == "INBOX" else cur, tags, line))
    return out


PACK_FINDING = "pack-not-crash-safe"


def pack_windows(pack):
    """Crash points at which a pack of a folder is half done: after the first link/rename of
    mailbox.MH.pack() up to and including the final commit of Mailbox._pack_if_necessary()."""
    lines = [ln for _, inner, ln in pack if inner]
    if not lines:
        return []
    lpack = lines[0]
    wins, cur = [], None
    for n, inner, ln in sorted(pack):
        if inner:
            if cur is None or cur[2]:
                cur = [n, n, False]
                wins.append(cur)
            else:
                cur[1] = n
        elif ln > lpack and cur is not None:
            cur[1] = n
            cur[2] = True
    return [(a, b) for a, b, _ in wins]


def finding_matches(finding, vj):
    """pack-not-crash-safe matches only violations whose crash point lies inside a pack window."""
    if finding.get("trigger") == "crash-inside-pack":
        return (vj.get("sig") or "").startswith("pack-window:") and vj.get("clause") in ([finding.get("clause")] + list(finding.get("clauses", [])))
    return vj.get("clause") == finding.get("clause")


def execute(trace) -> CaseResult:
    res = CaseResult()
    viol = []
    base = tempfile.mkdtemp(dir=str(scratch_root()), prefix="c11-")
    kind = trace.get("kind", "history")

    def v(clause, detail, k, sig=""):
        t = dict(trace)
        t["only_k"] = k
        if len([x for x in viol if x.clause == clause]) < 3:
            viol.append(Violation(ID, clause, detail, t, sig))

    try:
        # ---- dry run with snapshots -----------------------------------------------------
        dry = os.path.join(base, "dry")
        snaps = os.path.join(base, "snaps")
        os.makedirs(dry)
        os.makedirs(snaps)
        logp = os.path.join(base, "dry.log")

        def do_dry():
            fd = os.open(logp, os.O_WRONLY | os.O_CREAT | os.O_APPEND)
            return run_history(trace, dry, None, fd, snap_dir=snaps)

        code, K = fork_run(do_dry, timeout=300)
        if code != 0 or not isinstance(K, int):
            res.blocked = "harness"
            res.labels.append(f"dry-run-failed:{code}:{str(K)[:80]}")
            return res
        acks, reveals, done = parse_log(logp)
        marks = done["marks"] if done else []
        nacks = len(acks)
        # read back every snapshot
        S = {}
        for i in range(0, nacks + 1):
            d = os.path.join(snaps, f"s{i}")
            if not os.path.isdir(d):
                continue
            c2, stt = fork_run(lambda d=d: read_state(d, trace.get("rseed", 0)), timeout=120)
            if stt is None or stt.get("boot") != "ok":
                res.blocked = "harness"
                res.labels.append(f"snapshot-unreadable:{i}:{str(stt)[:100]}")
                return res
            S[i] = stt
        if kind != "history":
            S.setdefault(0, {"boot": "ok", "boxes": {}, "list": {}})
        # what the client was told about flags must be what a server started on the directory as it was right
        # after that acknowledgement shows
        ntold = 0
        for i, b, told, line in (told_flags(acks) if kind == "history" else []):
            g = (S.get(i) or {}).get("boxes", {}).get(b)
            if not g or "error" in g:
                continue
            have = {m[1]: sorted(m[2]) for m in g["msgs"]}
            for tag, fl in sorted(told.items()):
                ntold += 1
                if tag in have and have[tag] != fl:
                    kk = max(1, min(K, acks[i - 1]["effects"][1] + 1)) if 0 < i <= len(acks) else 1
                    v("C11.flags.told", f"crash right after {line[:50]!r} was acknowledged (command {i}): {b!r} message {tag} has flags {have[tag]} after the restart, "
                      f"the server had told the client {fl}", kk, line.split(" ")[0] + "-told")
        if ntold:
            res.labels.append("told-flags-checked")
        from collections import Counter

        nlists = 0
        for i, b, tags, line in (told_messages(acks) if kind == "history" else []):
            g = (S.get(i) or {}).get("boxes", {}).get(b)
            if not g or "error" in g:
                continue
            nlists += 1
            have = Counter(m[1] for m in g["msgs"] if m[1] is not None)
            want = Counter(tags)
            if have != want:
                kk = max(1, min(K, acks[i - 1]["effects"][1] + 1)) if 0 < i <= len(acks) else 1
                miss, extra = sorted((want - have).elements()), sorted((have - want).elements())
                v("C11.told.messages", f"crash right after command {i} (the listing of {b!r}) was acknowledged: the server had listed messages {sorted(tags)}; after the restart "
                  + (f"{miss} are missing" if miss else "") + (" and " if miss and extra else "") + (f"{extra} are there although they had been removed" if extra else ""), kk, "listing-told")
        if nlists:
            res.labels.append("told-messages-checked")
        windows = pack_windows((done or {}).get("pack", []))
        ks = list(range(1, K + 1))
        if trace.get("stride", 1) > 1:
            ks = [k for k in ks if k % trace["stride"] == trace.get("offset", 0) % trace["stride"]]
            res.labels.append(f"stride:{trace['stride']}")
        in_window = lambda k: any(a < k <= b for a, b in windows)  # noqa: E731
        if trace.get("only_k"):
            ks = [trace["only_k"]]
        elif trace.get("pack_window_only"):
            ks = [k for k in ks if in_window(k)]
        elif PACK_FINDING in open_ids(ID):
            # open known finding: a kill inside the pack of a folder; those crash points are not
            # enumerated (the replay replays/C11/open-pack-not-crash-safe.json shows one of them)
            n0 = len(ks)
            ks = [k for k in ks if not in_window(k)]
            if len(ks) < n0:
                res.excluded.append(PACK_FINDING)
                res.labels.append("pack-window-points-skipped")
        res.labels.append(kind)
        npoints = 0
        # ---- every crash point ----------------------------------------------------------
        for k in ks:
            cdir = os.path.join(base, f"k{k}")
            os.makedirs(cdir)
            clog = os.path.join(base, f"k{k}.log")

            def do_crash(cdir=cdir, clog=clog, k=k):
                fd = os.open(clog, os.O_WRONLY | os.O_CREAT | os.O_APPEND)
                return run_history(trace, cdir, k, fd)

            code, _ = fork_run(do_crash, timeout=300)
            npoints += 1
            if code not in (77, 0):
                res.labels.append(f"crash-child-exit:{code}")
                rmtree(cdir)
                continue
            cacks, creveals, cdone = parse_log(clog)
            j = len(cacks)  # commands acknowledged before the crash
            inside = any(a < k <= b and mut and (k > a) for a, b, mut in marks if b > a)
            if kind != "history" or any(a < k <= b and mut for a, b, mut in marks if (b - a) >= 1):
                res.nontrivial = True
            what = f"crash before effect {k} of {K} ({j} command(s) acknowledged" + (f", in-flight: {acks[j]['line'][:50]!r}" if j < nacks else "") + ")"
            c3, got = fork_run(lambda cdir=cdir: read_state(cdir, trace.get("rseed", 0)), timeout=200)
            rmtree(cdir)
            rmtree(os.path.join(base, f"tmp-k{k}"))
            sig = (acks[j]["line"].split(" ")[0] if j < nacks else "after-last") if kind == "history" else kind
            if in_window(k):
                sig = "pack-window:" + sig
            if got is None:
                v("C11.recover.hang", f"{what}: the server did not come up / answer within the guard (exit {c3})", k, sig)
                continue
            if got.get("boot") != "ok":
                v("C11.recover.start-fails", f"{what}: starting the server again fails: {got['boot'][:300]}", k, sig)
                continue
            if not isinstance(got.get("list"), dict):
                v("C11.recover.list", f"{what}: {got.get('list')}", k, sig)
                continue
            if got.get("second_boot"):
                v("C11.recover.start-fails", f"{what}: the recovered server stops and starts once more and then fails: {got['second_boot'][:300]}", k, sig)
            for b, g in got["boxes"].items():
                if "error" in g:
                    v("C11.recover.unselectable", f"{what}: mailbox {b!r}: {g['error']}", k, sig)
                    continue
                sec = g.get("second")
                if isinstance(sec, str):
                    v("C11.recover.unselectable", f"{what}: mailbox {b!r}: {sec}", k, sig)
                elif isinstance(sec, dict) and sec.get("uv") == g.get("uv"):
                    first = {m[0]: m[1] for m in g["msgs"]}
                    second = {m[0]: m[1] for m in sec["msgs"]}
                    for uid, tag in first.items():
                        if uid in second and second[uid] != tag and tag is not None and second[uid] is not None:
                            v("C11.uid.rebound", f"{what}: after the restart ({b}, UIDVALIDITY {g.get('uv')}, UID {uid}) was shown as {tag}; after one more (orderly) restart it names {second[uid]}", k, sig)
                            break
            if kind != "history":
                continue
            prev, nxt = S.get(j), S.get(min(j + 1, nacks))
            if prev is None or nxt is None:
                continue
            for clause, detail in between(prev, nxt, got, what, acks[j]["line"] if j < nacks else ""):
                v(clause, detail, k, sig)
            # revealed (box, uv, uid) must still name the same message; UIDNEXT above revealed uids
            rev = revealed_uids(cacks, creveals, j)
            for (b, uv, uid), tag in rev.items():
                g = got["boxes"].get(b)
                if not g or "error" in g or g.get("uv") != uv:
                    continue
                for m in g["msgs"]:
                    if m[0] == uid and m[1] != tag and m[1] is not None:
                        v("C11.uid.rebound", f"{what}: ({b}, UIDVALIDITY {uv}, UID {uid}) was revealed as {tag} and now names {m[1]}", k, sig)
                if g.get("uidnext") is not None and g["uidnext"] <= uid:
                    v("C11.uidnext.low", f"{what}: UIDNEXT of {b!r} is {g['uidnext']}, not above the revealed UID {uid}", k, sig)
        res.steps = npoints
        res.labels.append(f"crash-points:{'<=50' if npoints <= 50 else '<=150' if npoints <= 150 else '>150'}")
        res.sample = [{"kind": kind, "commands": [a["line"][:60] for a in acks], "effects": K, "crash_points_run": npoints}]
    finally:
        rmtree(base)
    res.violations = viol
    return res

"""C19 - the front-end relays exactly the commands the byte stream denotes.

Drives `asimap.server.IMAPClient.start()` (and the POP3 twin) in-process on a
virtual-time loop: a real `asyncio.StreamReader` is fed generated segments, the
client-side writer and the subprocess-side writer are captured, the session is
put into the authenticated state the way `get_and_connect_subprocess` leaves it
(state, reader(limit=131072), writer, `msgs_to_client()` task).  The oracle is
an independent reference tokenizer over the bytes actually put on the wire.
"""
from __future__ import annotations

import asyncio
import random
import re

from ..gen import c19_gen as G
from ..run import CaseResult, Violation, case_hash, open_ids
from ..world import Quiescent, Spin, close_loop, new_loop

ID = "C19"
LEVEL = "exploration"
RULE = (
    "Hypothesis-generated client byte streams (1-10 commands with 0-3 synchronising / LITERAL+ literals whose bodies "
    "contain CRLF, {n} look-alikes and whole fake commands; empty and whitespace-only lines; announced over-limit "
    "literals, commands whose accumulated size or whose lines exceed the limit, sizes right at the limit; "
    "MAX_INPUT_SIZE lowered to 64..4096 in 90 % of the streams, the real 10 MiB in the rest), each run under 1-4 "
    "segmentations into feed_data chunks (whole, byte-wise, cut exactly inside every literal header and CRLF, random "
    "sizes); literal octets of a synchronising literal are fed only after the '+' was seen, a refused literal is "
    "abandoned as a client does. Server->client: generated response streams (lines, literals with CRLF-free runs up "
    "to 200 kB, LF-only bodies) chunked into the StreamReader(limit=131072) that msgs_to_client() reads. Same for the "
    "POP3 front-end (lines; default 64 KiB reader). extra(): every 1- and 2-cut segmentation of six canonical streams. "
    "Non-trivial = the stream has >= 1 literal and a chunk boundary falls strictly inside a literal header or between "
    "CR and LF of a line terminator; distinct = distinct trace hash."
)
ASSUMPTIONS = [
    "the front-end is driven in-process: IMAPClient.start()/POP3Client.start() with a fed StreamReader (limit 65536 = asyncio.start_server default) and capturing writers; no sockets, no TLS",
    "the authenticated state is set directly (client_handler.state, subprocess_intf.reader/writer/wait_task) instead of through LOGIN + subprocess launch (that gate is C18's)",
    "a command's size is measured as the length of the relayed payload; sizes within 2 octets of the limit (and the trailing-whitespace margin) may be relayed or refused",
    "an empty / whitespace-only line denotes no command (relaying nothing or an empty payload are both accepted); a line ending in '{n}' plus trailing whitespace is ambiguous and never generated",
    "after a refused LITERAL+ literal the server may either skip the announced octets or close the connection (RFC 7888); both are accepted",
    "the harness client abandons a command when it gets BAD instead of '+' for a synchronising literal and goes on with its next command",
]

OPEN = open_ids(ID)
# ids under which the genuine defects found by this check can be registered as
# open findings; when registered, the trigger is filtered out of every trace
K_SYNC = "overlimit-sync-drain"  # refused synchronising literal -> next line eaten
K_NONSYNC = "overlimit-nonsync-resync"  # refused LITERAL+ literal with CRLF inside -> its octets become commands
K_ACCUM = "overlimit-accum-tail"  # accumulated size refused after a literal -> rest of the command becomes a command
K_LONGLINE = "c2s-long-line"  # line longer than the 64 KiB reader limit -> connection dropped silently
K_RUN = "s2c-long-run"  # response chunk without CRLF longer than the reader limit -> connection dropped

CRLF = b"\r\n"
WS = b" \t\n\r\x0b\x0c"
MAX_BODY_AFTER_WRONG_PLUS = 1 << 21
MAX_CHUNKS = 1200


class HarnessError(Exception):
    pass


def _b(s) -> bytes:
    if isinstance(s, bytes):
        return s
    return str(s).encode("latin-1", "replace")


# ---------------------------------------------------------------- reference


def hdr_at_end(line: bytes):
    """(n, plus) if `line` ends with "{" 1*DIGIT ["+"] "}" (RFC 3501 literal /
    RFC 7888 literal+), else None.  Written without regular expressions."""
    if not line.endswith(b"}"):
        return None
    i = len(line) - 2
    plus = False
    if i >= 0 and line[i] == 0x2B:
        plus = True
        i -= 1
    j = i
    while j >= 0 and 0x30 <= line[j] <= 0x39:
        j -= 1
    if j == i or j < 0 or line[j] != 0x7B:
        return None
    return int(line[j + 1 : i + 1]), plus


def ref_tokenize(s: bytes, maxsize: int, abandoned):
    """What the byte stream `s` denotes.  `abandoned` = stream offsets (just
    after a synchronising header line) at which the client, refused, did not
    send the literal and started its next command."""
    out = []
    pos, N = 0, len(s)
    while pos < N:
        start = pos
        comps = []
        hdrs = []
        why = None
        smin = smax = 0
        incomplete = False
        longest = 0
        while True:
            e = s.find(CRLF, pos)
            if e < 0:
                incomplete = True
                longest = max(longest, N - pos)
                pos = N
                break
            line = s[pos:e]
            longest = max(longest, len(line))
            pos = e + 2
            h = hdr_at_end(line)
            if h is None:
                comps.append(("L", line))
                smin += len(line.rstrip(WS))
                smax += len(line)
                break
            n, plus = h
            comps.append(("L", line))
            smin += len(line)
            smax += len(line)
            hdrs.append({"n": n, "plus": plus, "at": pos, "run": smin})
            if n > maxsize:
                why = why or ("literal-nonsync" if plus else "literal-sync")
                if not plus and pos in abandoned:
                    break
                if pos + n > N:
                    incomplete = True
                    pos = N
                    break
                pos += n  # announced octets are on the wire: they are data, never commands
                continue
            if not plus and pos in abandoned:
                why = why or "abandoned"
                break
            if pos + n > N:
                incomplete = True
                pos = N
                break
            comps.append(("X", s[pos : pos + n]))
            pos += n
            smin += n + 2
            smax += n + 2
        ev = {"start": start, "end": pos, "comps": comps, "hdrs": hdrs, "why": why, "smin": smin, "smax": smax, "longest": longest}
        if incomplete:
            ev["k"] = "incomplete"
        elif why:
            ev["k"] = "refused"
        elif len(comps) == 1 and not comps[0][1].strip(WS):
            ev["k"] = "empty"
        elif smin - 2 > maxsize:
            ev["k"] = "refused"
            ev["why"] = "size"
        elif smax + 2 > maxsize:
            ev["k"] = "either"
        else:
            ev["k"] = "cmd"
        out.append(ev)
    return out


def ref_lines(s: bytes):
    """POP3: every CRLF-terminated non-blank line is one command."""
    out = []
    pos, N = 0, len(s)
    while pos < N:
        e = s.find(CRLF, pos)
        if e < 0:
            out.append({"k": "incomplete", "start": pos, "end": N, "comps": [], "hdrs": [], "why": None, "longest": N - pos})
            break
        line = s[pos:e]
        ev = {"start": pos, "end": e + 2, "comps": [("L", line)], "hdrs": [], "why": None, "longest": len(line)}
        ev["k"] = "cmd" if line.strip(WS) else "empty"
        out.append(ev)
        pos = e + 2
    return out


def payload_forms(comps):
    """(stripped, raw) images of a command as one payload."""
    raw = bytearray()
    for i, (k, b) in enumerate(comps):
        if k == "X":
            raw += CRLF + b
        else:
            raw += b
    raw = bytes(raw)
    if comps and comps[-1][0] == "L":
        tail = comps[-1][1]
        stripped = raw[: len(raw) - (len(tail) - len(tail.rstrip(WS)))]
    else:
        stripped = raw
    return stripped, raw


def payload_matches(actual: bytes, comps) -> bool:
    stripped, raw = payload_forms(comps)
    return actual.startswith(stripped) and raw.startswith(actual)


def deframe(buf: bytes):
    """Independent reader of the front-end -> user-process framing `{n}\\n` + n octets."""
    frames = []
    pos, N = 0, len(buf)
    while pos < N:
        if buf[pos] != 0x7B:
            return frames, f"frame does not start with '{{' at {pos}: {buf[pos:pos + 20]!r}"
        e = buf.find(b"}\n", pos)
        if e < 0 or not buf[pos + 1 : e].isdigit():
            return frames, f"bad frame header at {pos}: {buf[pos:pos + 20]!r}"
        n = int(buf[pos + 1 : e])
        if e + 2 + n > N:
            return frames, f"frame at {pos} announces {n} octets, only {N - e - 2} follow"
        frames.append(buf[e + 2 : e + 2 + n])
        pos = e + 2 + n
    return frames, None


# ------------------------------------------------------------- trace meaning


def lit_spec(l):
    """-> (n, plus, body|None)"""
    if "big" in l:
        return int(l["big"]), False, None
    d = _b(l.get("d", ""))
    body = d * int(l.get("rep", 1)) + d[: int(l.get("cut", 0))]
    return len(body), bool(l.get("plus")), body


def norm_cmd(it):
    """-> (lines, lits) with len(lines) == len(lits)+1, no CRLF inside a line,
    and a last line that does not itself end in a literal header."""
    lits = [lit_spec(l) for l in (it.get("lits") or [])]
    lines = [_b(x).replace(CRLF, b"\r \n") for x in (it.get("lines") or [""])]
    lines = lines[: len(lits) + 1]
    while len(lines) < len(lits) + 1:
        lines.append(b"")
    pad = int(it.get("pad", 0) or 0)
    if pad:
        lines[0] = lines[0] + b"x" * pad
    if hdr_at_end(lines[-1].rstrip(WS)) is not None:
        lines[-1] = lines[-1] + b"."
    return lines, lits


def excluded_by_open(it, maxsize):
    """Open-finding ids whose trigger this client item contains."""
    if it.get("t") != "cmd" or not OPEN:
        return []
    lines, lits = norm_cmd(it)
    out = []
    if K_LONGLINE in OPEN and any(len(x) + 24 > listen_limits()["imap"] for x in lines):
        out.append(K_LONGLINE)
    run = 0
    for j, (n, plus, body) in enumerate(lits):
        run += len(lines[j]) + len(str(n)) + 3
        if n > maxsize:
            if not plus and K_SYNC in OPEN:
                out.append(K_SYNC)
            if plus and K_NONSYNC in OPEN and body is not None and CRLF in (body + lines[j + 1]):
                out.append(K_NONSYNC)
            break
        run += n + 2
        rest = b"".join(lines[j + 1 :]).strip(WS)
        if run > maxsize - 4 and (rest or j + 1 < len(lits)) and K_ACCUM in OPEN:
            out.append(K_ACCUM)
            break
    return out


def build_blocks(steps, proto, maxsize, res):
    """Client wire plan: blocks of bytes that may be sent without waiting; a
    block ending in a synchronising header carries a gate."""
    blocks = []
    for idx, it in enumerate(steps):
        t = it.get("t")
        if t == "empty":
            blocks.append({"item": idx, "data": _b(it.get("ws", "")).replace(CRLF, b"\r") + CRLF, "gate": None, "first": True})
            continue
        if proto == "pop3":
            line = _b(it.get("d", "")).replace(CRLF, b"\r \n")
            blocks.append({"item": idx, "data": line + CRLF, "gate": None, "first": True})
            continue
        if t != "cmd":
            continue
        ex = excluded_by_open(it, maxsize)
        if ex:
            res.excluded.extend(ex)
            continue
        lines, lits = norm_cmd(it)
        data = bytearray()
        first = True
        for j, (n, plus, body) in enumerate(lits):
            data += lines[j] + b"{%d%s}" % (n, b"+" if plus else b"") + CRLF
            if not plus:
                blocks.append({"item": idx, "data": bytes(data), "gate": {"n": n, "over": n > maxsize, "body": body}, "first": first})
                first = False
                data = bytearray()
                # the body goes out only once the gate has been passed
                data += body if body is not None else b""
                if body is None:
                    blocks[-1]["gate"]["lazy"] = True
            else:
                data += body
        data += lines[-1] + CRLF
        blocks.append({"item": idx, "data": bytes(data), "gate": None, "first": first})
    return blocks


def wire_marks(data: bytes, base: int, in_literal_until: int):
    """Offsets (absolute) strictly inside literal headers and between CR and LF
    of line terminators of a piece of client wire data; tracks literal bodies by
    octet count so that CRLFs inside bodies are not counted.
    Returns (marks_header, marks_crlf, new_in_literal_until)."""
    mh, mc = [], []
    pos = 0
    N = len(data)
    if in_literal_until > base:
        pos = min(N, in_literal_until - base)
    while pos < N:
        e = data.find(CRLF, pos)
        if e < 0:
            break
        line = data[pos:e]
        mc.append(base + e + 1)
        h = hdr_at_end(line)
        pos = e + 2
        if h is not None:
            hs = line.rfind(b"{")
            for o in range(pos - 2 - len(line) + hs + 1, e):
                mh.append(base + o)
            in_literal_until = base + pos + h[0]
            pos = min(N, pos + h[0])
    return mh, mc, in_literal_until


class Chunker:
    def __init__(self, seg, total_hint):
        self.m = seg.get("m", "whole")
        self.sz = [max(1, int(x)) for x in (seg.get("sz") or [])]
        self.at = sorted(int(x) for x in (seg.get("at") or []))
        self.i = 0
        if self.m == "bytes" and total_hint > MAX_CHUNKS:
            self.m, self.sz = "sizes", [1]
        if self.m == "sizes" and not self.sz:
            self.m = "whole"
        if self.m == "sizes":
            # bound the number of chunks per run (cost), keeping the pattern of sizes
            est = total_hint * len(self.sz) / max(1, sum(self.sz))
            if est > MAX_CHUNKS:
                f = int(est / MAX_CHUNKS) + 1
                self.sz = [x * f + (1 if f % 2 == 0 else 0) for x in self.sz]

    def want(self, sent: int, marks) -> int:
        if self.m == "bytes":
            return 1
        if self.m == "sizes":
            return self.sz[self.i % len(self.sz)]
        if self.m == "cuts":
            for c in self.at:
                if c > sent:
                    return c - sent
            return 1 << 40
        if self.m == "marks":
            stride = self.sz[self.i % len(self.sz)] if self.sz else 1
            k = 0
            for c in marks:
                if c > sent:
                    k += 1
                    if k >= stride:
                        return c - sent
            return 1 << 40
        return 1 << 40

    def fed(self):
        self.i += 1


class Cap:
    """Capturing stand-in for an asyncio.StreamWriter."""

    def __init__(self):
        self.buf = bytearray()
        self.closed = False

    def write(self, d):
        if self.closed:
            raise ConnectionResetError("writer closed")
        self.buf += d

    async def drain(self):
        pass

    def is_closing(self):
        return self.closed

    def close(self):
        self.closed = True

    async def wait_closed(self):
        pass

    def get_extra_info(self, k, default=None):
        return ("127.0.0.1", 40000)


class _StubServer:
    debug = False
    log_config = None
    trace = False
    trace_dir = None


def out_events(buf: bytes) -> str:
    """'+' per continuation line, 'B' per untagged/tagged BAD (or -ERR) line the front-end wrote."""
    ev = []
    for ln in bytes(buf).split(CRLF):
        if ln.startswith(b"+ ") or ln == b"+":
            ev.append("+")
        else:
            parts = ln.split(b" ", 2)
            if (len(parts) >= 2 and parts[1].upper() == b"BAD") or ln.startswith(b"-ERR"):
                ev.append("B")
    return "".join(ev)


# ------------------------------------------------------------------ running


class _Stop(Exception):
    pass


class _User:
    username = "c19user"

    def __str__(self):
        return self.username


class _FakeSub:
    """What USER_IMAP_SUBPROCESSES holds for a user whose process is up."""

    def __init__(self, user):
        self.user = user
        self.is_alive = True
        self.port = 1
        self.has_port = asyncio.Event()
        self.has_port.set()

    def __str__(self):
        return "c19-fake-subprocess"


_LISTEN = {}


def listen_limits():
    """StreamReader limit the real listeners give their client connections:
    run IMAPServer.run()/POP3Server.run() up to asyncio.start_server and read
    the keyword (default 2**16)."""
    if _LISTEN:
        return _LISTEN
    import os

    import asimap.pop3_server as P
    import asimap.server as S

    for proto, cls in (("imap", S.IMAPServer), ("pop3", P.POP3Server)):
        seen = {}

        async def fake(cb, *a, _seen=seen, **kw):
            _seen.update(kw)
            _seen["_called"] = True
            raise _Stop()

        dsn = os.environ.pop("SENTRY_DSN", None)
        lp = new_loop()
        orig = asyncio.start_server
        asyncio.start_server = fake
        try:
            try:
                lp.run_until_complete(cls("127.0.0.1", 0, None).run())
            except _Stop:
                pass
        finally:
            asyncio.start_server = orig
            close_loop(lp)
            if dsn is not None:
                os.environ["SENTRY_DSN"] = dsn
        if not seen.get("_called"):
            raise HarnessError(f"{cls.__name__}.run() no longer goes through asyncio.start_server")
        _LISTEN[proto] = int(seen.get("limit") or 65536)
    return _LISTEN


_SUB = {}


def sub_limits():
    """StreamReader limit of the connection to the user process, as the code asks for it."""
    if _SUB:
        return _SUB
    for proto in ("imap", "pop3"):
        info = {}

        async def main(proto=proto, info=info):
            cl, intf, sr = await _front(proto, asyncio.StreamReader(), Cap(), Cap(), info)
            sr.feed_eof()
            await asyncio.sleep(SETTLE)

        lp = new_loop()
        try:
            lp.run_until_complete(main())
        finally:
            close_loop(lp)
        _SUB[proto] = info["sub_limit"]
    return _SUB


async def _front(proto, reader, cw, sw, info):
    """Build the front-end objects and bring them into the post-login state
    through the real get_and_connect_subprocess(): the user's process is
    'already running' (a stub in USER_IMAP_SUBPROCESSES) and the TCP connection
    to it is replaced by (a real StreamReader with the limit the code asks for,
    the capturing writer `sw`)."""
    import asimap.pop3_server as P
    import asimap.server as S

    box = {}

    async def fake_open_connection(host=None, port=None, **kw):
        lim = int(kw.get("limit") or 65536)
        box["reader"] = asyncio.StreamReader(limit=lim)
        box["limit"] = lim
        return box["reader"], sw

    user = _User()
    lock = type(S.USER_IMAP_SUBPROCESSES_LOCK)()
    old_locks = (S.USER_IMAP_SUBPROCESSES_LOCK, P.USER_IMAP_SUBPROCESSES_LOCK)
    S.USER_IMAP_SUBPROCESSES_LOCK = lock
    P.USER_IMAP_SUBPROCESSES_LOCK = lock
    S.USER_IMAP_SUBPROCESSES[user.username] = _FakeSub(user)
    orig = asyncio.open_connection
    asyncio.open_connection = fake_open_connection
    try:
        if proto == "imap":
            from asimap.client import ClientState

            cl = S.IMAPClient(_StubServer(), "c19:1", "127.0.0.1", 40000, reader, cw)
            intf = cl.subprocess_intf
            intf.client_handler.user = user
            intf.client_handler.state = ClientState.AUTHENTICATED  # what do_login() leaves behind
            await intf.get_and_connect_subprocess(user)
        else:
            cl = P.POP3Client(_StubServer(), "c19:1", "127.0.0.1", 40000, reader, cw)
            intf = cl.subprocess_intf
            intf.username = user.username
            await intf.get_and_connect_subprocess(user)
            intf.state = "transaction"  # what _do_pass() does next
    finally:
        asyncio.open_connection = orig
        S.USER_IMAP_SUBPROCESSES.pop(user.username, None)
        S.USER_IMAP_SUBPROCESSES_LOCK, P.USER_IMAP_SUBPROCESSES_LOCK = old_locks
    if "reader" not in box or intf.wait_task is None:
        raise HarnessError("get_and_connect_subprocess() did not open a connection / start msgs_to_client()")
    info["sub_limit"] = box["limit"]
    info["preamble"] = len(sw.buf)  # POP3 sends its protocol identifier frame first
    return cl, intf, box["reader"]


def _run_loop(coro_fn, maxsize):
    import asimap.server as S

    random.seed(0)
    lp = new_loop()
    old = S.MAX_INPUT_SIZE
    if maxsize is not None:
        S.MAX_INPUT_SIZE = maxsize
    try:
        lp.max_iterations = lp.iterations + 3_000_000
        try:
            return lp.run_until_complete(coro_fn())
        except (Quiescent, Spin) as e:
            raise HarnessError(f"loop stuck in harness: {e}")
        finally:
            lp.max_iterations = None
    finally:
        S.MAX_INPUT_SIZE = old
        close_loop(lp)


SETTLE = 0.001


def run_c2s(steps, seg, proto, maxsize_cfg, res):
    """Feed the client stream under one segmentation.  -> observation dict."""
    import asimap.server as S

    maxsize = maxsize_cfg if maxsize_cfg is not None else S.MAX_INPUT_SIZE
    blocks = build_blocks(steps, proto, maxsize if proto == "imap" else 1 << 60, res)
    total = sum(len(b["data"]) for b in blocks)
    obs = {
        "sent": bytearray(), "bounds": [], "mh": [], "mc": [], "gates": [], "abandoned": set(), "closed": None, "stalled": False,
        "log": [], "maxsize": maxsize, "nblocks": len(blocks), "client_limit": listen_limits()[proto],
    }

    async def main():
        reader = asyncio.StreamReader(limit=obs["client_limit"])
        cw, sw = Cap(), Cap()
        info = {}
        cl, intf, sreader = await _front(proto, reader, cw, sw, info)
        pre = info["preamble"]
        obs["preamble"] = bytes(sw.buf[:pre])
        task = asyncio.get_running_loop().create_task(cl.start(), name="c19-start")
        await asyncio.sleep(SETTLE)
        greet = len(cw.buf)
        obs["greeting"] = bytes(cw.buf)
        ch = Chunker(seg, total)
        sent = obs["sent"]
        queue = bytearray()
        marks = []  # absolute, ascending
        state = {"lit_until": 0, "qbase": 0}

        async def feed(chunk):
            lo = len(sent)
            reader.feed_data(bytes(chunk))
            sent.extend(chunk)
            obs["bounds"].append(len(sent))
            ch.fed()
            await asyncio.sleep(SETTLE)
            if len(obs["log"]) < 60:
                obs["log"].append({"fed": bytes(chunk[:48]).decode("latin-1"), "n": len(chunk), "out": out_events(cw.buf[greet:]), "relayed": sw.buf.count(b"}\n", pre)})
            if (cw.closed or task.done()) and obs["closed"] is None:
                obs["closed"] = (lo, len(sent))
                return False
            return True

        async def pump(final):
            while queue:
                w = ch.want(len(sent), marks)
                if len(queue) >= w:
                    part = queue[:w]
                elif final:
                    part = queue[:]
                else:
                    return True
                del queue[: len(part)]
                if not await feed(part):
                    return False
            return True

        def enqueue(data):
            base = len(sent) + len(queue)
            if proto == "imap":
                mh, mc, state["lit_until"] = wire_marks(data, base, state["lit_until"])
            else:
                mh, mc = [], [base + i + 1 for i in range(len(data) - 1) if data[i : i + 2] == CRLF]
            obs["mh"].extend(mh)
            obs["mc"].extend(mc)
            marks.extend(sorted(mh + mc))
            queue.extend(data)

        skip_item = None
        alive = True
        for b in blocks:
            if b["item"] == skip_item:
                continue
            enqueue(b["data"])
            g = b["gate"]
            if g is None:
                alive = await pump(False)
                if not alive:
                    break
                continue
            ev0 = None
            # everything up to the header's CRLF goes out; the last chunk completes the header line
            while len(queue) > 0:
                w = ch.want(len(sent), marks)
                part = queue[: min(w, len(queue))]
                del queue[: len(part)]
                if not queue:
                    ev0 = out_events(cw.buf[greet:])
                alive = await feed(part)
                if not alive:
                    break
            if not alive:
                break
            ev1 = out_events(cw.buf[greet:])
            new = ev1[len(ev0) :] if ev0 is not None else ""
            rec = {"at": len(sent), "n": g["n"], "over": g["over"], "plus": new.count("+"), "bad": new.count("B"), "item": b["item"]}
            obs["gates"].append(rec)
            if rec["plus"] >= 1:
                if g.get("lazy"):
                    # the server asked for an over-limit literal: a client would now send it
                    if g["n"] > MAX_BODY_AFTER_WRONG_PLUS:
                        obs["stalled"] = True
                        rec["unsendable"] = True
                        break
                    state["lit_until"] = len(sent) + g["n"]
                    queue.extend(b"L" * g["n"])
                continue
            if rec["bad"] >= 1:
                obs["abandoned"].add(len(sent))
                state["lit_until"] = 0
                skip_item = b["item"]
                continue
            obs["stalled"] = True
            break
        if alive and not obs["stalled"]:
            await pump(True)
        await asyncio.sleep(SETTLE)
        obs["out"] = bytes(cw.buf[greet:])
        obs["sub"] = bytes(sw.buf[pre:])
        obs["closed_before_eof"] = cw.closed or task.done()
        reader.feed_eof()
        await asyncio.sleep(SETTLE)
        obs["done_after_eof"] = task.done()
        obs["sub_after_eof"] = bytes(sw.buf[pre:])
        if not task.done():
            task.cancel()
        sreader.feed_eof()
        await asyncio.sleep(SETTLE)

    _run_loop(main, maxsize_cfg)
    return obs


def _cause(events, i):
    """Name the earliest refused item in the run of not-relayed items right before event i."""
    seen_empty = False
    found = None
    j = i - 1
    while j >= 0:
        e = events[j]
        if e["k"] == "refused":
            found = "after-overlimit-" + str(e["why"])
        elif e["k"] == "either" and not e.get("matched"):
            found = "after-overlimit-size"
        elif e["k"] in ("cmd", "either"):
            break
        elif e["k"] == "empty":
            seen_empty = True
        j -= 1
    return found or ("after-empty-line" if seen_empty else "plain")


def _short(b: bytes, n=70) -> str:
    b = bytes(b)
    return repr(b[:n] + (b"..." if len(b) > n else b""))


def judge_c2s(obs, proto):
    """-> (clause, sig, detail) of the first violation, or None; plus facts."""
    sent = bytes(obs["sent"])
    maxsize = obs["maxsize"]
    events = ref_tokenize(sent, maxsize, obs["abandoned"]) if proto == "imap" else ref_lines(sent)
    facts = {"events": events}
    long_line = any(e["longest"] > obs["client_limit"] for e in events)

    frames, err = deframe(obs["sub"])
    if err:
        return ("C19.frame", "", err), facts
    if obs["sub_after_eof"] != obs["sub"]:
        extra = obs["sub_after_eof"][len(obs["sub"]) :]
        return ("C19.relay.at-eof", "", f"an incomplete command was relayed when the client closed the connection: {_short(extra)}"), facts
    actual = [f for f in frames if f.strip(WS)]

    # connection closed by the front-end before the client's EOF
    closed = obs["closed"]
    first_cand = None
    if closed is not None:
        lo, hi = closed
        for i, e in enumerate(events):
            if e["end"] > lo:
                first_cand = i
                break
        if first_cand is None:
            first_cand = len(events)
    limit = len(events) if first_cand is None else first_cand

    a = 0
    viol = None
    for i, e in enumerate(events):
        k = e["k"]
        if i >= limit and k == "cmd":
            k = "either"  # the connection was closed around here: whatever follows may or may not have got through
        if k == "cmd":
            if a < len(actual) and payload_matches(actual[a], e["comps"]):
                a += 1
                e["matched"] = True
                continue
            sig = _cause(events, i)
            if long_line and sig == "plain":
                sig = "long-line"
            exp = payload_forms(e["comps"])[0]
            later = a < len(actual) and any(x["k"] in ("cmd", "either") and payload_matches(actual[a], x["comps"]) for x in events[i + 1 :])
            if a >= len(actual) or later:
                viol = ("C19.relay.dropped", sig, f"command {_short(exp)} was not relayed (next relayed: {_short(actual[a]) if a < len(actual) else 'nothing'})")
            else:
                got = actual[a]
                lit = got.strip(WS) in sent and not any(payload_matches(got, x["comps"]) for x in events if x["comps"])
                viol = ("C19.relay.spurious", sig, f"relayed {_short(got)} where {_short(exp)} was due" + (" (octets of a literal / of a refused command taken as a command)" if lit else ""))
            break
        if k == "either":
            if a < len(actual) and payload_matches(actual[a], e["comps"]):
                a += 1
                e["matched"] = True
            continue
        if k == "refused" and e["why"] == "size" and a < len(actual) and payload_matches(actual[a], e["comps"]):
            viol = ("C19.overlimit.relayed", "size", f"a command of {e['smin']} octets was relayed although the limit is {maxsize}")
            break
    if viol is None and a < len(actual):
        got = actual[a]
        sig = _cause(events, len(events))
        viol = ("C19.relay.spurious", sig, f"relayed {_short(got)} which is not a command of the stream ({len(actual) - a} extra)")
    if viol:
        return viol, facts

    if closed is not None:
        cands = [e for e in events if e["end"] > closed[0] and e["start"] < closed[1]]
        # a LITERAL+ literal that is itself, or makes the command, over the limit may be answered by BAD + close
        legit = any(h["plus"] and (h["n"] > maxsize or h["run"] + h["n"] + 4 > maxsize) for e in cands for h in e["hdrs"])
        has_bad = "B" in out_events(obs["out"])
        if not legit or not has_bad:
            sig = "long-line" if any(e["longest"] > obs["client_limit"] for e in cands) else _cause(events, limit)
            what = "without a BAD " if not has_bad else ""
            return ("C19.closed", sig, f"the front-end closed the connection {what}while reading {_short(sent[closed[0]:closed[1]], 50)}"), facts
        return None, facts

    # continuation prompts, seen gate by gate
    for g in obs["gates"]:
        ev = next((e for e in events if e["start"] < g["at"] <= e["end"]), None)
        ei = events.index(ev) if ev is not None else len(events)
        sig = _cause(events, ei)
        if g["over"]:
            if g["plus"]:
                return ("C19.overlimit.continued", sig, f"'+' sent for a synchronising literal of {g['n']} octets, limit {maxsize}"), facts
            if not g["bad"]:
                return ("C19.overlimit.no-bad", sig, f"no BAD (and no '+') for a synchronising literal of {g['n']} octets, limit {maxsize}"), facts
            continue
        if g["plus"] == 1:
            continue
        if g["plus"] > 1:
            return ("C19.continuation.spurious", sig, f"{g['plus']} continuation lines for one synchronising literal"), facts
        # no '+': legitimate only if the command can no longer fit
        h = next((h for h in (ev["hdrs"] if ev else []) if h["at"] == g["at"]), None)
        would = (h["run"] if h else 0) + g["n"] + 2  # size of the command once this literal is in
        if g["bad"] and would + 2 > maxsize:
            continue
        if g["bad"]:
            return ("C19.continuation.refused", sig, f"BAD instead of '+' for a synchronising literal of {g['n']} octets in a command within the limit {maxsize}"), facts
        return ("C19.continuation.missing", sig, f"neither '+' nor BAD for a synchronising literal of {g['n']} octets (limit {maxsize}); the client waits for ever"), facts

    # order and number of '+' / BAD lines over the whole exchange
    if proto == "imap":
        pats = []
        for e in events:
            ks = sum(1 for h in e["hdrs"] if not h["plus"] and h["n"] <= maxsize)
            if e["k"] == "cmd":
                pats.append((e, "\\+{%d}" % ks))
            elif e["k"] == "either":
                pats.append((e, "[+B]{0,%d}" % (ks + 2)))
            elif e["k"] == "refused" and e["why"] != "abandoned":
                pats.append((e, "\\+{0,%d}B[+B]{0,%d}" % (ks, ks + 2)))
            elif e["k"] == "empty":
                pats.append((e, "B?"))
            else:
                pats.append((e, "[+B]*"))
        got = out_events(obs["out"])
        if not re.fullmatch("".join(p for _, p in pats), got):
            culprit = len(pats) - 1
            for i in range(len(pats)):
                if not re.fullmatch("".join(p for _, p in pats[: i + 1]) + "[+B]*", got):
                    culprit = i
                    break
            # once the front-end lost sync everything later is suspect: blame the first refused item up to there
            first = next((e for e, _ in pats[: culprit + 1] if e["k"] == "refused" or (e["k"] == "either" and not e.get("matched"))), None)
            sig = ("after-overlimit-" + str(first["why"] or "size")) if first is not None else "plain"
            return ("C19.events", sig, f"continuation/BAD lines {got[:60]!r} ({got.count('+')} '+', {got.count('B')} BAD) do not fit the stream: expected pattern {''.join(p for _, p in pats)[:120]!r}"), facts
    return None, facts


# ------------------------------------------------------------ server->client


def resp_bytes(steps):
    out = bytearray()
    for it in steps:
        if it.get("t") == "line":
            out += _b(it.get("d", "")).replace(CRLF, b"\r") + CRLF
        elif it.get("t") == "lit":
            body = bytearray()
            for r in it.get("runs") or []:
                d = _b(r.get("d", "x")).replace(b"\n", b"") or b"x"
                n = int(r.get("n", 0))
                body += (d * (n // len(d) + 1))[:n] + _b(r.get("sep", "\r\n"))
            out += _b(it.get("pre", "")) + b"{%d}" % len(body) + CRLF + body + _b(it.get("post", "")) + CRLF
    return bytes(out)


def longest_chunk(s: bytes) -> int:
    m = 0
    pos = 0
    while True:
        e = s.find(CRLF, pos)
        if e < 0:
            return max(m, len(s) - pos)
        m = max(m, e - pos)
        pos = e + 2


def run_s2c(trace, seg, proto, res):
    limit = sub_limits()[proto]
    steps = list(trace.get("steps") or [])
    if K_RUN in OPEN:
        kept = []
        for it in steps:
            if longest_chunk(resp_bytes(kept + [it])) > limit:
                res.excluded.append(K_RUN)
                continue
            kept.append(it)
        steps = kept
    stream = resp_bytes(steps)
    cmds = []
    for c in trace.get("cmds") or []:
        c = _b(c)
        if proto == "pop3":
            c = c.replace(CRLF, b" ")
        cmds.append(c)
    obs = {"stream": stream, "bounds": [], "mh": [], "mc": [], "log": [], "limit": limit}
    climit = listen_limits()[proto]

    async def main():
        reader = asyncio.StreamReader(limit=climit)
        cw, sw = Cap(), Cap()
        info = {}
        cl, intf, sreader = await _front(proto, reader, cw, sw, info)
        pre = info["preamble"]
        obs["limit"] = info["sub_limit"]
        task = asyncio.get_running_loop().create_task(cl.start(), name="c19-start")
        await asyncio.sleep(SETTLE)
        greet = len(cw.buf)
        mh, mc, _ = wire_marks(stream, 0, 0)
        obs["mh"], obs["mc"] = mh, mc
        marks = sorted(mh + mc)
        ch = Chunker(seg, len(stream))
        pos = 0
        ci = 0
        while pos < len(stream):
            if ci < len(cmds):
                reader.feed_data(cmds[ci] + CRLF)
                ci += 1
            w = ch.want(pos, marks)
            part = stream[pos : pos + w]
            sreader.feed_data(part)
            pos += len(part)
            obs["bounds"].append(pos)
            ch.fed()
            await asyncio.sleep(SETTLE)
            if len(obs["log"]) < 40:
                obs["log"].append({"fed": len(part), "delivered": len(cw.buf) - greet, "closed": cw.closed})
            if cw.closed:
                break
        while ci < len(cmds) and not cw.closed:
            reader.feed_data(cmds[ci] + CRLF)
            ci += 1
        await asyncio.sleep(SETTLE)
        obs["fed"] = pos
        obs["out"] = bytes(cw.buf[greet:])
        obs["closed"] = cw.closed
        obs["sub"] = bytes(sw.buf[pre:])
        obs["cmds_fed"] = cmds[:ci]
        sreader.feed_eof()
        await asyncio.sleep(SETTLE)
        obs["closed_after_sub_eof"] = cw.closed
        reader.feed_eof()
        await asyncio.sleep(SETTLE)
        if not task.done():
            task.cancel()

    _run_loop(main, None)
    return obs


def judge_s2c(obs, proto):
    stream, out, limit = obs["stream"], obs["out"], obs["limit"]
    pre = "C19.s2c" if proto == "imap" else "C19.pop3.s2c"
    if not stream.startswith(out):
        i = next((k for k in range(min(len(out), len(stream))) if out[k] != stream[k]), min(len(out), len(stream)))
        return (pre + ".modified", "", f"bytes delivered to the client differ from what the user process wrote at offset {i}: got {_short(out[i:i + 40])} expected {_short(stream[i:i + 40])}")
    if len(out) < len(stream):
        # which CRLF-terminated chunk was not delivered?
        e = stream.find(CRLF, len(out))
        chunk = (e if e >= 0 else len(stream)) - len(out)
        sig = "run>limit" if chunk > limit else "plain"
        return (pre + ".truncated", sig, f"{len(stream) - len(out)} of {len(stream)} octets never reached the client; the first undelivered CRLF-terminated chunk is {chunk} octets long (reader limit {limit}); connection closed={obs['closed']}")
    # the few client commands must have been relayed meanwhile
    frames, err = deframe(obs["sub"])
    if err:
        return ("C19.frame", "s2c", err)
    want = [c for c in obs["cmds_fed"] if c.strip(WS)]
    got = [f for f in frames if f.strip(WS)]
    if len(got) != len(want) or any(not (g == w.rstrip(WS) or g == w) for g, w in zip(got, want)):
        return ("C19.relay.dropped" if len(got) < len(want) else "C19.relay.spurious", "during-responses", f"client commands relayed while responses flowed: {got[:4]!r} expected {want[:4]!r}")
    return None


PROBE = {"t": "cmd", "lines": ["zz99 NOOP"], "lits": []}


def attribute(steps, seg, proto, maxsize_cfg):
    """Which item makes the front-end go wrong?  Re-run ever longer prefixes of
    the stream, each followed by a plain probe command; the last item of the
    shortest failing prefix is the culprit.  -> cause signature or None."""
    if proto != "imap":
        return None
    for p in range(1, len(steps) + 1):
        if steps[p - 1].get("t") == "empty" and p < len(steps):
            continue
        scratch = CaseResult()
        obs = run_c2s(list(steps[:p]) + [PROBE], seg, proto, maxsize_cfg, scratch)
        v, facts = judge_c2s(obs, proto)
        if not v:
            continue
        evs = [e for e in facts["events"] if not (e["comps"] and payload_forms(e["comps"])[1] == b"zz99 NOOP")]
        if not evs:
            return None
        e = evs[-1]
        if e["longest"] > obs["client_limit"]:
            return "long-line"
        if e["k"] == "refused":
            return "after-overlimit-" + str(e["why"])
        if e["k"] == "either":
            return "after-overlimit-size"
        if e["k"] == "incomplete" and e["why"]:
            return "after-overlimit-" + str(e["why"])
        return v[1] if not v[1].startswith("after-overlimit-") else None
    return None


# ------------------------------------------------------------------ plumbing


def _reclass(v: Violation) -> Violation:
    """Everything that goes wrong right after a refused over-limit item is one
    clause per kind of item ("it stays in sync afterwards"); the symptom
    becomes the signature."""
    if v.sig.startswith("after-overlimit-"):
        return Violation(v.prop, "C19.resync." + v.sig[len("after-overlimit-") :], v.detail, v.trace, v.clause[len("C19.") :])
    return v



# --- the receiving end of the relay: IMAPClientProxy.run de-frames `{len}\n<payload>` and hands the command to the
# parser; a literal's octet count must still fit after that (seeded/C19-5: the payload decoded as UTF-8 when it
# happens to be valid UTF-8, so `{n}` counts characters that are fewer than the octets)
PROXY_TEXTS = ["caf\u00e9", "\u65e5\u672c\u8a9e mail", "na\u00efve \u2603 snowman", "plain ascii", "\u00fc", "x\u20acy"]


def proxy_strategy():
    from hypothesis import strategies as st

    item = st.tuples(st.sampled_from(["create", "search", "append", "status"]), st.integers(0, len(PROXY_TEXTS) - 1), st.sampled_from(["utf-8", "latin-1"]))
    return st.fixed_dictionaries({"kind": st.just("proxy"), "rseed": st.integers(0, 2**16), "items": st.lists(item, min_size=1, max_size=4)})


def execute_proxy(trace) -> CaseResult:
    from ..driver import Hang, World, tagged_message

    res = CaseResult()
    viol = []
    w = World(rseed=trace.get("rseed", 0))
    sample = []

    async def main():
        await w.boot()
        s = w.session("a")
        await s.cmd(b"SELECT inbox")
        for i, (what, ti, encn) in enumerate(trace["items"]):
            text = PROXY_TEXTS[ti % len(PROXY_TEXTS)]
            raw = text.encode(encn, "replace")
            if what == "create":
                line = b"CREATE {%d}\r\n%s" % (len(b"pb%d " % i + raw), b"pb%d " % i + raw)
            elif what == "status":
                line = b"STATUS {%d}\r\n%s (MESSAGES)" % (len(raw), raw)
            elif what == "search":
                line = b"SEARCH SUBJECT {%d}\r\n%s" % (len(raw), raw)
            else:
                msg = tagged_message(f"px{i}", body=None).replace(b"second line", raw)
                line = b"APPEND inbox {%d}\r\n%s" % (len(msg), msg)
            if not s.alive:
                s = w.session("a%d" % i)
                await s.cmd(b"SELECT inbox")
            r = await s.cmd(line, limit=150)
            sample.append({"c": line[:50].decode("latin-1"), "r": r.status})
            if any(b > 127 for b in raw):
                res.nontrivial = True
            tail = bytes(r.raw[-160:])
            # a well-formed command: NO is fine (no such mailbox), BAD about its syntax / literal is not
            if r.status == "BAD" or r.status is None:
                viol.append(Violation(ID, "C19.proxy.literal", f"the relayed command {line[:60]!r} (literal of {len(raw)} octets, {encn}) was answered {tail!r} by the user process", trace, "proxy:" + what))

    try:
        w.run(main())
    except Hang as e:
        res.blocked = "C06"
        res.labels.append(f"hang:{str(e)[:30]}")
    finally:
        w.close()
    res.labels.append("kind:proxy")
    res.sample = sample
    res.steps = len(sample)
    res.violations = viol
    return res


def strategy(tier, shard, nshards):
    if shard % 8 == 5:
        return proxy_strategy()
    return G.trace(tier)


def budget(tier):
    if tier == "quick":
        return {"examples": 800, "shards": 16, "guard_s": 900}
    return {"examples": 14000, "shards": 16, "guard_s": 7200}


def _labels_c2s(trace, obs, facts, labels):
    ev = facts["events"]
    for e in ev:
        if e["k"] == "refused":
            labels.add("ol:" + str(e["why"]))
        elif e["k"] == "either":
            labels.add("size-at-limit")
        elif e["k"] == "empty":
            labels.add("empty-line")
        nh = len(e["hdrs"])
        if nh >= 2:
            labels.add("multi-literal")
        for h in e["hdrs"]:
            labels.add("lit:nonsync" if h["plus"] else "lit:sync")
            if h["n"] > (1 << 20) and e["end"] - e["start"] > (1 << 20):
                labels.add("lit:>1MiB-on-the-wire")
        if e["longest"] > obs["client_limit"]:
            labels.add("long-line")
        for c in e["comps"]:
            if c[0] == "X" and CRLF in c[1]:
                labels.add("lit:crlf-inside")
            if c[0] == "X" and hdr_at_end(c[1].split(CRLF)[0]) is not None:
                labels.add("lit:fake-header-inside")
    if trace.get("max") is None:
        labels.add("real-limit")


def execute(trace) -> CaseResult:
    if trace.get("kind") == "proxy":
        return execute_proxy(trace)
    res = CaseResult()
    kind = trace.get("kind", "c2s")
    segs = trace.get("segs") or [{"m": "whole"}]
    labels = {"kind:" + kind}
    viols = []
    sample = []
    steps = list(trace.get("steps") or [])
    for si, seg in enumerate(segs):
        res.steps += 1
        one = dict(trace)
        one["segs"] = [seg]
        labels.add("seg:" + str(seg.get("m")))
        if kind in ("c2s", "p3c"):
            proto = "imap" if kind == "c2s" else "pop3"
            obs = run_c2s(steps, seg, proto, trace.get("max"), res)
            v, facts = judge_c2s(obs, proto)
            if v and len(steps) > 1:
                better = attribute(steps, seg, proto, trace.get("max"))
                if better:
                    v = (v[0], better, v[2])
            events = facts["events"]
            nlit = sum(len(e["hdrs"]) for e in events)
            bset = set(obs["bounds"][:-1]) if obs["bounds"] else set()
            inh = bool(bset.intersection(obs["mh"]))
            inc = bool(bset.intersection(obs["mc"]))
            if inh:
                labels.add("cut-in-header")
            if inc:
                labels.add("cut-in-crlf")
            if nlit and (inh or inc):
                res.nontrivial = True
            if si == 0:
                _labels_c2s(trace, obs, facts, labels)
            if obs["gates"]:
                labels.add("gate")
            if obs["abandoned"]:
                labels.add("client-abandoned")
            if si == 0 or v:
                frames, _ = deframe(obs["sub"])
                sample.append({
                    "seg": seg, "max": obs["maxsize"], "wire": bytes(obs["sent"][:300]).decode("latin-1"), "chunks": len(obs["bounds"]),
                    "denotes": [(e["k"] + (":" + str(e["why"]) if e["why"] else "")) for e in events],
                    "relayed": [f[:60].decode("latin-1") for f in frames[:12]], "front-end said": out_events(obs["out"]),
                    "closed": obs["closed"] is not None, "stalled": obs["stalled"],
                })
                if v:
                    sample.extend(obs["log"][:30])
        else:
            proto = "imap" if kind == "s2c" else "pop3"
            obs = run_s2c(trace, seg, proto, res)
            v = judge_s2c(obs, proto)
            bset = set(obs["bounds"][:-1]) if obs["bounds"] else set()
            inh = bool(bset.intersection(obs["mh"]))
            inc = bool(bset.intersection(obs["mc"]))
            if inh:
                labels.add("cut-in-header")
            if inc:
                labels.add("cut-in-crlf")
            haslit = any(it.get("t") == "lit" for it in steps)
            if haslit and (inh or inc):
                res.nontrivial = True
            lc = longest_chunk(obs["stream"])
            labels.add("s2c:run>limit" if lc > obs["limit"] else ("s2c:run>4k" if lc > 4096 else "s2c:short-runs"))
            if any(r.get("sep") == "\n" for it in steps for r in (it.get("runs") or [])):
                labels.add("s2c:lf-only-lines")
            if si == 0 or v:
                sample.append({"seg": seg, "stream_len": len(obs["stream"]), "longest_crlf_free_chunk": lc, "delivered": len(obs["out"]), "closed": obs["closed"], "chunks": len(obs["bounds"])})
                if v:
                    sample.extend(obs["log"][:20])
        if v:
            viols.append(Violation(ID, v[0], v[2] + f" [seg {seg}]", one, v[1]))
    # one violation per (clause, sig) per case is enough
    seen = set()
    for v in viols:
        if v.key() not in seen:
            seen.add(v.key())
            res.violations.append(v)
    res.violations = [_reclass(v) for v in res.violations]
    res.labels = sorted(labels)
    res.excluded = sorted(set(res.excluded))
    res.sample = sample
    return res


# -------------------------------------------------- exhaustive segmentations

CANON = [
    ("two-literals", 64, [
        {"t": "cmd", "lines": ["a1 LOGIN ", " ", ""], "lits": [{"plus": False, "d": "u\r\nx", "rep": 1}, {"plus": True, "d": "{2}", "rep": 1}]},
        {"t": "empty", "ws": ""},
        {"t": "cmd", "lines": ["a2 NOOP"], "lits": []},
    ]),
    ("fake-command-in-literal", 64, [
        {"t": "cmd", "lines": ["a1 APPEND x ", " y"], "lits": [{"plus": False, "d": "z1 LOGOUT\r\n", "rep": 1}]},
        {"t": "cmd", "lines": ["a2 X {3} "], "lits": []},
    ]),
    ("overlimit-by-line", 20, [
        {"t": "cmd", "lines": ["a1 SEARCH TEXT aaaaaaaaaaaaaaaaaaaaaaaaaaaaaa"], "lits": []},
        {"t": "cmd", "lines": ["a2 NOOP"], "lits": []},
    ]),
    ("overlimit-sync-literal", 20, [
        {"t": "cmd", "lines": ["a1 APPEND x ", ""], "lits": [{"plus": False, "big": 21}]},
        {"t": "cmd", "lines": ["a2 NOOP"], "lits": []},
        {"t": "cmd", "lines": ["a3 NOOP"], "lits": []},
    ]),
    ("overlimit-nonsync-literal", 20, [
        {"t": "cmd", "lines": ["a1 APPEND x ", ""], "lits": [{"plus": True, "d": "q1 NOOP\r\nq2 NOOP\r\nq3 NOOP\r\n", "rep": 1}]},
        {"t": "cmd", "lines": ["a2 NOOP"], "lits": []},
    ]),
    ("overlimit-accumulated", 30, [
        {"t": "cmd", "lines": ["a1 LOGIN ", " ", " tail"], "lits": [{"plus": True, "d": "x", "rep": 18}, {"plus": False, "d": "y", "rep": 18}]},
        {"t": "cmd", "lines": ["a2 NOOP"], "lits": []},
    ]),
]


def extra(tier, seed):
    out = {"evaluations": 0, "nontrivial": [], "violations": [], "samples": [], "coverage": {}}
    cov = {}
    buckets = {}
    for name, mx, steps in CANON:
        res0 = CaseResult()
        base = {"kind": "c2s", "rseed": 0, "max": mx, "steps": steps, "segs": [{"m": "whole"}]}
        obs = run_c2s(steps, {"m": "whole"}, "imap", mx, res0)
        if res0.excluded:
            cov[name] = {"excluded_by_known_finding": sorted(set(res0.excluded))}
            continue
        L = len(obs["sent"])
        cuts = [[i] for i in range(1, L)] + [[i, j] for i in range(1, L) for j in range(i + 1, L)]
        if tier == "quick" and len(cuts) > 1500:
            # every single cut, and every pair with the first cut on a mark
            marks = set(obs["mh"]) | set(obs["mc"])
            cuts = [[i] for i in range(1, L)] + [[i, j] for i in sorted(marks) for j in range(1, L) if j != i]
        n = 0
        for at in cuts:
            t = dict(base)
            t["segs"] = [{"m": "cuts", "at": sorted(at)}]
            r = execute(t)
            n += 1
            if r.nontrivial:
                out["nontrivial"].append(case_hash(t))
            for v in r.violations:
                k = v.key()
                if k not in buckets:
                    buckets[k] = v.to_json()
        out["evaluations"] += n
        cov[name] = {"wire_octets": L, "segmentations": n, "all_1_and_2_cut": len(cuts) == (L - 1) + (L - 1) * (L - 2) // 2}
    out["violations"] = list(buckets.values())
    out["coverage"] = {"exhaustive": False, "bounded_slice_enumerated_completely": True, "exhaustive_segmentations": cov}
    return out


def simplify(trace, fails):
    """Called by the runner after ddmin over steps: plainer segmentation, plainer text."""
    t = dict(trace)

    def attempt(cand):
        nonlocal t
        try:
            if fails(cand):
                t = cand
                return True
        except Exception:
            pass
        return False

    for seg in ({"m": "whole"}, {"m": "marks"}, {"m": "bytes"}):
        if t.get("segs") != [seg] and attempt({**t, "segs": [seg]}):
            break
    if t.get("cmds"):
        attempt({**t, "cmds": []})
    steps = list(t.get("steps") or [])
    for i, it in enumerate(steps):
        if it.get("t") == "cmd":
            n = len(it.get("lines") or [])
            plain = [f"a{i + 1} X "] + [" "] * max(0, n - 2) + ([""] if n > 1 else [])
            if n == 1:
                plain = [f"a{i + 1} NOOP"]
            if it.get("lines") != plain:
                cand = list(t["steps"])
                cand[i] = {**it, "lines": plain}
                attempt({**t, "steps": cand})
        elif it.get("t") == "empty" and it.get("ws"):
            cand = list(t["steps"])
            cand[i] = {**it, "ws": ""}
            attempt({**t, "steps": cand})
        elif it.get("t") == "lit" and len(it.get("runs") or []) > 1:
            for r in it["runs"]:
                cand = list(t["steps"])
                cand[i] = {**it, "runs": [r]}
                if attempt({**t, "steps": cand}):
                    break
    return t


def finding_matches(finding, vj):
    sigs = finding.get("sigs")
    if sigs is not None and vj.get("sig") not in sigs:
        return False
    return True

"""C16 - message data items are mutually consistent and faithful to what was stored."""
from __future__ import annotations

import email
import email.header
import os
import re

from hypothesis import strategies as st

from .. import REPO
from ..driver import Hang, World
from ..gen import c16_msgs as G
from ..run import CaseResult, Violation, case_hash, open_ids

ID = "C16"
LEVEL = "exploration"
RULE = (
    "Hypothesis-generated cases of 1-3 (quick) / 1-4 (thorough) steps; a step = one raw RFC 5322/MIME message built byte by byte (classes: plain, "
    "rich header sets [quoted specials, RFC 2047 words, raw 8-bit, folded/long/duplicate/empty fields], QP/base64/8-bit "
    "leaves, multipart up to depth 3 with preamble/epilogue/missing closing delimiter/header-less parts, message/rfc822 "
    "at top level or nested, empty body, no blank line, missing final newline, LF or CRLF endings) or a file of the "
    "repository's fixture corpus, stored by IMAP APPEND, by MH delivery (exact octets written as LF or CRLF file, or "
    "through stdlib mailbox.MH) or by COPY of an appended/delivered message; then RFC822.SIZE, BODY[], BODY[HEADER], "
    "BODY[TEXT], RFC822, RFC822.HEADER, RFC822.TEXT, BODY[1], BODY[p]/BODY[p.MIME] for every part reached through "
    "multipart containers, BODY[p.HEADER]/BODY[p.TEXT] for message/rfc822 parts and 1-4 generated partial ranges "
    "(inside, at the end, beyond the end) are fetched TWICE and compared with the oracle clauses. extra() stores every "
    "fixture file (27) by each of the three paths (bounded exhaustive). Non-trivial = a stored-and-fetched message that "
    "is multipart, message/rfc822, contains 8-bit octets or lacks the final newline; distinct = distinct trace hash."
)
ASSUMPTIONS = [
    "commands run one at a time on one session; DB/executor latency zero",
    "APPEND faithfulness is judged field-wise (ordered (name, unfolded value) list; values equal octet-wise modulo white "
    "space, or equal after RFC 2047 decoding) and body-wise (same MIME tree, same part header fields, same decoded leaf "
    "content modulo line-ending form and trailing line breaks); the stdlib email parser (compat32) is used symmetrically "
    "on the sent and on the returned octets only to decode transfer encodings",
    "an APPEND/FETCH that is refused or kills the connection is not a C16 matter: the step is counted as blocked",
    "BODY[p] / BODY[p.MIME] are compared with the octets between the boundary delimiters of the server's own BODY[] "
    "(independent splitter), modulo one trailing CRLF; only parts whose ancestors are all multipart/* are judged",
    "BODY[p.HEADER]+BODY[p.TEXT]=BODY[p] for message/rfc822 parts is RFC 3501's reading of the HEADER/TEXT relation for "
    "encapsulated messages and is reported under its own clause id (C16.nested.hdr-text)",
]

# Suggested ids for open known findings (honoured when the coordinator lists them):
#   c16-rfc822-top-hdr-text : clause C16.hdr-text, sig rfc822-top
#   c16-empty-body-hdr-text : clause C16.hdr-text, sig empty-body
OPEN = open_ids(ID)

CRLF = b"\r\n"
FIXDIR = os.path.join(REPO, "asimap", "test", "fixtures", "mhdir")


def strategy(tier, shard, nshards):
    mx = 3 if tier == "quick" else 4
    return st.fixed_dictionaries({"rseed": st.integers(0, 2**16), "steps": st.lists(G.step(tier), min_size=1, max_size=mx)})


def budget(tier):
    if tier == "quick":
        return {"examples": 90, "shards": 16, "guard_s": 900}
    return {"examples": 3000, "shards": 16, "guard_s": 7200}


# ------------------------------------------------------------ own analysis


def split_entity(ent: bytes):
    """(header block incl. the blank line, body, has_blank) of CRLF text."""
    if ent.startswith(CRLF):
        return CRLF, ent[2:], True
    i = ent.find(b"\r\n\r\n")
    if i < 0:
        return ent, b"", False
    return ent[: i + 4], ent[i + 4 :], True


def header_list(block: bytes):
    """Ordered [(lower-case name, unfolded value octets)] of a header block in
    either line-ending form; None when a line is not a field."""
    text = block.replace(b"\r\n", b"\n")
    i = text.find(b"\n\n")
    if text.startswith(b"\n"):
        return []
    if i >= 0:
        text = text[:i]
    out = []
    for line in text.split(b"\n"):
        if not line:
            continue
        if line[:1] in b" \t":
            if not out:
                return None
            out[-1][1] += b"\n" + line
            continue
        m = re.match(rb"([!-9;-~]+)[ \t]*:", line)
        if not m:
            return None
        out.append([m.group(1).lower(), line[m.end():]])
    return [(n, v) for n, v in out]


def norm_ws(v: bytes) -> bytes:
    return re.sub(rb"[ \t\r\n]+", b" ", v).strip()


def _dec8(b: bytes) -> str:
    try:
        return b.decode("utf-8")
    except UnicodeDecodeError:
        return b.decode("latin-1")


def semantic(v: bytes) -> str:
    """RFC 2047-decoded text of a field value with all white space removed."""
    s = norm_ws(v).decode("latin-1")
    try:
        parts = email.header.decode_header(s)
    except Exception:
        parts = [(s, None)]
    out = []
    for txt, cs in parts:
        if isinstance(txt, str):
            out.append(_dec8(txt.encode("latin-1", "replace")))
        else:
            try:
                if cs and cs.lower() not in ("unknown-8bit", "unknown"):
                    out.append(txt.decode(cs))
                else:
                    out.append(_dec8(txt))
            except Exception:
                out.append(_dec8(txt))
    return re.sub(r"\s+", "", "".join(out))


def mime_params(v: bytes):
    """(value, {param: unquoted value}) of a Content-Type / -Disposition field
    (own parser; quoting of a parameter value is not content)."""
    u = norm_ws(v)
    parts = []
    cur = bytearray()
    inq = False
    i = 0
    while i < len(u):
        c = u[i : i + 1]
        if inq and c == b"\\" and i + 1 < len(u):
            cur += u[i + 1 : i + 2]
            i += 2
            continue
        if c == b'"':
            inq = not inq
        elif c == b";" and not inq:
            parts.append(bytes(cur))
            cur = bytearray()
        else:
            cur += c
        i += 1
    parts.append(bytes(cur))
    main = parts[0].strip().lower()
    params = {}
    for x in parts[1:]:
        if not x.strip():
            continue
        k, _, val = x.partition(b"=")
        params[k.strip().lower()] = val.strip()
    return main, params


def broken_encoded_word(v: bytes) -> bool:
    import base64 as _b64
    import quopri as _qp

    for m in re.finditer(rb"=\?([^?\s]+)\?([bBqQ])\?([^?\s]*)\?=", v):
        cs, enc, txt = m.group(1).decode("latin-1"), m.group(2).lower(), m.group(3)
        try:
            raw = _b64.b64decode(txt + b"=" * (-len(txt) % 4)) if enc == b"b" else _qp.decodestring(txt.replace(b"_", b" "), header=False)
            raw.decode(cs.split("*")[0])
        except Exception:
            return True
    return False


ADDRESS_FIELDS = {b"from", b"to", b"cc", b"bcc", b"reply-to", b"sender", b"resent-from", b"resent-to", b"resent-cc"}


def addr_pairs(v: bytes):
    """[(display name, addr-spec)] by the stdlib's legacy RFC 822 address
    parser (not the one the server folds with); names RFC 2047-decoded."""
    import email.utils

    u = re.sub(r"\r?\n(?=[ \t])", "", v.decode("latin-1")).strip()
    return [(semantic(nm.encode("latin-1", "replace")), ad.lower()) for nm, ad in email.utils.getaddresses([u], strict=False)]


def compare_fields(sent, got):
    """None if the two ordered field lists agree, else (reason, detail)."""
    if [n for n, _ in sent] != [n for n, _ in got]:
        k = next((j for j in range(min(len(sent), len(got))) if sent[j][0] != got[j][0]), min(len(sent), len(got)))
        prev = norm_ws(sent[k - 1][1])[:160] if k else b""
        return "names", f"sent {len(sent)} fields, returned {len(got)}; the lists part after field #{k} ({sent[k - 1][0].decode() if k else '-'}: {prev!r}): sent next {[n.decode() for n, _ in sent[k:k + 3]]} returned next {[n.decode() for n, _ in got[k:k + 3]]}"
    for (n, a), (_, b) in zip(sent, got):
        if norm_ws(a) == norm_ws(b):
            continue
        if semantic(a) == semantic(b):
            continue
        if n in (b"content-type", b"content-disposition") and mime_params(a) == mime_params(b):
            continue
        if broken_encoded_word(a):
            continue  # an encoded word that is not a whole number of characters: outside RFC 2047, not judged
        if n in ADDRESS_FIELDS and addr_pairs(a) == addr_pairs(b):
            continue  # e.g. quotes that were not needed have been dropped
        if any(c > 127 for c in a):
            reason = "raw8bit"
        elif semantic(re.sub(rb'["\\\\]', b"", a)) == semantic(re.sub(rb'["\\\\]', b"", b)):
            reason = "quoting"  # only quotes / backslashes differ, but with a different meaning
        else:
            reason = "encoded-word" if b"=?" in a else "ascii"
        # a source line longer than 78 octets is what makes the server re-fold
        longest = max(len(x) for x in (n + b": " + a.lstrip()).replace(b"\r\n", b"\n").split(b"\n"))
        if reason != "raw8bit":
            reason += "/long-line" if longest > 78 else "/short-line"
        i = next((j for j in range(min(len(norm_ws(a)), len(norm_ws(b)))) if norm_ws(a)[j] != norm_ws(b)[j]), 0)
        return reason, f"field {n.decode()}: sent {norm_ws(a)[max(0, i - 40): i + 60]!r} returned {norm_ws(b)[max(0, i - 40): i + 60]!r} (first difference at {i} of the unfolded value)"
    return None


def raw_items(m):
    return [(n.lower().encode("latin-1", "replace"), v.encode("ascii", "surrogateescape") if isinstance(v, str) else str(v).encode("latin-1", "replace")) for n, v in m.raw_items()]


def body_tree(m, path="", out=None):
    """Flat list of (path, kind, field list, decoded content) of a compat32 message."""
    out = [] if out is None else out
    ctype = m.get_content_type()
    pl = m.get_payload()
    if isinstance(pl, list):
        if ctype == "message/rfc822" and len(pl) == 1:
            inner = pl[0]
            out.append((path, "rfc822", raw_items(inner), None))
            body_tree(inner, path + "/m", out)
        elif m.get_content_maintype() == "message":
            # message/delivery-status and friends: groups of fields separated by
            # blank lines; the number of blank lines is not content
            lines = []
            for blk in pl:
                for n, v in raw_items(blk):
                    lines.append(n + b":" + norm_ws(v))
                t = blk.get_payload()
                if isinstance(t, str):
                    lines.extend(x.strip() for x in t.encode("ascii", "surrogateescape").replace(b"\r\n", b"\n").split(b"\n") if x.strip())
            out.append((path, "leaf", None, b"\n".join(lines)))
        else:
            out.append((path, "multipart:%d" % len(pl), None, None))
            for i, p in enumerate(pl, 1):
                out.append((f"{path}/{i}", "part-header", raw_items(p), None))
                body_tree(p, f"{path}/{i}", out)
        return out
    cte = str(m.get("content-transfer-encoding", "")).strip().lower()
    try:
        data = m.get_payload(decode=True)
    except Exception:
        data = None
    if data is None:
        data = pl.encode("ascii", "surrogateescape") if isinstance(pl, str) else b""
    if cte != "base64":
        data = data.replace(b"\r\n", b"\n").rstrip(b"\n")
    out.append((path, "leaf", None, data))
    return out


def compare_bodies(sent_raw: bytes, got: bytes):
    a = body_tree(email.message_from_bytes(sent_raw))
    b = body_tree(email.message_from_bytes(got))
    if [(p, k) for p, k, _, _ in a] != [(p, k) for p, k, _, _ in b]:
        return "structure", f"MIME tree sent {[(p, k) for p, k, _, _ in a][:8]} returned {[(p, k) for p, k, _, _ in b][:8]}"
    for (p, k, fa, da), (_, _, fb, db) in zip(a, b):
        if fa is not None:
            c = compare_fields(fa, fb)
            if c:
                return "part-fields/" + c[0], f"part {p or '/'} ({k}): {c[1]}"
        if da is not None and da != db:
            i = next((j for j in range(min(len(da), len(db))) if da[j] != db[j]), min(len(da), len(db)))
            return "content", f"part {p or '/'}: decoded content differs at {i}: sent {da[max(0, i - 20): i + 30]!r} returned {db[max(0, i - 20): i + 30]!r} (len {len(da)} vs {len(db)})"
    return None


def boundary_of(hdr: bytes):
    fl = header_list(hdr) or []
    for n, v in fl:
        if n == b"content-type":
            u = re.sub(rb"\n[ \t]", b" ", v)
            m = re.search(rb'(?i);\s*boundary\s*=\s*(?:"((?:[^"\\]|\\.)*)"|([^;\s]+))', u)
            if m:
                if m.group(1) is not None:
                    return re.sub(rb"\\(.)", rb"\1", m.group(1))
                return m.group(2)
    return None


def split_parts(body: bytes, bnd: bytes):
    """Octets of the parts of a multipart body (CRLF text) per RFC 2046: the
    CRLF before a delimiter belongs to the delimiter.  Returns list of bytes or
    None (= not judged) per part."""
    delim = b"--" + bnd
    pos = 0
    marks = []  # (line start, after line end, is_close)
    n = len(body)
    while pos <= n:
        j = body.find(CRLF, pos)
        end = n if j < 0 else j
        line = body[pos:end]
        if line.startswith(delim):
            rest = line[len(delim):]
            if rest.strip(b" \t") == b"":
                marks.append((pos, n if j < 0 else j + 2, False))
            elif rest[:2] == b"--" and rest[2:].strip(b" \t") == b"":
                marks.append((pos, n if j < 0 else j + 2, True))
                break
        if j < 0:
            break
        pos = j + 2
    parts = []
    for i, (s, e, close) in enumerate(marks):
        if close:
            break
        if i + 1 < len(marks):
            nxt = marks[i + 1][0]
            if nxt - 2 >= e and body[nxt - 2 : nxt] == CRLF:
                parts.append(body[e : nxt - 2])
            else:
                parts.append(None)
        else:
            parts.append(None)  # no closing delimiter: not judged
    return parts


def part_paths(m, prefix=""):
    """[(path, kind)] for parts all of whose ancestors are multipart/*."""
    out = []
    pl = m.get_payload()
    if not (isinstance(pl, list) and m.get_content_maintype() == "multipart"):
        return out
    for i, p in enumerate(pl, 1):
        path = f"{prefix}{i}"
        sub = p.get_payload()
        if isinstance(sub, list) and p.get_content_type() == "message/rfc822":
            out.append((path, "rfc822"))
        elif isinstance(sub, list) and p.get_content_maintype() == "multipart":
            out.append((path, "multipart"))
            out.extend(part_paths(p, path + "."))
        else:
            out.append((path, "leaf"))
    return out


def analyse(raw: bytes):
    m = email.message_from_bytes(raw)
    lf = raw.replace(b"\r\n", b"\n")
    i = lf.find(b"\n\n")
    if lf.startswith(b"\n"):
        body = lf[1:]
        blank = True
    elif i >= 0:
        body = lf[i + 2 :]
        blank = True
    else:
        body = b""
        blank = False
    ctype = m.get_content_type()
    pl = m.get_payload()
    paths = part_paths(m)
    info = {
        "rfc822_top": ctype == "message/rfc822" and isinstance(pl, list),
        "multipart": isinstance(pl, list) and m.get_content_maintype() == "multipart",
        "rfc822_nested": any(k == "rfc822" for _, k in paths),
        "empty_body": body == b"",
        "no_blank": not blank,
        "has8": any(c > 127 for c in raw),
        "hdr8": any(c > 127 for c in (lf[: i + 1] if i >= 0 else lf)),
        "no_final_nl": not raw.endswith(b"\n"),
        "lf": b"\n" in raw and b"\r\n" not in raw,
        "paths": paths,
    }
    info["defective"] = has_defects(m)
    if info["rfc822_top"]:
        cls = "rfc822-top"
    elif info["empty_body"]:
        cls = "empty-body"
    elif info["rfc822_nested"]:
        cls = "rfc822-nested"
    elif info["multipart"]:
        cls = "multipart"
    elif info["has8"]:
        cls = "8bit"
    elif info["no_final_nl"]:
        cls = "no-final-nl"
    else:
        cls = "plain"
    if info["defective"]:
        cls += "+defect"
    info["cls"] = cls
    info["base_cls"] = cls.split("+")[0]
    return info


def has_defects(m) -> bool:
    """The stdlib parser found the MIME structure defective (missing or
    unmatched boundary, ...): such messages get their own signature class."""
    if any(type(d).__name__ not in ("MissingHeaderBodySeparatorDefect",) for d in m.defects):
        return True
    pl = m.get_payload()
    if isinstance(pl, list):
        return any(has_defects(p) for p in pl)
    return False


def nature(hdr: bytes, txt: bytes, whole: bytes) -> str:
    """How HEADER+TEXT misses the whole item (separates causes)."""
    if hdr + txt == whole + CRLF:
        return "one-crlf-too-many"
    if txt == whole:
        return "text-is-whole-item"
    if not whole.startswith(hdr):
        return "header-not-a-prefix"
    if whole.startswith(hdr) and not whole.endswith(txt):
        return "text-not-a-suffix"
    return "other"


def sec_kind(sec: str) -> str:
    if sec in ("", "HEADER", "TEXT"):
        return sec or "BODY[]"
    m = re.match(r"[\d.]*\d(?:\.(MIME|HEADER|TEXT))?$", sec)
    return "part" + ("." + m.group(1) if m and m.group(1) else "")


# ------------------------------------------------------------------ storage


def deliver_exact(w: World, folder: str, data: bytes, unseen: bool = True) -> int:
    """What an MH delivery agent (rcvstore, procmail ...) does: write the
    octets as the next numbered file, add it to `unseen`, touch the folder."""
    d = w.root / folder
    keys = w.folder_files(folder)
    k = (max(keys) + 1) if keys else 1
    with open(d / str(k), "wb") as f:
        f.write(data)
    if unseen:
        seqs = w.raw_sequences(folder)
        seqs.setdefault("unseen", set()).add(k)
        with open(d / ".mh_sequences", "w") as f:
            for name in sorted(seqs):
                if seqs[name]:
                    f.write(f"{name}: {' '.join(str(x) for x in sorted(seqs[name]))}\n")
    w.bump_mtime(folder)
    return k


def load_step_raw(stp) -> bytes:
    if "fixture" in stp:
        with open(os.path.join(FIXDIR, stp["fixture"]), "rb") as f:
            return f.read()
    return stp["raw"].encode("latin-1")


# ------------------------------------------------------------------ execute


class Blocked(Exception):
    def __init__(self, prop, why):
        super().__init__(why)
        self.prop = prop
        self.why = why


def execute(trace) -> CaseResult:
    res = CaseResult()
    w = World(rseed=trace["rseed"])
    transcript = []
    viol = []
    seen_v = set()
    state = {"s": None, "n": 0, "counts": {"inbox": 0, "dlv": 0, "dst": 0}}

    def v(clause, detail, sig=""):
        if (clause, sig) in seen_v:
            return
        seen_v.add((clause, sig))
        viol.append(Violation(ID, clause, detail, trace, sig))

    def sess():
        s = state["s"]
        if s is None or not s.alive:
            state["n"] += 1
            s = w.session("s%d" % state["n"])
            state["s"] = s
        return s

    async def select(box: str) -> int:
        r = await sess().cmd(b"SELECT " + box.encode())
        if not r.ok:
            raise Blocked("C06", f"SELECT {box} -> {r.status}")
        ex = r.untagged("EXISTS")
        n = ex[-1].num if ex else None
        if n != state["counts"][box]:
            raise Blocked("C13", f"SELECT {box}: EXISTS {n}, expected {state['counts'][box]}")
        return n

    async def fetch(n: int, atts: list[str]):
        """{response key: bytes|str} of one FETCH; None when refused."""
        s = sess()
        r = await s.cmd(b"FETCH %d (%s)" % (n, " ".join(atts).encode()))
        if not r.ok or r.watchdog or r.hang:
            transcript.append({"c": f"FETCH {n} ({' '.join(atts)[:70]})", "r": r.status, "closed": r.closed, "tail": r.raw[-90:].decode("latin-1")})
            return None
        out = {}
        for seq, items in r.fetches():
            if seq == n:
                out.update(items)
        return out

    async def fetch_group(n: int, atts: list[str], lost: list):
        got = await fetch(n, atts)
        if got is not None:
            return got
        # one unsupported section must not hide the others
        out = {}
        if len(atts) > 1:
            for a in atts:
                g = await fetch(n, [a])
                if g is None:
                    lost.append(a)
                else:
                    out.update(g)
        else:
            lost.extend(atts)
        return out

    def key_of(att: str) -> str:
        k = att.replace("BODY.PEEK[", "BODY[")
        k = re.sub(r"<(\d+)\.\d+>$", r"<\1>", k)
        return k.upper()

    def val(d, att):
        x = d.get(key_of(att))
        if isinstance(x, (bytes, bytearray)):
            return bytes(x)
        return None

    async def battery(n: int, secs: list[str], partials):
        """Fetch everything once; returns {att: bytes} plus SIZE."""
        lost = []
        got = {}
        base = ["RFC822.SIZE", "BODY.PEEK[]", "BODY.PEEK[HEADER]", "BODY.PEEK[TEXT]"]
        d = await fetch_group(n, base, lost)
        sz = d.get("RFC822.SIZE")
        if isinstance(sz, str) and sz.isdigit():
            got["RFC822.SIZE"] = int(sz)
        for a in base[1:]:
            got[a] = val(d, a)
        d = await fetch_group(n, ["RFC822", "RFC822.HEADER", "RFC822.TEXT"], lost)
        for a in ("RFC822", "RFC822.HEADER", "RFC822.TEXT"):
            got[a] = val(d, a)
        extra = [f"BODY.PEEK[{s}]" for s in secs if s not in ("", "HEADER", "TEXT")]
        for i in range(0, len(extra), 8):
            grp = extra[i : i + 8]
            d = await fetch_group(n, grp, lost)
            for a in grp:
                got[a] = val(d, a)
        for sec, o, cnt in partials:
            a = f"BODY.PEEK[{sec}]<{o}.{cnt}>"
            d = await fetch_group(n, [a], lost)
            got[a] = val(d, a)
        return got, lost

    async def do_step(idx: int, stp):
        raw = load_step_raw(stp)
        info = analyse(raw)
        cls = info["cls"]
        how = stp["how"]
        labels = {"how:" + how, "cls:" + cls}
        for k in ("has8", "hdr8", "no_final_nl", "lf", "multipart", "rfc822_top", "rfc822_nested", "empty_body", "no_blank"):
            if info[k]:
                labels.add(k)
        if "fixture" in stp:
            labels.add("fixture")
        labels.add("kind:" + stp.get("kind", "fixture"))
        tr = {"step": idx, "how": how, "cls": cls, "len": len(raw)}
        transcript.append(tr)
        s = sess()
        src_body = None
        sent = None  # octets whose fields / content must come back (APPEND)
        if how in ("append", "copy-a"):
            r = await s.cmd(b"APPEND inbox {%d}\r\n%s" % (len(raw), raw))
            if not r.ok:
                tr["append"] = f"{r.status} closed={r.closed} {r.raw[-100:].decode('latin-1')}"
                labels.add("append-refused" + ("-8bit" if info["has8"] else ""))
                raise Blocked("C06", "APPEND refused: " + tr["append"])
            state["counts"]["inbox"] += 1
            box = "inbox"
            sent = raw
        else:
            disk = stp.get("disk", "lf")
            if disk == "mh":
                w.deliver("dlv", [raw], unseen=True)
                data = None
            elif disk == "crlf":
                data = raw.replace(b"\r\n", b"\n").replace(b"\n", b"\r\n")
            else:
                data = raw.replace(b"\r\n", b"\n")
            if data is not None:
                deliver_exact(w, "dlv", data)
            labels.add("disk:" + disk)
            state["counts"]["dlv"] += 1
            box = "dlv"
        n = await select(box)
        if how.startswith("copy"):
            d = await fetch(n, ["BODY.PEEK[]"])
            src_body = val(d, "BODY.PEEK[]") if d else None
            if src_body is None:
                raise Blocked("C06", "source BODY[] not fetched")
            r = await sess().cmd(b"COPY %d dst" % n)
            if not r.ok:
                tr["copy"] = f"{r.status}"
                raise Blocked("C06", f"COPY refused: {r.status}")
            state["counts"]["dst"] += 1
            n = await select("dst")
        # sections the structure admits
        secs = ["", "HEADER", "TEXT", "1"]
        for p, kind in info["paths"][:10]:
            if p != "1":
                secs.append(p)
            secs.append(p + ".MIME")
            if kind == "rfc822":
                secs.extend([p + ".HEADER", p + ".TEXT"])
        first, lost1 = await battery(n, secs, [])
        full = {sec: first.get(f"BODY.PEEK[{sec}]") for sec in secs}
        partials = []
        for ps in stp.get("partials", []):
            sec = secs[ps["sec"] % len(secs)]
            L = len(full[sec]) if full.get(sec) is not None else 0
            if ps["mode"] == "abs":
                o = ps["k"]
            elif ps["mode"] == "end":
                o = max(0, L - ps["k"])
            else:
                o = L + ps["k"]
            t = (sec, o, max(1, int(ps["n"])))
            if (t[0], t[1]) not in [(x[0], x[1]) for x in partials]:
                partials.append(t)
        pfirst, lost1b = await battery_partials(n, partials)
        second, lost2 = await battery(n, secs, partials)
        first.update(pfirst)
        if lost1 or lost2 or lost1b:
            labels.add("section-refused")
            tr["refused"] = sorted(set(lost1 + lost2 + lost1b))[:6]
        body = first.get("BODY.PEEK[]")
        hdr = first.get("BODY.PEEK[HEADER]")
        txt = first.get("BODY.PEEK[TEXT]")
        if body is None:
            raise Blocked("C06", "BODY[] not returned")
        tr["size"] = first.get("RFC822.SIZE")
        tr["body_len"] = len(body)
        where = f"[{how} {cls} step {idx}] "
        # ---- size
        if first.get("RFC822.SIZE") is not None and first["RFC822.SIZE"] != len(body):
            v("C16.size", where + f"RFC822.SIZE {first['RFC822.SIZE']} but BODY[] has {len(body)} octets", cls)
        # ---- header + text
        if hdr is not None and txt is not None and hdr + txt != body:
            gate = {"rfc822-top": "c16-rfc822-top-hdr-text", "empty-body": "c16-empty-body-hdr-text"}.get(info["base_cls"])
            if gate and gate in OPEN:
                res.excluded.append(gate)
            else:
                v("C16.hdr-text", where + f"BODY[HEADER] ({len(hdr)}) + BODY[TEXT] ({len(txt)}) != BODY[] ({len(body)}): HEADER={hdr[-60:]!r} TEXT={txt[:60]!r} BODY[]={body[:50]!r}...{body[-40:]!r}", f"{info['base_cls']}/{nature(hdr, txt, body)}")
        # ---- RFC822 family
        for a, b in (("RFC822", "BODY.PEEK[]"), ("RFC822.HEADER", "BODY.PEEK[HEADER]"), ("RFC822.TEXT", "BODY.PEEK[TEXT]")):
            x, y = first.get(a), first.get(b)
            if x is not None and y is not None and x != y:
                v("C16.rfc822", where + f"{a} ({len(x)} octets) != {key_of(b)} ({len(y)} octets): {x[:60]!r} vs {y[:60]!r}", f"{cls}/{a}")
        # ---- partials
        for sec, o, cnt in partials:
            a = f"BODY.PEEK[{sec}]<{o}.{cnt}>"
            fl = full.get(sec)
            for run, d in (("1st", first), ("2nd", second)):
                got = d.get(a)
                if got is None or fl is None:
                    continue
                if got != fl[o : o + cnt]:
                    v("C16.partial", where + f"BODY[{sec}]<{o}.{cnt}> ({run}) returned {len(got)} octets {got[:40]!r}, slice of the {len(fl)}-octet item is {len(fl[o:o + cnt])} octets {fl[o:o + cnt][:40]!r}",
                      f"{sec_kind(sec)}/{'beyond' if o >= len(fl) else ('tail' if o + cnt > len(fl) else 'inside')}")
                    break
            if o >= (len(fl) if fl is not None else 0):
                labels.add("partial-beyond")
        # ---- repeat
        for a in sorted(set(first) | set(second)):
            if a == "RFC822.SIZE":
                if first.get(a) is not None and second.get(a) is not None and first[a] != second[a]:
                    v("C16.repeat", where + f"RFC822.SIZE {first[a]} then {second[a]}", f"{cls}/SIZE")
                continue
            x, y = first.get(a), second.get(a)
            if x is not None and y is not None and x != y:
                sk = a if a.startswith("RFC822") else sec_kind(a[a.index("[") + 1 : a.index("]")]) + ("/partial" if a.endswith(">") else "")
                i = next((j for j in range(min(len(x), len(y))) if x[j] != y[j]), min(len(x), len(y)))
                v("C16.repeat", where + f"{key_of(a)} differs between two fetches at octet {i}: {x[max(0, i - 30): i + 30]!r} vs {y[max(0, i - 30): i + 30]!r}", f"{cls}/{sk}")
        # ---- CRLF (BODY[] first; the other items only when BODY[] is clean, so
        # that one cause is one bucket)
        def crlf_fault(x):
            bad = re.search(rb"(?<!\r)\n", x)
            if bad:
                return "bare-lf", bad.start()
            if x and not x.endswith(CRLF):
                return "unterminated", len(x)
            return None

        cf = crlf_fault(body)
        if cf:
            hb = split_entity(body)[0]
            if cf[0] == "bare-lf" and body[cf[1] + 1 : cf[1] + 2] in (b" ", b"\t"):
                loc = "header-fold"  # inside a folded header field (top level or of a part)
            elif cf[1] < len(hb):
                loc = "header"
            else:
                loc = "body/" + cls
            v("C16.crlf", where + f"BODY[] {cf[0]} at octet {cf[1]} ({loc}): {body[max(0, cf[1] - 40): cf[1] + 12]!r}", f"{loc}/{cf[0]}")
        else:
            for sec in secs[1:]:
                x = full.get(sec)
                if not x:
                    continue
                cf = crlf_fault(x)
                if cf:
                    v("C16.crlf", where + f"BODY[{sec}] {cf[0]} at octet {cf[1]} although BODY[] is clean: {x[max(0, cf[1] - 40): cf[1] + 12]!r}", f"{cls}/{sec_kind(sec)}/{cf[0]}")
        # ---- parts against the server's own BODY[]
        if info["paths"] and body is not None:
            check_parts(body, info, full, where, cls)
        # ---- nested message/rfc822: HEADER + TEXT = the part
        for p, kind in info["paths"][:10]:
            if kind != "rfc822":
                continue
            ph, pt, pb = full.get(p + ".HEADER"), full.get(p + ".TEXT"), full.get(p)
            if ph is not None and pt is not None and pb is not None and ph + pt != pb:
                v("C16.nested.hdr-text", where + f"BODY[{p}.HEADER] ({len(ph)}) + BODY[{p}.TEXT] ({len(pt)}) != BODY[{p}] ({len(pb)}): TEXT starts {pt[:50]!r}, part starts {pb[:50]!r}", nature(ph, pt, pb))
        # ---- COPY
        if src_body is not None and body != src_body:
            i = next((j for j in range(min(len(body), len(src_body))) if body[j] != src_body[j]), min(len(body), len(src_body)))
            v("C16.copy.identical", where + f"BODY[] of the copy differs from its source at octet {i}: source {src_body[max(0, i - 30): i + 30]!r} copy {body[max(0, i - 30): i + 30]!r}", cls)
        # ---- APPEND faithfulness
        if sent is not None:
            sf = header_list(sent)
            gf = header_list(body)
            header_broken = False
            if sf is None:
                labels.add("sent-header-malformed")
                header_broken = True
            elif gf is None:
                header_broken = True
                bad = next((ln for ln in split_entity(body)[0].split(CRLF) if ln and ln[:1] not in b" \t" and not re.match(rb"[!-9;-~]+[ \t]*:", ln)), b"")
                v("C16.append.headers", where + f"the returned header block is not a field list any more; offending line {bad[:100]!r} in {split_entity(body)[0][:300]!r}", "unparsable")
            else:
                c = compare_fields(sf, gf)
                if c:
                    header_broken = c[0] == "names"
                    v("C16.append.headers", where + c[1], c[0])
            if not header_broken:  # a truncated header block makes the body comparison meaningless
                try:
                    c = compare_bodies(sent, body)
                except Exception as e:  # the stdlib could not decode one side: not judged
                    c = None
                    labels.add("body-compare-skipped")
                    tr["cmp_error"] = repr(e)[:80]
                if c:
                    v("C16.append.body", where + c[1], c[0] if c[0].startswith("part-fields") else f"{c[0]}/{cls}")
        if info["multipart"] or info["rfc822_top"] or info["rfc822_nested"] or info["has8"] or info["no_final_nl"]:
            res.nontrivial = True
            labels.add("nontrivial-step")
        return labels

    async def battery_partials(n, partials):
        lost = []
        got = {}
        for sec, o, cnt in partials:
            a = f"BODY.PEEK[{sec}]<{o}.{cnt}>"
            d = await fetch_group(n, [a], lost)
            got[a] = val(d, a)
        return got, lost

    def check_parts(body, info, full, where, cls):
        """BODY[p.MIME] / BODY[p] against the octets between the delimiters."""
        hdr, text, _ = split_entity(body)

        def walk(ent_hdr, ent_body, prefix, paths_here):
            bnd = boundary_of(ent_hdr)
            if bnd is None:
                return
            parts = split_parts(ent_body, bnd)
            for i, octets in enumerate(parts, 1):
                p = f"{prefix}{i}"
                kind = kinds.get(p)
                if kind is None or octets is None:
                    continue
                ph, pb, blank = split_entity(octets)
                if not blank:
                    continue  # header-only part: not judged
                mime = full.get(p + ".MIME")
                if mime is not None and mime != ph:
                    v("C16.part.content", where + f"BODY[{p}.MIME] {mime[:80]!r} is not the part's header block in BODY[] {ph[:80]!r}", f"{cls}/{kind}/MIME")
                got = full.get(p)
                if got is not None and got != pb and got != pb + CRLF:
                    j = next((k for k in range(min(len(got), len(pb))) if got[k] != pb[k]), min(len(got), len(pb)))
                    v("C16.part.content", where + f"BODY[{p}] ({len(got)} octets) is not the part's body in BODY[] ({len(pb)} octets); first difference at {j}: {got[max(0, j - 20): j + 30]!r} vs {pb[max(0, j - 20): j + 30]!r}", f"{cls}/{kind}/body")
                if kind == "multipart":
                    walk(ph, pb, p + ".", None)

        kinds = dict(info["paths"][:10])
        if info["multipart"]:
            walk(hdr, text, "", None)

    async def main():
        await w.boot()
        s = sess()
        for name in (b"dst", b"dlv"):
            r = await s.cmd(b"CREATE " + name)
            if not r.ok:
                raise RuntimeError(f"CREATE failed: {r.raw!r}")
        for idx, stp in enumerate(trace["steps"]):
            res.steps += 1
            try:
                labels = await do_step(idx, stp)
                res.labels.extend(sorted(labels))
            except Blocked as b:
                res.blocked = b.prop
                res.labels.append("blocked:" + b.why.split(":")[0][:30])
                transcript.append({"step": idx, "blocked": b.why[:200]})
                # mailbox counters may be off now; resynchronise them
                for box in ("inbox", "dlv", "dst"):
                    state["counts"][box] = len(w.folder_files(box))

    try:
        w.run(main())
    except Hang as e:
        res.blocked = "C06"
        transcript.append({"hang": str(e)[:120]})
    finally:
        res.vseconds = w.loop.time() - 1000.0
        w.close()
    res.violations = viol
    res.sample = transcript
    return res


# ---------------------------------------------------------------- extra()

FIX_PARTIALS = [
    {"sec": 0, "mode": "abs", "k": 0, "n": 1},
    {"sec": 1, "mode": "abs", "k": 77, "n": 100},
    {"sec": 2, "mode": "end", "k": 3, "n": 10},
    {"sec": 3, "mode": "beyond", "k": 5, "n": 7},
    {"sec": 4, "mode": "abs", "k": 10, "n": 65536},
]


def extra(tier, seed):
    """Bounded exhaustive: every fixture file by every storage path."""
    evaluations = 0
    nontrivial = []
    violations = []
    samples = []
    done = []
    for fx in G.FIXTURES:
        if not os.path.exists(os.path.join(FIXDIR, fx)):
            continue
        for how, disk in (("deliver", "lf"), ("deliver", "mh"), ("append", "lf"), ("copy-d", "lf"), ("copy-a", "lf")):
            trace = {"rseed": 1, "steps": [{"fixture": fx, "how": how, "disk": disk, "partials": FIX_PARTIALS}]}
            r = execute(trace)
            evaluations += 1
            done.append(f"{fx}:{how}:{disk}" + (":blocked" if r.blocked else ""))
            if r.nontrivial:
                nontrivial.append(case_hash(trace))
            for x in r.violations:
                violations.append(x.to_json())
            if fx == "one/19" and how == "deliver" and disk == "lf":
                samples.append(r.sample)
    return {
        "evaluations": evaluations,
        "nontrivial": nontrivial,
        "violations": violations,
        "samples": samples,
        "coverage": {"exhaustive": False, "bounded_slice_enumerated_completely": {"fixture_corpus_x_storage_paths": len(done), "blocked": [d for d in done if d.endswith(":blocked")]}},
    }


# ------------------------------------------------------------- shrink help


_SIMPLIFY = {"left": 900}  # executions spent on message shrinking per run (a widespread defect makes many buckets)


def simplify(trace, pred):
    """Shrink the single remaining message (drop lines) while every original
    (clause, sig) pair is still reported."""
    steps = trace.get("steps") or []
    if len(steps) != 1 or "raw" not in steps[0] or _SIMPLIFY["left"] <= 0:
        return trace
    want = {(x.clause, x.sig) for x in execute(trace).violations}
    if not want:
        return trace

    def ok(t):
        _SIMPLIFY["left"] -= 1
        got = {(x.clause, x.sig) for x in execute(t).violations}
        return want <= got

    stp = dict(steps[0])
    if len(stp.get("partials", [])) > 1:
        for ps in stp["partials"]:
            t = {"rseed": trace["rseed"], "steps": [dict(stp, partials=[ps])]}
            if ok(t):
                stp = t["steps"][0]
                break
    raw = stp["raw"]
    sep = "\r\n" if "\r\n" in raw else "\n"
    lines = raw.split(sep)
    runs = 0
    chunk = max(1, len(lines) // 2)
    while chunk >= 1 and runs < 60:
        i = 0
        progress = False
        while i < len(lines) and runs < 60:
            cand = lines[:i] + lines[i + chunk :]
            runs += 1
            t = {"rseed": trace["rseed"], "steps": [dict(stp, raw=sep.join(cand))]}
            if cand and ok(t):
                lines = cand
                progress = True
            else:
                i += chunk
        if chunk == 1 and not progress:
            break
        chunk = chunk // 2 if chunk > 1 else (1 if progress else 0)
    stp["raw"] = sep.join(lines)
    return {"rseed": trace["rseed"], "steps": [stp]}


def finding_matches(finding, vj):
    """An open finding matches by clause (+ optional extra `clauses`), by exact
    `sigs` or `sig_prefixes`, and - when it names a `trigger` - only if the
    failing history really contains that trigger (so that another cause with
    the same symptom is still reported)."""
    clauses = [finding.get("clause")] + list(finding.get("clauses", []))
    if vj.get("clause") not in clauses:
        return False
    sig = vj.get("sig") or ""
    sigs = finding.get("sigs")
    prefixes = finding.get("sig_prefixes")
    if sigs is not None or prefixes is not None:
        if not ((sigs and sig in sigs) or (prefixes and any(sig.startswith(p) for p in prefixes))):
            return False
    trig = finding.get("trigger")
    if trig == "long-header-line":
        # a stored message has a (header) line longer than 78 octets, which the
        # stdlib header parser re-folds when the message is rendered
        steps = (vj.get("trace") or {}).get("steps", [])
        raws = [st.get("raw", "") for st in steps if isinstance(st, dict)]
        if not any(len(line) > 78 for raw in raws for line in raw.split("\r\n")):
            return False
    return True

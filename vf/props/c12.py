"""C12 - an orderly restart changes nothing a client can see."""
from __future__ import annotations

from ..driver import Hang
from ..run import CaseResult, open_ids
from ..uidfam import Fam, trace_strategy

ID = "C12"
LEVEL = "exploration"
RULE = (
    "History generator of C02 (sparse UIDs after expunges, packed and unpacked folders, keyword flags, \\Noselect "
    "placeholders, renamed trees, empty mailboxes, subscriptions, deliveries) with restarts inserted at generated points "
    "(restart weight x4) and always one at the end; half of the restarts take the production idle-exit path (all clients "
    "gone, 30 virtual minutes pass, the management task ends, then shutdown) and half the direct shutdown path. Oracle: "
    "pure before/after comparison of observe_all() = LIST *, LSUB *, and per mailbox STATUS (MESSAGES UIDNEXT UIDVALIDITY "
    "UNSEEN) + EXAMINE + UID FETCH 1:* (FLAGS), normalised (no \\Recent, no \\Marked/\\Unmarked). Non-trivial = a restart "
    "with at least one mailbox whose UID list has a gap, or with a placeholder / renamed subtree present; distinct = "
    "distinct trace hash."
)
ASSUMPTIONS = [
    "the orderly exit is modelled in-process: IMAPUserServer.shutdown() after the management task has ended, then a new "
    "IMAPUserServer on the same directory (find_all_folders + management task), as asimapd_user does",
    "a SPECIAL-USE mailbox that is missing before the restart may exist afterwards",
]
OPEN = open_ids(ID)
SPECIAL = {"Junk", "Archive", "Sent Messages", "Drafts", "Deleted Messages"}


def strategy(tier, shard, nshards):
    return trace_strategy(tier, restart_w=8, ns_w=2)


def budget(tier):
    if tier == "quick":
        return {"examples": 60, "shards": 16, "guard_s": 900}
    return {"examples": 1500, "shards": 16, "guard_s": 7200}


def norm(snap):
    out = {"list": {}, "lsub": sorted(snap["__lsub__"]), "boxes": {}}
    for n, attrs in snap["__list__"].items():
        out["list"][n] = sorted(attrs)
    for name, info in snap.items():
        if name.startswith("__"):
            continue
        if info is None:
            out["boxes"][name] = None
            continue
        stt = info.get("status") or {}
        out["boxes"][name] = {
            "uidvalidity": info["uidvalidity"],
            "uidnext": info["uidnext"],
            "status": {k: stt.get(k) for k in ("MESSAGES", "UIDNEXT", "UIDVALIDITY", "UNSEEN")},
            "msgs": [(x["uid"], x["tag"], sorted(f for f in x["flags"] if f.lower() != "\\recent")) for x in info["msgs"]],
        }
    return out


def diff(a, b):
    """Differences that C12 forbids (b = after restart)."""
    out = []
    for n in sorted(set(a["list"]) | set(b["list"])):
        if n not in b["list"]:
            out.append(("list.lost", f"mailbox {n!r} is no longer listed"))
        elif n not in a["list"]:
            if n not in SPECIAL:
                out.append(("list.appeared", f"mailbox {n!r} appeared"))
        elif a["list"][n] != b["list"][n]:
            out.append(("list.attributes", f"LIST attributes of {n!r} changed {a['list'][n]} -> {b['list'][n]}"))
    if a["lsub"] != b["lsub"]:
        out.append(("lsub", f"subscriptions changed {a['lsub']} -> {b['lsub']}"))
    for n in sorted(set(a["boxes"]) & set(b["boxes"])):
        x, y = a["boxes"][n], b["boxes"][n]
        if x is None or y is None:
            if x != y:
                out.append(("selectable", f"{n!r} selectable before: {x is not None}, after: {y is not None}"))
            continue
        if x["uidvalidity"] != y["uidvalidity"]:
            out.append(("uidvalidity", f"UIDVALIDITY of {n!r} {x['uidvalidity']} -> {y['uidvalidity']}"))
        if x["uidnext"] != y["uidnext"]:
            out.append(("uidnext", f"UIDNEXT of {n!r} {x['uidnext']} -> {y['uidnext']}"))
        if x["status"] != y["status"]:
            out.append(("status", f"STATUS of {n!r} {x['status']} -> {y['status']}"))
        if [m[:2] for m in x["msgs"]] != [m[:2] for m in y["msgs"]]:
            out.append(("messages", f"(uid, message) list of {n!r} changed {[m[:2] for m in x['msgs']]} -> {[m[:2] for m in y['msgs']]}"))
        elif x["msgs"] != y["msgs"]:
            ch = [(p, q) for p, q in zip(x["msgs"], y["msgs"]) if p != q][:3]
            out.append(("flags", f"flags in {n!r} changed: {ch}"))
    return out


def execute(trace) -> CaseResult:
    f = Fam(trace, ID)
    nrestart = [0]

    async def restart(kind_idle: bool):
        before = norm(await f.observe_world(full=True))
        gap = any(
            b and b["msgs"] and [m[0] for m in b["msgs"]] != list(range(b["msgs"][0][0], b["msgs"][0][0] + len(b["msgs"])))
            for b in before["boxes"].values()
        )
        placeholder = any("\\Noselect" in a for a in before["list"].values())
        if gap or placeholder or "rename" in f.labels:
            f.nontrivial = True
        if gap:
            f.labels.add("restart-with-uid-gap")
        if placeholder:
            f.labels.add("restart-with-placeholder")
        if kind_idle:
            f.labels.add("restart-idle-exit")
            # production path: every client disconnects, 30 minutes pass, the management task returns
            for s in (f.cmd_s, f.obs):
                if s is not None and s.alive:
                    await s.cmd(b"LOGOUT")
            await f.w.settle(1900)
            mt = f.w.srv.management_task
            if mt is not None and not mt.done():
                f.v("C12.idle-exit.no-exit", "30 idle minutes passed and the management task has not ended the server")
        await f.w.restart()
        f.cmd_s = f.w.session("a")
        f.obs = f.w.session("o")
        f.known = {}
        f.note(op="restart", idle=kind_idle)
        after = norm(await f.observe_world(full=True))
        for clause, detail in diff(before, after):
            f.v("C12." + clause, detail, "idle-exit" if kind_idle else "shutdown")

    async def main():
        await f.boot()
        for n in ("mb", "mb/sub", "other"):
            r = await f.cmd(b"CREATE " + n.encode())
            if r.ok:
                f.inc[n] = f.next_inc()
        await f.cmd(b"SUBSCRIBE mb/sub")
        for i in range(trace.get("prefill", 6)):
            await f.do({"op": "append", "box": 4 * (i % 2), "date": i})
        for s in f.prologue() + trace["steps"]:
            if s["op"] == "restart":
                nrestart[0] += 1
                await restart(kind_idle=nrestart[0] % 2 == 0)
            else:
                await f.do(s)
        nrestart[0] += 1
        await restart(kind_idle=nrestart[0] % 2 == 0)

    try:
        f.w.run(main(), budget=3_000_000)
    except Hang as e:
        f.v("C06.deadlock", str(e))
    finally:
        f.res.vseconds = f.w.loop.time() - 1000.0
        f.w.close()
    return f.finish()

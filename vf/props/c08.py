"""C08 - command parsing is total and means what RFC 3501 says.

Pure-function check on asimap.parse.IMAPClientCommand(text).parse(): no World, no event loop.
Generator and expected ASTs: vf/gen/c08_grammar.py; bounded exhaustive enumerations: vf/gen/c08_enum.py.
"""
from __future__ import annotations

import datetime as _dt
import posixpath

from ..gen import c08_grammar as GR
from ..run import CaseResult, Violation, open_ids

from asimap import parse as P  # noqa: E402  (sys.path is set by vf.run / vf.__init__)

ID = "C08"
LEVEL = "exploration"
RULE = (
    "Hypothesis grammar walk over RFC 3501 + IDLE/ID/MOVE/UNSELECT/UIDPLUS/LITERAL+/LIST-EXTENDED/LIST-STATUS/SPECIAL-USE "
    "producing (sentence, denoted AST) pairs for every command, UID form, nested search key, fetch section/partial, "
    "LIST-EXTENDED option, string encoding (atom / quoted with escapes / literal / literal+), INBOX spelling and date form "
    "(62 % of cases); the same sentences followed by junk that cannot continue any sentence (8 %); sentences invalid by "
    "construction (8 %); 1-3 mutations / truncations / splices of sentences (18 %) and token soup (4 %); plus bounded "
    "exhaustive enumerations in extra() (every mailbox command x every name spelling, fetch att x section x partial, all "
    "search keys to depth 2, every prefix / single-character deletion / substitution of a sentence corpus). Non-trivial = a "
    "grammar sentence containing a literal, a quoted escape, a nested search key or a body section; distinct = distinct trace hash."
)
ASSUMPTIONS = [
    "the parser input is the latin-1 decoded command with literals already assembled as '{n}\\r\\n<n octets>' and no trailing CRLF, exactly what IMAPClientProxy.run() and server.unauthenticated() pass",
    "only asimap.parse.BadCommand (and subclasses) is turned into a BAD reply by both callers; any other exception type escaping parse() is a dropped connection",
    "the internal name of INBOX is 'inbox'; search strings, header names, flags, charset, mechanism names are compared case-insensitively, sequence ranges modulo order of the two ends, AND-lists modulo flattening",
    "a mailbox name that differs from the denoted string only by os.path.normpath, or by the removal of the single leading '/' that is the server's name-space prefix, is recorded as an observation, not a violation",
    "a sentence whose mailbox name is absolute or has a '..' component may be rejected (refusing names that leave the mail root is C09's demand); if accepted it is compared like any other",
    "APPEND literal text is observed by wrapping asimap.parse.message_from_string for the duration of one parse",
]

OPEN = frozenset(open_ids(ID))
NONTRIVIAL_LABELS = {"lit", "qesc", "search:nested", "fetch:section"}
CAUSES = ("inbox-prefix", "quoted-escape", "inbox-encoded", "store-bare-flags", "brace-atom", "search-undraft")
_EPOCH = _dt.datetime(1970, 1, 1, tzinfo=_dt.timezone.utc)
_MISSING = object()


def strategy(tier, shard, nshards):
    if shard % 8 == 7:
        # one shard in eight leans on mutation / token soup (totality)
        return GR.trace_strategy(open_ids=OPEN, mix={"valid": 40, "junk": 5, "invalid": 10, "mutant": 35, "random": 10})
    return GR.trace_strategy(open_ids=OPEN)


def budget(tier):
    if tier == "quick":
        return {"examples": 6000, "shards": 16, "guard_s": 600, "case_guard_s": 20}
    return {"examples": 300000, "shards": 16, "guard_s": 7200, "case_guard_s": 20}


# ------------------------------------------------------------ canonical forms


def undecoded(s: str) -> str:
    """What a quoted string looks like when its escapes are NOT decoded."""
    return s.replace("\\", "\\\\").replace('"', '\\"')


def canon_seqnum(x):
    if isinstance(x, bool):
        return ["?", repr(x)]
    if isinstance(x, int):
        return x
    if x == "*":
        return "*"
    return ["?", repr(x)]


def canon_set(ms):
    """Sequence set -> list of n | "*" | [lo, hi] with the two ends of a range ordered ('*' is the largest)."""
    out = []
    if not isinstance(ms, (list, tuple)):
        return ["?", repr(ms)]
    for it in ms:
        if isinstance(it, (list, tuple)) and len(it) == 2:
            a, b = canon_seqnum(it[0]), canon_seqnum(it[1])
            if a == "*" and b == "*":
                out.append("*")
                continue
            if a == "*" or (isinstance(a, int) and isinstance(b, int) and a > b):
                a, b = b, a
            if a == b:
                out.append(a)
            else:
                out.append([a, b])
        else:
            out.append(canon_seqnum(it))
    return out


def norm_search(t):
    """Normalise a raw search tree: lower-case strings / flags, flatten AND, drop singleton AND, canonical sets."""
    op = t[0]
    if op == "and":
        kids = []
        for k in t[1]:
            k = norm_search(k)
            if k[0] == "and":
                kids.extend(k[1])
            else:
                kids.append(k)
        if len(kids) == 1:
            return kids[0]
        return ["and", kids]
    if op == "or":
        return ["or", norm_search(t[1]), norm_search(t[2])]
    if op == "not":
        return ["not", norm_search(t[1])]
    if op == "keyword":
        return ["keyword", t[1].lower() if isinstance(t[1], str) else ["?", repr(t[1])]]
    if op == "header":
        return ["header", _low(t[1]), _low(t[2])]
    if op in ("body", "text"):
        return [op, _low(t[1])]
    if op in ("seq", "uid"):
        return [op, canon_set(t[1])]
    return list(t)


def _low(s):
    return s.lower() if isinstance(s, str) else ["?", repr(s)]


def parsed_search(node):
    """IMAPSearch tree -> raw tree in the generator's vocabulary."""
    op = getattr(getattr(node, "op", None), "value", None)
    a = getattr(node, "args", {})
    try:
        if op == "and":
            return ["and", [parsed_search(k) for k in a["search_key"]]]
        if op == "or":
            k1, k2 = a["search_key"]
            return ["or", parsed_search(k1), parsed_search(k2)]
        if op == "not":
            return ["not", parsed_search(a["search_key"])]
        if op == "all":
            return ["all"]
        if op == "keyword":
            return ["keyword", a["keyword"]]
        if op == "header":
            return ["header", a["header"], a["string"]]
        if op in ("body", "text"):
            return [op, a["string"]]
        if op in ("before", "on", "since", "sentbefore", "senton", "sentsince"):
            d = a["date"]
            return [op, [d.year, d.month, d.day]]
        if op in ("larger", "smaller"):
            return [op, a["n"]]
        if op == "message_set":
            return ["seq", a["msg_set"]]
        if op == "uid":
            return ["uid", a["msg_set"]]
    except Exception as e:  # malformed node: show it
        return ["?", f"{op}: {type(e).__name__}: {e}"]
    return ["?", repr(op)]


def canon_section(sec):
    if sec is None:
        return None
    out = []
    for p in sec:
        if isinstance(p, int) and not isinstance(p, bool):
            out.append(p)
        elif isinstance(p, str):
            out.append(p.lower())
        elif isinstance(p, (list, tuple)) and len(p) == 2:
            out.append([str(p[0]).lower(), [_low(h) for h in p[1]]])
        else:
            out.append(["?", repr(p)])
    return out


def parsed_fetch_att(att):
    a = getattr(getattr(att, "attribute", None), "value", None)
    if a in ("rfc822.header", "rfc822.text"):
        # alternative representation of the RFC's equivalences
        return {"a": "body", "section": ["header" if a.endswith("header") else "text"], "partial": None, "peek": a.endswith("header")}
    if a == "body":
        part = getattr(att, "partial", None)
        return {
            "a": "body",
            "section": canon_section(getattr(att, "section", None)),
            "partial": list(part) if isinstance(part, (list, tuple)) else part,
            "peek": bool(getattr(att, "peek", False)),
        }
    if a == "bodystructure":
        return {"a": a, "ext": bool(getattr(att, "ext_data", True))}
    return {"a": a}


def canon_expected_att(e):
    e = dict(e)
    if "section" in e:
        e["section"] = canon_section(e["section"])
    return e


def flags_canon(fl):
    if not isinstance(fl, (list, tuple)):
        return ["?", repr(fl)]
    return [_low(f) for f in fl]


# ------------------------------------------------------------------ comparison


def tree_cmp(exp, got):
    """0 = equal; 1 = equal except that some strings still carry their quoted-string escapes; 2 = different."""
    if isinstance(exp, str):
        if exp == got:
            return 0
        if isinstance(got, str) and got == undecoded(exp):
            return 1
        return 2
    if isinstance(exp, list):
        if not isinstance(got, (list, tuple)) or len(got) != len(exp):
            return 2
        r = 0
        for e, x in zip(exp, got):
            r = max(r, tree_cmp(e, x))
            if r == 2:
                return 2
        return r
    if isinstance(exp, dict):
        if not isinstance(got, dict) or len(got) != len(exp):
            return 2
        return tree_cmp([[k, exp[k]] for k in exp], [[k, got[k]] for k in got])
    if isinstance(exp, bool) or isinstance(got, bool):
        return 0 if (exp is got) else 2
    return 0 if exp == got else 2


class Judge:
    def __init__(self, trace):
        self.trace = trace
        self.cause = trace.get("cause")
        self.out = []  # (clause, sig, detail)
        self.obs = []
        self.explained_leftover = False

    def v(self, clause, sig, detail):
        self.out.append((clause, sig, detail))

    def field(self, field, exp, got):
        r = tree_cmp(exp, got)
        if r == 1:
            self.v("C08.quoted-escape", "value", f"{field}: the line denotes {exp!r} but the parser yields {got!r} (quoted-string escapes not decoded)")
        elif r == 2:
            self.v("C08.ast", field, f"{field}: the line denotes {exp!r}, parsed {got!r}")

    def ifield(self, field, exp, got):
        self.field(field, _low(exp), _low(got) if isinstance(got, str) else got)

    def mailbox(self, field, exp, got, leftover):
        if got == exp:
            return
        if not isinstance(got, str):
            self.v("C08.ast", field, f"{field}: the line denotes {exp!r}, parsed {got!r}")
            return
        if got == "inbox" and leftover != "" and exp.lower().startswith("inbox") and exp.lower() != "inbox":
            self.explained_leftover = True
            self.v("C08.inbox-prefix", "value", f"{field}: the line names mailbox {exp!r} but the parser yields 'inbox' (rest {leftover[:30]!r} left unparsed)")
            return
        if exp == "inbox" and got.lower() == "inbox":
            self.v("C08.inbox-encoded", "value", f"{field}: the line names INBOX (as a quoted string / literal) but the parser yields {got!r}, which is not the inbox")
            return
        if self.cause == "brace-atom" and "}" in exp and leftover.startswith("}") and got in (exp[: exp.index("}")], posixpath.normpath(exp[: exp.index("}")])):
            self.explained_leftover = True
            self.v("C08.brace-atom", "value", f"{field}: the line names mailbox {exp!r} ('}}' is an ATOM-CHAR) but the parser yields {got!r} (rest {leftover[:30]!r} left unparsed)")
            return
        und = undecoded(exp)
        if und != exp and (got == und or got == posixpath.normpath(und)):
            self.v("C08.quoted-escape", "value", f"{field}: the line names mailbox {exp!r} but the parser yields {got!r} (quoted-string escapes not decoded)")
            return
        if exp != "" and posixpath.normpath(exp) == got:
            self.obs.append("obs:normpath-changed-name")
            return
        # `/` is the server's name-space prefix: `/x` and `x` are the same mailbox (user_server.get_mailbox
        # has always treated them so; since the C09 repair the parser removes the prefix itself, except from
        # the LIST reference).  Same category as normpath: an observation, not a different denotation.
        np_ = posixpath.normpath(exp) if exp != "" else exp
        if field != "list_reference" and np_.startswith("/") and not np_.startswith("//") and np_[1:] == got:
            self.obs.append("obs:namespace-prefix-removed")
            return
        self.v("C08.ast", field, f"{field}: the line names mailbox {exp!r}, parsed {got!r}")

    def pattern(self, field, exp, got):
        if isinstance(got, str) and exp.upper() == "INBOX" and got.upper() == "INBOX":
            return
        self.field(field, exp, got)


def _enum_names(x, dedupe):
    if not isinstance(x, (list, tuple, set, frozenset)):
        return x
    names = [str(getattr(i, "value", i)).lower() for i in x]
    return sorted(set(names)) if dedupe else sorted(names)


def compare(j: Judge, cmd, ast, captured):
    g = lambda name: getattr(cmd, name, _MISSING)  # noqa: E731
    leftover = cmd.input if isinstance(cmd.input, str) else ""
    j.field("tag", ast["tag"], g("tag"))
    j.field("command", ast["command"], str(g("command")) if g("command") is not _MISSING else _MISSING)
    j.field("uid_command", ast["uid"], g("uid_command"))
    c = ast["command"]
    if "msg_set" in ast:
        j.field("msg_set", canon_set(ast["msg_set"]), canon_set(g("msg_set")))
    for f in ("mailbox_name", "mailbox_src_name", "mailbox_dst_name"):
        if f in ast:
            j.mailbox(f, ast[f], g(f), leftover)
    if c == "login":
        j.field("user_name", ast["user_name"], g("user_name"))
        j.field("password", ast["password"], g("password"))
    elif c == "authenticate":
        j.ifield("auth_mechanism_name", ast["auth_mechanism_name"], g("auth_mechanism_name"))
    elif c == "status":
        j.field("status_att_list", sorted(set(ast["status_att_list"])), _enum_names(g("status_att_list"), True))
    elif c == "id":
        j.field("id_dict", ast["id_dict"], g("id_dict"))
    elif c == "append":
        j.field("flag_list", flags_canon(ast["flag_list"]), flags_canon(g("flag_list")))
        dt = g("date_time")
        if ast["date_time"] is None:
            j.field("date_time", None, dt)
        elif not isinstance(dt, _dt.datetime) or dt.tzinfo is None:
            j.v("C08.ast", "date_time", f"date_time: expected an aware datetime for epoch {ast['date_time'][0]}, parsed {dt!r}")
        else:
            secs = (dt - _EPOCH).total_seconds()
            if secs != ast["date_time"][0]:
                j.v("C08.ast", "date_time", f"date_time: the line denotes the instant {ast['date_time'][0]} s after the epoch, parsed {dt.isoformat()} = {secs}")
        if captured is not None and len(captured) == 1:
            if captured[0] != ast["message"]:
                j.v("C08.ast", "message", f"message literal: the line carries {ast['message'][:60]!r} ({len(ast['message'])} octets), the parser took {captured[0][:60]!r} ({len(captured[0])})")
        if g("message") is _MISSING:
            j.v("C08.ast", "message", "APPEND parsed but no message attribute")
    elif c == "search":
        if ast["charset"] is None:
            cs = g("charset")
            if cs is not _MISSING and cs is not None and str(cs).lower() != "us-ascii":
                j.v("C08.ast", "charset", f"charset: none given (US-ASCII), parsed {cs!r}")
        else:
            j.ifield("charset", ast["charset"], g("charset"))
        sk = g("search_key")
        j.field("search_key", norm_search(ast["search_key"]), norm_search(parsed_search(sk)) if sk is not _MISSING else _MISSING)
    elif c == "fetch":
        fa = g("fetch_atts")
        exp = [canon_expected_att(e) for e in ast["fetch_atts"]]
        j.field("fetch_atts", exp, [parsed_fetch_att(a) for a in fa] if isinstance(fa, (list, tuple)) else fa)
    elif c == "store":
        sa = g("store_action")
        j.field("store_action", ast["store_action"], getattr(sa, "name", sa))
        j.field("silent", ast["silent"], g("silent"))
        exp, got = flags_canon(ast["flag_list"]), flags_canon(g("flag_list"))
        if exp != got:
            if j.cause == "store-bare-flags" and len(got) < len(exp) and exp[: len(got)] == got:
                j.explained_leftover = True
                j.v("C08.store-bare-flags", "value", f"flag_list: the line gives the flags {exp!r} without parentheses, the parser took only {got!r} (rest {leftover[:30]!r} left unparsed)")
            else:
                j.v("C08.ast", "flag_list", f"flag_list: the line denotes {exp!r}, parsed {got!r}")
    elif c in ("list", "lsub"):
        for f in ("list_select_opts", "list_return_opts"):
            j.field(f, ast[f], _enum_names(g(f), False))
        j.field("list_status_atts", sorted(set(ast["list_status_atts"])), _enum_names(g("list_status_atts"), True))
        if ast["list_patterns"] is not None:
            got = g("list_patterns")
            if not isinstance(got, (list, tuple)) or len(got) != len(ast["list_patterns"]):
                j.v("C08.ast", "list_patterns", f"list_patterns: the line denotes {ast['list_patterns']!r}, parsed {got!r}")
            else:
                for i, (e, x) in enumerate(zip(ast["list_patterns"], got)):
                    j.pattern(f"list_patterns[{i}]", e, x)
        else:
            j.pattern("list_mailbox", ast["list_mailbox"], g("list_mailbox"))
            if g("list_patterns") not in (_MISSING, [], None, ()):
                j.v("C08.ast", "list_patterns", f"list_patterns: none given, parsed {g('list_patterns')!r}")


# --------------------------------------------------------------------- execute


def escapes_root(name) -> bool:
    """Lexically outside the mail root: absolute, or climbing with a '..' component."""
    return isinstance(name, str) and (name.startswith("/") or ".." in name.split("/"))


def run_parser(text, capture=False):
    """-> (outcome, cmd, exc, captured) ; outcome in ok / bad / exc"""
    cmd = P.IMAPClientCommand(text)
    captured = None
    orig = getattr(P, "message_from_string", None) if capture else None
    if orig is not None:
        captured = []

        def spy(s, *a, **kw):
            captured.append(s)
            return orig(s, *a, **kw)

        P.message_from_string = spy
    try:
        try:
            cmd.parse()
        finally:
            if orig is not None:
                P.message_from_string = orig
    except P.BadCommand as e:
        return "bad", cmd, e, captured
    except Exception as e:  # noqa: BLE001 - exactly what the property forbids
        return "exc", cmd, e, captured
    return "ok", cmd, None, captured


def exc_sig(e) -> str:
    msg = str(e)
    if isinstance(e, ValueError) and "Exceeds the limit" in msg:
        return "int-digits-limit"
    if isinstance(e, RecursionError):
        return "nesting-depth"
    import traceback

    tb = traceback.extract_tb(e.__traceback__)
    where = tb[-1].name if tb else "?"
    for fr in reversed(tb):
        if fr.filename.endswith("parse.py"):
            where = fr.name
            break
    return where


def judge(trace):
    """-> (violations as (clause, sig, detail), outcome string, observations)"""
    kind = trace["kind"]
    text = trace["text"]
    ast = trace.get("ast")
    outcome, cmd, exc, captured = run_parser(text, capture=bool(ast) and ast.get("command") == "append")
    out = []
    obs = []
    if outcome == "exc":
        out.append((f"C08.total.{type(exc).__name__}", exc_sig(exc), f"parse() of {text[:120]!r} (len {len(text)}) raised {type(exc).__name__}: {str(exc)[:120]} - not a BadCommand, so no BAD is sent and the connection is dropped"))
        return out, "exc:" + type(exc).__name__, obs
    if kind == "valid":
        cause = trace.get("cause")
        if outcome == "bad":
            if any(escapes_root(ast[f]) for f in ("mailbox_name", "mailbox_src_name", "mailbox_dst_name") if f in ast):
                # a server may refuse (NO or BAD) a name that leads outside the mail root - C09 even demands it
                obs.append("obs:escaping-name-refused")
                return out, "bad", obs
            if cause in CAUSES:
                out.append((f"C08.{cause}", "rejected", f"valid sentence {text[:160]!r} rejected: {exc}"))
            else:
                out.append(("C08.valid-rejected", ast["command"], f"valid sentence {text[:160]!r} rejected: {exc}"))
            return out, "bad", obs
        j = Judge(trace)
        compare(j, cmd, ast, captured)
        obs.extend(j.obs)
        left = cmd.input if isinstance(cmd.input, str) else repr(cmd.input)
        found = list(j.out)
        if cause == "brace-atom" and left.startswith("}"):
            # the atom was cut at '}': every field mismatch of this sentence is that one cause
            found = [("C08.brace-atom", "misparsed", d) if c == "C08.ast" else (c, s, d) for c, s, d in found]
            if not found:
                found.append(("C08.brace-atom", "misparsed", f"{text[:160]!r}: '}}' is an ATOM-CHAR (RFC 3501 atom-specials do not contain it) but the atom was cut there; left unparsed: {left[:40]!r}"))
        elif left != "" and not j.explained_leftover:
            if cause in CAUSES:
                found.append((f"C08.{cause}", "misparsed", f"valid sentence {text[:160]!r} accepted but {left[:40]!r} left unparsed"))
            else:
                found.append(("C08.unconsumed", ast["command"], f"valid sentence {text[:160]!r} accepted but {left[:40]!r} left unparsed"))
        seen = set()
        for c, s, d in found:
            if c != "C08.ast" and c[4:] in CAUSES and s in ("value", "unconsumed"):
                s = "misparsed"
            if (c, s) not in seen:
                seen.add((c, s))
                out.append((c, s, d))
        return out, "ok", obs
    if kind == "junk":
        if outcome == "ok":
            out.append(("C08.trailing-input", "", f"{trace['base'][:120]!r} followed by junk {trace['junk']!r} is accepted as {cmd.qstr()} (left unparsed: {str(cmd.input)[:40]!r})"))
        return out, outcome, obs
    if kind == "invalid":
        if outcome == "ok":
            if cmd.input != "":
                # accepted only because the rest of the line was never looked at
                out.append(("C08.trailing-input", "", f"invalid line {text[:120]!r} ({trace['cls']}) is accepted as {cmd.qstr()} (left unparsed: {str(cmd.input)[:40]!r})"))
            else:
                out.append(("C08.invalid-accepted", trace["cls"], f"line {text[:160]!r} is not a sentence of the grammar ({trace['cls']}) but is accepted as {cmd.qstr()}"))
        return out, outcome, obs
    return out, outcome, obs


def execute(trace) -> CaseResult:
    res = CaseResult()
    res.steps = 1
    out, outcome, obs = judge(trace)
    res.violations = [Violation(ID, c, d, trace, s) for c, s, d in out]
    labels = trace.get("labels", [])
    res.labels = ["kind:" + trace["kind"], "outcome:" + outcome.split(":")[0]] + list(labels) + obs
    if trace["kind"] == "invalid":
        res.labels.append("invalid:" + trace.get("cls", "?"))
    if trace["kind"] == "mutant":
        res.labels.extend("mut:" + o for o in sorted(set(trace.get("ops", []))))
    res.excluded = list(trace.get("excluded", []))
    res.nontrivial = trace["kind"] in ("valid", "junk") and bool(NONTRIVIAL_LABELS & set(labels))
    res.sample = [{"kind": trace["kind"], "text": trace["text"][:200], "outcome": outcome, "violations": [c for c, _, _ in out]}]
    return res


def finding_matches(finding, vj):
    sigs = finding.get("sigs")
    if sigs is not None and vj.get("sig") not in sigs:
        return False
    return True


def extra(tier, seed):
    from ..gen import c08_enum

    return c08_enum.run(tier, judge, ID, seed)

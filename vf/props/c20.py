"""C20 - a POP3 session is a stable snapshot and deletes only on QUIT.

History-based: 1-2 POP3 sessions (through IMAPClientProxy.run() -> POP3ClientProxy,
the path the front-end uses) interleaved with IMAP sessions that APPEND / STORE
\\Deleted / EXPUNGE / UID EXPUNGE / CLOSE / MOVE on INBOX, an MH delivery agent and
virtual-time advances (which let the mailbox management task resync and pack).

The oracle never models IMAP: the *truth* about INBOX is what an observer IMAP
session reads back (EXAMINE + FETCH UID/BODY.PEEK[]) after every IMAP step and
after every QUIT / drop.  Per POP3 session the oracle keeps the snapshot the
session itself announced when it was opened (a harness-issued UIDL, which in
asimap only reads two in-memory lists) and the DELE marks it acknowledged.

Clauses (sig in brackets separates causes; "stale-key:*" sigs are computed from
the MH files on disk and never decide a verdict):
  C20.framing [CMD:reason]          reply unparsable / unterminated / followed by stray data / bad list line
  C20.no-reply [CMD]                command not answered
  C20.snapshot.initial              UIDL of a fresh session != IMAP UIDs of INBOX at that moment
  C20.snapshot.numbering            LIST numbers != unmarked numbers of the snapshot
  C20.snapshot.uidl-changed         UIDL [n] differs from the session's own snapshot
  C20.snapshot.lost                 LIST n / UIDL n refused for an unmarked snapshot message
  C20.snapshot.phantom              +OK for a number outside the snapshot (LIST/UIDL/RETR/TOP)
  C20.size.changed                  LIST/LIST n size of a message differs from the size listed before
  C20.size.list-vs-retr [zero-after-removal|stale-key:*]  LIST/STAT size != octets RETR delivered
  C20.stat.count / .total / .shape  STAT disagrees with snapshot minus marks / with the listed sizes
  C20.list.header                   "+OK n messages (m octets)" disagrees with its own lines
  C20.retr.extra-crlf [retr]        RETR delivers announced+2 octets: extra CRLF before the terminator
  C20.retr.octets                   announced octets != delivered octets (other than the above)
  C20.retr.content [other-message:*] RETR n (unstuffed) != IMAP BODY[] of UID UIDL(n)
  C20.retr.refused / C20.top.refused  -ERR although the message is still in INBOX
  C20.top.content / C20.top.extra-crlf [top]   TOP: wrong message / wrong non-empty lines / extra CRLF at the end
  C20.dele.invalid-accepted / .repeat-accepted / .refused
  C20.rset.refused, C20.quit.err
  C20.quit.removed-unmarked / .marked-survived / .inbox-differs / .uid-changed [uids-reassigned]
  C20.no-quit.removed [drop|...] / C20.no-quit.uid-changed   something removed without QUIT
"""
from __future__ import annotations

import re

from hypothesis import strategies as st

from .. import wire
from ..driver import Hang, World, observe_mailbox, tagged_message
from ..run import CaseResult, Violation, open_ids

ID = "C20"
LEVEL = "exploration"
RULE = (
    "Hypothesis-generated histories of 6-26 steps (quick; 6-40 thorough) over a world whose INBOX is prefilled with 1-6 "
    "messages (MH delivery and IMAP APPEND; bodies drawn from a line pool with '.', '..', '.x', '..y', '. z', a 200-octet "
    "dotted line, blank lines, with and without final newline, empty bodies) and made UID-sparse by an initial expunge. "
    "Steps: POP3 commands on sessions p/q (open, STAT, LIST [n], UIDL [n], RETR n, TOP n k, DELE n, RSET, NOOP, CAPA, "
    "unknown command, QUIT, abrupt drop; numbers valid, 0, negative, beyond the count, non-numeric, missing, already "
    "marked) | IMAP commands on sessions a/b (APPEND, STORE +FLAGS \\Deleted, EXPUNGE, UID EXPUNGE, CLOSE, MOVE / UID MOVE "
    "to another mailbox, NOOP) | MH delivery | virtual-time advance of 1/6/12.5/25/30.25/45 s (management-task resync and, with the "
    "generated pack limit of 2-4 messages, folder packing; whole-second advances let a POP3 command coincide with a wake-up of the "
    "mailbox management task). Sessions still open after the last step QUIT / are dropped / stay open as the trace says. Non-trivial = an IMAP command changed the message list of INBOX "
    "(as read back by the observer) while a POP3 session was open, and that session later reached QUIT or was dropped; "
    "distinct = distinct trace hash."
)
ASSUMPTIONS = [
    "commands run one at a time on one cooperative loop with virtual time; DB/executor latency zero (interleavings inside a command are C10's job)",
    "the POP3 client is driven through the {len}\\n framing of the user-server side; the front-end's greeting/USER/PASS are not part of this path",
    "the harness issues one UIDL when it opens a POP3 session to learn the snapshot (asimap answers it from two in-memory lists; no mailbox access)",
    "the truth about INBOX is an IMAP read-back by an observer session; IMAP correctness itself is C01-C05's concern",
    "messages are identified by a unique X-VF-Tag header (no COPY into INBOX is generated)",
    "TOP: only framing/stuffing, the message identity and a superfluous CRLF before the terminator are judged; empty lines are otherwise ignored "
    "(RFC 1939's exact TOP line count is not part of the property)",
    "replies to out-of-range numbers are required to be -ERR only for DELE (as stated); for LIST/UIDL/RETR/TOP a +OK for a number outside the snapshot is judged as a phantom message",
]
OPEN = open_ids(ID)

# ------------------------------------------------------------------ generator

LINES = [
    ".", "..", "...", ".x", "..y", ". z", "plain line", "", "x.", "From me", "-- ", "tail",
    "." + "d" * 199, "  .indented", ".\t", "last.",
]
BADNUM = ["0", "-1", "abc", "", "1 1", "+c1", "+c7", "99999999999999999999", "1.0", "1x", "\xb2"]
BADTOPK = ["-1", "x", ""]
POPS = ["p", "q"]
IMAPS = ["a", "b"]


def msgspec():
    return st.fixed_dictionaries(
        {
            "b": st.lists(st.integers(0, len(LINES) - 1), min_size=0, max_size=6),
            "nl": st.booleans(),
        }
    )


def numarg():
    return st.one_of(
        st.builds(lambda i: {"k": "v", "i": i}, st.integers(0, 7)),
        st.builds(lambda i: {"k": "v", "i": i}, st.integers(0, 7)),
        st.builds(lambda i: {"k": "v", "i": i}, st.integers(0, 7)),
        st.builds(lambda i: {"k": "m", "i": i}, st.integers(0, 3)),  # an already marked number (if any)
        st.builds(lambda b: {"k": "bad", "v": b}, st.sampled_from(BADNUM)),
    )


@st.composite
def pop_step(draw):
    p = draw(st.sampled_from(["p", "p", "q"]))
    c = draw(
        st.sampled_from(
            [
                "open", "stat", "list", "listn", "uidl", "uidln", "retr", "retr", "retr", "top", "top",
                "dele", "dele", "dele", "dele", "dele", "rset", "rset", "noop", "capa", "unknown", "quit", "quit", "drop",
            ]
        )
    )
    s = {"op": "pop", "p": p, "c": c, "obs": draw(st.booleans())}  # obs: observe INBOX by IMAP just before an (implicit) open
    if c in ("listn", "uidln", "retr", "dele"):
        s["n"] = draw(numarg())
    elif c == "top":
        s["n"] = draw(numarg())
        s["k"] = draw(st.one_of(st.sampled_from(["0", "1", "2", "3", "5", "99"]), st.sampled_from(["0", "1", "2", "99"]), st.sampled_from(BADTOPK)))
    elif c == "quit":
        # virtual seconds that pass just before the QUIT (whole seconds can coincide with the mailbox management task)
        s["wait"] = draw(st.sampled_from([0, 0, 0, 1, 2, 3, 4, 7, 13]))
    elif c == "unknown":
        s["line"] = draw(st.sampled_from(["FOO", "RETR", "DELE", "TOP 1", "XYZZY 1", "LIST 1 2", "UIDL x", "retr", "USER x", "STAT 1"]))
    return s


@st.composite
def imap_step(draw):
    s = draw(st.sampled_from(IMAPS))
    c = draw(
        st.sampled_from(
["append", "append", "append", "del", "del", "expunge", "expunge", "delexp", "delexp", "delexp", "uidexpunge", "close", "move", "move", "uidmove", "noop", "undel"]
        )
    )
    d = {"op": "imap", "s": s, "c": c}
    if c == "append":
        d["msg"] = draw(msgspec())
    elif c in ("del", "undel", "delexp", "move", "uidmove", "uidexpunge"):
        d["set"] = draw(st.lists(st.integers(0, 9), min_size=1, max_size=3))
    return d


def any_step():
    return st.one_of(
        pop_step(), pop_step(), pop_step(), pop_step(), pop_step(), pop_step(),
        imap_step(), imap_step(), imap_step(),
        st.builds(lambda m, k: {"op": "deliver", "msgs": m[: k or 1]}, st.lists(msgspec(), min_size=1, max_size=2), st.integers(1, 2)),
        st.builds(lambda t: {"op": "advance", "t": t}, st.sampled_from([1, 6, 25, 25, 45, 12.5, 30.25])),
    )


def strategy(tier, shard, nshards):
    mx = 26 if tier == "quick" else 40
    return st.fixed_dictionaries(
        {
            "rseed": st.integers(0, 2**16),
            "pack": st.sampled_from([None, None, 2, 3, 4]),
            "prefill": st.lists(st.tuples(msgspec(), st.booleans()).map(lambda t: {"msg": t[0], "append": t[1]}), min_size=1, max_size=6),
            "predelete": st.lists(st.integers(0, 5), min_size=0, max_size=2),
            "steps": st.lists(any_step(), min_size=6, max_size=mx),
            # what happens to sessions p and q that are still open after the last step
            "end": st.lists(st.sampled_from(["quit", "quit", "drop", "leave"]), min_size=2, max_size=2),
        }
    )


def budget(tier):
    if tier == "quick":
        return {"examples": 260, "shards": 16, "guard_s": 900}
    return {"examples": 3800, "shards": 16, "guard_s": 7200}


# ------------------------------------------------------------------ helpers


def build_msg(tag: str, spec) -> bytes:
    lines = [LINES[i % len(LINES)] for i in spec.get("b", [])]
    body = "\r\n".join(lines)
    if lines and spec.get("nl", True):
        body += "\r\n"
    return tagged_message(tag, body=body)


def spec_labels(spec):
    lines = [LINES[i % len(LINES)] for i in spec.get("b", [])]
    out = []
    if any(x.startswith(".") for x in lines):
        out.append("msg:dot-line")
    if "." in lines:
        out.append("msg:lone-dot")
    if lines and not spec.get("nl", True):
        out.append("msg:no-final-newline")
    if not lines:
        out.append("msg:empty-body")
    if lines and lines[-1] == "" and spec.get("nl", True):
        out.append("msg:ends-with-blank-line")
    return out


def split_lines(b: bytes):
    """Lines of a CRLF-terminated text (no trailing empty element)."""
    if not b:
        return []
    parts = b.split(b"\r\n")
    if parts and parts[-1] == b"":
        parts.pop()
    return parts


def nonempty(lines):
    return [x for x in lines if x != b""]


def trailing_empties(lines):
    n = 0
    for x in reversed(lines):
        if x != b"":
            break
        n += 1
    return n


_TAG_RE = re.compile(rb"^X-VF-Tag:\s*(\S+)", re.I | re.M)


class PopState:
    """What the oracle knows about one open POP3 session."""

    def __init__(self, name, drv):
        self.name = name
        self.drv = drv
        self.count = 0
        self.uids = []  # by number-1
        self.tags = []  # by number-1 (from the truth at open time, by position)
        self.sizes = {}  # number -> size first listed
        self.announced = {}  # number -> size RETR announced
        self.delivered = {}  # number -> octets RETR delivered (normalised)
        self.marked = set()
        self.pending_stat = []  # (total, frozenset(unmarked numbers))
        self.mutated = False  # an IMAP command changed INBOX since the snapshot
        self.keymap = {}  # disk key -> tag at open (for the 'renumbered' sig only)
        self.ncmds = 0

    def unmarked(self):
        return [n for n in range(1, self.count + 1) if n not in self.marked]


# ------------------------------------------------------------------ execute


def execute(trace) -> CaseResult:
    res = CaseResult()
    w = World(rseed=trace["rseed"], pack_limit=trace.get("pack"))
    transcript = []
    viol = []
    labels = set()
    seen_keys = set()

    def v(clause, detail, sig=""):
        # one report per (clause, sig) and case is enough
        if (clause, sig) in seen_keys:
            return
        seen_keys.add((clause, sig))
        viol.append(Violation(ID, clause, detail, trace, sig))

    st_ = {
        "truth": [],  # list of [uid|None, tag] in mailbox order
        "known": {},  # (uidvalidity, uid) -> (tag, body)   observer cache
        "uv": None,
        "ntag": 0,
        "pending_content": [],  # (session name, number, uid, tag, normalised RETR body)
        "blocked": None,
        "tag_uid": {},  # tag -> IMAP UID first observed
    }
    pops: dict[str, PopState] = {}
    imaps = {}

    def new_tag():
        st_["ntag"] += 1
        return f"m{st_['ntag']}"

    def truth_tags():
        return [t for _, t in st_["truth"]]

    def disk_keymap():
        out = {}
        try:
            for k in w.folder_files("inbox"):
                try:
                    with open(w.root / "inbox" / str(k), "rb") as f:
                        m = _TAG_RE.search(f.read(2000))
                    out[k] = m.group(1).decode() if m else None
                except OSError:
                    pass
        except OSError:
            pass
        return out

    def renumbered(ps: PopState) -> str:
        """sig helper (never part of a verdict): did a message file change its MH key
        since the snapshot (pack), or was a key of the snapshot given to a new message?"""
        now = disk_keymap()
        inv_now = {t: k for k, t in now.items()}
        for k, t in ps.keymap.items():
            if t in inv_now and inv_now[t] != k:
                return "stale-key:renumbered"
        for k, t in ps.keymap.items():
            if k in now and now[k] != t:
                return "stale-key:key-reused"
        return ""

    async def observe(what: str, judge_uids: bool = True):
        """IMAP read-back of INBOX.  truth := observed rows + deliveries IMAP has not
        noticed yet (C13's concern whether/when it notices them)."""
        o = imaps.get("obs")
        if o is None or not o.alive:
            o = w.session("obs")
            imaps["obs"] = o
        info = await observe_mailbox(o, b"inbox", want_body=True, want_flags=False, known=st_["known"])
        if info is None or info.get("fetch_status") not in (None, "OK"):
            st_["blocked"] = "observer"
            raise _Blocked(f"observer cannot read INBOX after {what}")
        st_["uv"] = info["uidvalidity"]
        rows = [[x["uid"], x["tag"]] for x in info["msgs"]]
        if any(t is None for _, t in rows) or len(rows) != (info["exists"] or 0):
            st_["blocked"] = "observer"
            raise _Blocked(f"observer read-back incomplete after {what}: {rows} exists={info['exists']}")
        seen = {t for _, t in rows}
        pending = [[None, t] for u, t in st_["truth"] if u is None and t not in seen]
        st_["truth"] = rows + pending
        if pending:
            labels.add("delivery-not-yet-noticed-by-imap(tolerated)")
        changed = [(t, st_["tag_uid"][t], u) for u, t in rows if t in st_["tag_uid"] and st_["tag_uid"][t] != u]
        for u, t in rows:
            st_["tag_uid"].setdefault(t, u)
        if changed and judge_uids:
            # IMAP gave an existing message another UID with no POP3 QUIT involved: C02/C03's defect
            st_["blocked"] = "C03"
            raise _Blocked(f"IMAP UIDs changed after {what}: {changed}")
        # learn the tags of snapshot entries that had no UID yet when the session opened
        by_uid = {u: t for u, t in rows}
        for ps in pops.values():
            for i, t in enumerate(ps.tags):
                if t is None and ps.uids[i] in by_uid:
                    ps.tags[i] = by_uid[ps.uids[i]]
        return rows

    def exists_now(ps, n):
        """True / False / None (= the harness cannot tell yet) - is message n of the snapshot still in INBOX?"""
        uid, tag = ps.uids[n - 1], ps.tags[n - 1]
        if any(u == uid for u, _ in st_["truth"]):
            return True
        if tag is not None:
            return tag in truth_tags()
        if any(u is None for u, _ in st_["truth"]):
            return None
        return False

    def body_of(uid):
        e = st_["known"].get((st_["uv"], uid))
        if e is None:
            return None
        return e[1]

    # ---------------------------------------------------------------- IMAP actors
    async def imap_sess(name):
        s = imaps.get(name)
        if s is None or not s.alive:
            s = w.session(name)
            imaps[name] = s
            s.selected = False
        if not getattr(s, "selected", False):
            r = await s.cmd(b"SELECT inbox")
            check_imap(r, "SELECT")
            s.selected = r.ok
        return s

    def check_imap(r, what):
        if r.hang or r.watchdog or (r.closed and r.status is None):
            st_["blocked"] = "C06"
            raise _Blocked(f"IMAP {what} not answered (hang={r.hang} watchdog={r.watchdog} closed={r.closed})")

    async def do_imap(step):
        c = step["c"]
        s = await imap_sess(step["s"])
        before = truth_tags()
        n = len(st_["truth"])
        known_uids = [u for u, _ in st_["truth"] if u is not None]
        line = None
        if c == "append":
            tag = new_tag()
            m = build_msg(tag, step["msg"])
            labels.update(spec_labels(step["msg"]))
            labels.add("via:append")
            line = b"APPEND inbox {%d}\r\n%s" % (len(m), m)
            shown = f"APPEND inbox <{tag}>"
        elif c in ("del", "undel", "move", "delexp"):
            if not n:
                return
            seqs = sorted({1 + i % n for i in step["set"]})
            ss = ",".join(map(str, seqs)).encode()
            if c == "delexp":
                r0 = await s.cmd(b"STORE " + ss + b" +FLAGS.SILENT (\\Deleted)")
                check_imap(r0, "STORE")
                line = b"EXPUNGE"
            elif c == "del":
                line = b"STORE " + ss + b" +FLAGS (\\Deleted)"
            elif c == "undel":
                line = b"STORE " + ss + b" -FLAGS (\\Deleted)"
            else:
                line = b"MOVE " + ss + b" mb"
            shown = line.decode() if c != "delexp" else f"STORE {ss.decode()} +FLAGS (\\Deleted); EXPUNGE"
        elif c in ("uidmove", "uidexpunge"):
            if not known_uids:
                return
            us = sorted({known_uids[i % len(known_uids)] for i in step["set"]})
            ss = ",".join(map(str, us)).encode()
            line = (b"UID MOVE " + ss + b" mb") if c == "uidmove" else (b"UID EXPUNGE " + ss)
            shown = line.decode()
        elif c == "expunge":
            line = b"EXPUNGE"
            shown = "EXPUNGE"
        elif c == "close":
            line = b"CLOSE"
            shown = "CLOSE"
        else:
            line = b"NOOP"
            shown = "NOOP"
        r = await s.cmd(line)
        check_imap(r, shown)
        if c == "close":
            s.selected = False
        if not s.alive:
            imaps.pop(step["s"], None)
        rows = await observe(shown)
        after = [t for _, t in rows]
        changed = after != before
        transcript.append({"imap": step["s"], "c": shown[:70], "r": r.status, "inbox": [u for u, _ in rows]})
        if changed and r.status == "OK":
            removed = [t for t in before if t not in after]
            added = [t for t in after if t not in before]
            for ps in pops.values():
                ps.mutated = True
                if removed:
                    labels.add("mut:removed-during-session")
                    if any(t in ps.tags for t in removed):
                        labels.add("mut:snapshot-message-removed")
                if added:
                    labels.add("mut:added-during-session")

    # ---------------------------------------------------------------- POP3
    class _SessBroken(Exception):
        pass

    async def pcmd(ps: PopState, line: str, multiline: bool):
        """Send one POP3 command; returns a Pop3Reply. Framing faults end the session."""
        drv = ps.drv
        ps.ncmds += 1
        cname = (line.split() or ["?"])[0].upper()
        try:
            rep = await drv.cmd(line.encode("latin-1"), multiline=multiline)
        except wire.Malformed as e:
            rest = bytes(drv.writer.buf[drv.pos : drv.pos + 80])
            v("C20.framing", f"session {ps.name}: reply to '{line}' is malformed ({e.clause}): {rest!r}", f"{cname}:{e.clause}")
            transcript.append({"pop": ps.name, "c": line, "r": f"MALFORMED {e.clause}"})
            raise _SessBroken()
        if rep is None:
            rest = bytes(drv.writer.buf[drv.pos : drv.pos + 80])
            if multiline and rest.startswith(b"+OK"):
                v("C20.framing", f"session {ps.name}: multi-line reply to '{line}' never terminated: {rest!r}", f"{cname}:unterminated")
            else:
                v("C20.no-reply", f"session {ps.name}: no reply to '{line}' (closed={drv.writer.closed}) pending={rest!r}", cname)
            transcript.append({"pop": ps.name, "c": line, "r": "NO REPLY"})
            raise _SessBroken()
        await w.settle(0)
        if drv.pos != len(drv.writer.buf):
            rest = bytes(drv.writer.buf[drv.pos : drv.pos + 80])
            v("C20.framing", f"session {ps.name}: data after the end of the reply to '{line}': {rest!r}", f"{cname}:trailing-data")
            transcript.append({"pop": ps.name, "c": line, "r": "TRAILING DATA"})
            raise _SessBroken()
        t = {"pop": ps.name, "c": line, "r": rep.line.decode("latin-1")[:60]}
        if rep.body is not None:
            t["octets"] = len(rep.body)
        transcript.append(t)
        return rep

    def parse_pairs(ps, rep, what, second_numeric):
        """'n x' lines of LIST / UIDL."""
        out = []
        for ln in split_lines(rep.body):
            m = re.fullmatch(rb"(\d+) (\S+)", ln)
            if not m or (second_numeric and not m.group(2).isdigit()):
                v("C20.framing", f"session {ps.name}: {what} line {ln[:40]!r} is not '<number> <value>'", f"{what}:line-shape")
                return None
            out.append((int(m.group(1)), m.group(2)))
        return out

    def check_size(ps, n, size, where):
        old = ps.sizes.get(n)
        if old is None:
            ps.sizes[n] = size
        elif old != size:
            v("C20.size.changed", f"session {ps.name}: message {n} was listed with {old} octets, {where} now says {size}", where.split()[0] + (":" + renumbered(ps) if renumbered(ps) else ""))
        a = ps.delivered.get(n)
        if a is not None and a != size:
            sig = renumbered(ps)
            if size == 0 and exists_now(ps, n) is False:
                sig = "zero-after-removal"
            v("C20.size.list-vs-retr", f"session {ps.name}: {where} lists message {n} with {size} octets but RETR delivered {a}", sig)

    def check_pending_stat(ps):
        keep = []
        for total, nums in ps.pending_stat:
            if all(n in ps.sizes for n in nums):
                exp = sum(ps.sizes[n] for n in nums)
                if exp != total:
                    v("C20.stat.total", f"session {ps.name}: STAT announced {total} octets for messages {sorted(nums)} whose listed sizes add up to {exp}", "")
            else:
                keep.append((total, nums))
        ps.pending_stat = keep

    async def open_pop(name, obs: bool):
        if obs:
            await observe("pre-open")
        drv = w.pop3(name)
        ps = PopState(name, drv)
        await w.settle(0)
        truth = [list(x) for x in st_["truth"]]
        try:
            rep = await pcmd(ps, "UIDL", True)
        except _SessBroken:
            await drv.drop()
            return None
        if not rep.ok:
            v("C20.no-reply", f"session {name}: initial UIDL refused: {rep.line!r}", "UIDL-refused")
            await drv.drop()
            return None
        pairs = parse_pairs(ps, rep, "UIDL", True)
        if pairs is None:
            await drv.drop()
            return None
        nums = [n for n, _ in pairs]
        uids = [int(u) for _, u in pairs]
        if nums != list(range(1, len(nums) + 1)):
            v("C20.snapshot.numbering", f"session {name}: fresh session numbers its messages {nums}", "")
            await drv.drop()
            return None
        if any(b <= a for a, b in zip(uids, uids[1:])):
            v("C20.snapshot.initial", f"session {name}: UIDL values {uids} are not strictly increasing", "order")
        known = [u for u, _ in truth if u is not None]
        if uids[: len(known)] != known or len(uids) > len(truth) or len(uids) < len(known):
            v(
                "C20.snapshot.initial",
                f"session {name}: snapshot UIDL values {uids} but INBOX held UIDs {[u for u, _ in truth]} (None = delivered, not yet numbered) when the session opened",
                "observed-just-before" if obs else "",
            )
            # carry on with the positions we can map
        ps.count = len(uids)
        ps.uids = uids
        by_uid = {u: t for u, t in truth if u is not None}
        ps.tags = [by_uid.get(u) for u in uids]  # None: delivered, first numbered inside the server; learnt at the next read-back
        ps.keymap = disk_keymap()
        pops[name] = ps
        labels.add("pop:open-observed" if obs else "pop:open-unobserved")
        if len(truth) > len(known):
            labels.add("pop:open-with-unnumbered-deliveries")
        if len(pops) == 2:
            labels.add("pop:two-sessions-overlap")
        if any(u != i + 1 for i, u in enumerate(uids)):
            labels.add("pop:uid-differs-from-number")
        return ps

    def resolve_num(ps: PopState, arg):
        """-> (text, number or None, class) class in valid|marked|invalid"""
        k = arg["k"]
        if k == "v":
            if ps.count == 0:
                return "1", None, "invalid"
            n = 1 + arg["i"] % ps.count
            return str(n), n, ("marked" if n in ps.marked else "valid")
        if k == "m":
            mk = sorted(ps.marked)
            if not mk:
                if ps.count == 0:
                    return "1", None, "invalid"
                n = 1 + arg["i"] % ps.count
                return str(n), n, "valid"
            n = mk[arg["i"] % len(mk)]
            return str(n), n, "marked"
        txt = arg["v"]
        if txt.startswith("+c"):
            txt = str(ps.count + int(txt[2:]))
        return txt, None, "invalid"

    async def end_session(ps: PopState, how: str):
        """After QUIT (how='quit') / drop: INBOX must be what it was minus exactly the marked messages."""
        before = [list(x) for x in st_["truth"]]
        marked_uids = {ps.uids[n - 1] for n in ps.marked} if how == "quit" else set()
        pops.pop(ps.name, None)
        rows = await observe(how, judge_uids=False)
        sig = renumbered(ps)
        bsig = how if how != "quit" else ""
        numbered_before = {t for u, t in before if u is not None}
        unnumbered_before = {t for u, t in before if u is None}
        exp = [[u, t] for u, t in before if u is not None and u not in marked_uids]
        got_old = [[u, t] for u, t in rows if t in numbered_before]
        got_new = [[u, t] for u, t in rows if t not in numbered_before]
        clause_lost = "C20.quit.removed-unmarked" if how == "quit" else "C20.no-quit.removed"
        stop = False
        uid_before = {t: u for u, t in before if u is not None}
        if any(uid_before.get(t, u) != u for u, t in rows):
            # surviving messages got new IMAP UIDs: the mailbox was re-indexed as if new
            sig = "uids-reassigned"
            stop = True

        def join(*parts):
            return ":".join(x for x in parts if x)

        if [t for _, t in got_old] != [t for _, t in exp]:
            exp_t = [t for _, t in exp]
            got_t = [t for _, t in got_old]
            lost = [t for t in exp_t if t not in got_t]
            kept = [t for t in got_t if t not in exp_t]
            if lost:
                v(clause_lost, f"session {ps.name}: {how} with marks {sorted(ps.marked)} (UIDs {sorted(marked_uids)}) removed {lost}; INBOX before {before}, after {rows}", join(bsig, sig))
            if kept:
                v("C20.quit.marked-survived", f"session {ps.name}: QUIT answered +OK but marked {kept} (UIDs {sorted(marked_uids)}) still in INBOX {rows}", sig)
            if not lost and not kept:
                v("C20.quit.inbox-differs", f"session {ps.name}: INBOX after {how} {rows}, expected {exp} (order changed)", join(bsig, sig))
        else:
            moved = [(t, u0, u1) for (u0, t), (u1, _) in zip(exp, got_old) if u0 != u1]
            if moved:
                v("C20.quit.uid-changed" if how == "quit" else "C20.no-quit.uid-changed",
                  f"session {ps.name}: after {how} with marks {sorted(ps.marked)} the surviving messages have other IMAP UIDs (tag, before, after): {moved}; "
                  f"for IMAP clients and for other POP3 sessions these are removed and re-added messages", "uids-reassigned")
                stop = True
        for u, t in got_new:
            if t not in unnumbered_before:
                v("C20.quit.inbox-differs", f"session {ps.name}: INBOX after {how} contains {t} which was not there before", join(bsig, "unexpected-message"))
            elif u in marked_uids:
                v("C20.quit.marked-survived", f"session {ps.name}: QUIT answered +OK but marked UID {u} ({t}) still in INBOX {rows}", sig)
        if ps.mutated:
            res.nontrivial = True
        labels.add(f"end:{how}-" + ("with-marks" if ps.marked else "no-marks"))
        if ps.mutated:
            labels.add(f"end:{how}-after-imap-mutation")
        if stop:
            raise _Stop()

    async def do_pop(step):
        name = step["p"]
        c = step["c"]
        ps = pops.get(name)
        if c == "open":
            if ps is not None:
                return
            await open_pop(name, bool(step.get("obs")))
            return
        if ps is None:
            ps = await open_pop(name, bool(step.get("obs")))
            if ps is None:
                return
        labels.add("cmd:" + c)
        try:
            await pop_command(ps, step)
        except _SessBroken:
            # the stream is out of step: abandon the session like a dropped connection
            await ps.drv.drop()
            await end_session(ps, "drop-after-framing-fault")

    async def pop_command(ps: PopState, step):
        c = step["c"]
        name = ps.name
        if c == "stat":
            rep = await pcmd(ps, "STAT", False)
            m = re.fullmatch(rb"\+OK (\d+) (\d+)", rep.line)
            if not m:
                v("C20.stat.shape", f"session {name}: STAT answered {rep.line!r}", "")
                return
            cnt, total = int(m.group(1)), int(m.group(2))
            um = ps.unmarked()
            if cnt != len(um):
                v("C20.stat.count", f"session {name}: STAT says {cnt} messages; snapshot has {ps.count}, marked {sorted(ps.marked)}", "")
            else:
                ps.pending_stat.append((total, frozenset(um)))
                check_pending_stat(ps)
            return
        if c == "list":
            rep = await pcmd(ps, "LIST", True)
            if not rep.ok:
                v("C20.snapshot.lost", f"session {name}: LIST refused: {rep.line!r}", "LIST")
                return
            pairs = parse_pairs(ps, rep, "LIST", True)
            if pairs is None:
                return
            nums = [n for n, _ in pairs]
            if nums != ps.unmarked():
                v("C20.snapshot.numbering", f"session {name}: LIST shows numbers {nums}, expected {ps.unmarked()} (count {ps.count}, marked {sorted(ps.marked)})", "LIST" + (":after-imap" if ps.mutated else ""))
                return
            for n, sz in pairs:
                check_size(ps, n, int(sz), "LIST")
            m = re.match(rb"\+OK (\d+) messages? \((\d+) octets?\)", rep.line)
            if m:
                if int(m.group(1)) != len(pairs) or int(m.group(2)) != sum(int(s) for _, s in pairs):
                    v("C20.list.header", f"session {name}: LIST header {rep.line!r} disagrees with its {len(pairs)} lines", "")
            check_pending_stat(ps)
            return
        if c == "uidl":
            rep = await pcmd(ps, "UIDL", True)
            if not rep.ok:
                v("C20.snapshot.lost", f"session {name}: UIDL refused: {rep.line!r}", "UIDL")
                return
            pairs = parse_pairs(ps, rep, "UIDL", False)
            if pairs is None:
                return
            exp = [(n, str(ps.uids[n - 1]).encode()) for n in ps.unmarked()]
            if pairs != exp:
                v("C20.snapshot.uidl-changed", f"session {name}: UIDL shows {pairs}, the session's snapshot is {exp}", "after-imap" if ps.mutated else "")
            return
        if c in ("listn", "uidln"):
            txt, n, cls = resolve_num(ps, step["n"])
            cmd = "LIST" if c == "listn" else "UIDL"
            if txt == "":
                # a missing argument makes it the multi-line form: only framing is judged here
                await pcmd(ps, f"{cmd} ", True)
                return
            rep = await pcmd(ps, f"{cmd} {txt}", False)
            if cls == "invalid":
                labels.add("arg:invalid-number")
                if rep.ok:
                    v("C20.snapshot.phantom", f"session {name}: '{cmd} {txt}' answered {rep.line!r} though the snapshot has {ps.count} messages", cmd)
                return
            if cls == "marked":
                labels.add("arg:marked-number")
                if not rep.ok:
                    return
            if not rep.ok:
                v("C20.snapshot.lost", f"session {name}: '{cmd} {n}' refused ({rep.line!r}) for an unmarked message of the snapshot", cmd + (":after-imap" if ps.mutated else ""))
                return
            m = re.fullmatch(rb"\+OK (\d+) (\S+)", rep.line)
            if not m or int(m.group(1)) != n:
                v("C20.framing", f"session {name}: '{cmd} {n}' answered {rep.line!r}", f"{cmd}:line-shape")
                return
            if c == "listn":
                if not m.group(2).isdigit():
                    v("C20.framing", f"session {name}: 'LIST {n}' answered {rep.line!r}", "LIST:line-shape")
                    return
                check_size(ps, n, int(m.group(2)), "LIST n")
                check_pending_stat(ps)
            else:
                if m.group(2) != str(ps.uids[n - 1]).encode():
                    v("C20.snapshot.uidl-changed", f"session {name}: 'UIDL {n}' answered {rep.line!r}, the snapshot says {ps.uids[n - 1]}", "after-imap" if ps.mutated else "")
            return
        if c in ("retr", "top"):
            txt, n, cls = resolve_num(ps, step["n"])
            if c == "retr":
                line = f"RETR {txt}"
            else:
                if cls == "invalid" and " " in txt:
                    txt = "x"  # 'TOP 1 1 <k>' would be a different, valid command
                line = f"TOP {txt} {step.get('k', '0')}".rstrip()
            rep = await pcmd(ps, line, True)
            if cls == "invalid":
                labels.add("arg:invalid-number")
                if rep.ok:
                    v("C20.snapshot.phantom", f"session {name}: '{line}' answered {rep.line!r} though the snapshot has {ps.count} messages", c.upper())
                return
            if cls == "marked":
                labels.add("arg:marked-number")
                if not rep.ok:
                    return
            k = None
            if c == "top":
                ks = step.get("k", "0")
                if not ks.isdigit():
                    labels.add("arg:bad-top-lines")
                    return  # only framing is judged
                k = int(ks)
            tag = ps.tags[n - 1]
            uid = ps.uids[n - 1]
            if not rep.ok:
                if exists_now(ps, n) is True:
                    v("C20.retr.refused" if c == "retr" else "C20.top.refused",
                      f"session {name}: '{line}' refused ({rep.line!r}) although message {tag} (UID {uid}) is still in INBOX", renumbered(ps))
                elif exists_now(ps, n) is False:
                    labels.add("retr:message-gone")
                return
            if ps.mutated:
                labels.add(f"{c}:after-imap-mutation")
            exp = body_of(uid)
            if exp is not None:
                mt = _TAG_RE.search(exp[:2000])
                if tag is not None and (mt is None or mt.group(1).decode() != tag):
                    exp = None  # should not happen; do not judge on a confused cache
            body = rep.body
            if c == "retr":
                await judge_retr(ps, n, uid, tag, rep, body, exp)
            else:
                judge_top(ps, n, uid, tag, k, body, exp, line)
            return
        if c == "dele":
            txt, n, cls = resolve_num(ps, step["n"])
            rep = await pcmd(ps, f"DELE {txt}", False)
            if cls == "invalid":
                labels.add("dele:invalid-number")
                if rep.ok:
                    v("C20.dele.invalid-accepted", f"session {name}: 'DELE {txt}' answered {rep.line!r}; the snapshot has {ps.count} messages", "")
                return
            if cls == "marked":
                labels.add("dele:repeated")
                if rep.ok:
                    v("C20.dele.repeat-accepted", f"session {name}: second 'DELE {n}' answered {rep.line!r}", "")
                return
            if rep.ok:
                ps.marked.add(n)
                labels.add("dele:valid")
            elif exists_now(ps, n) is True:
                v("C20.dele.refused", f"session {name}: 'DELE {n}' refused ({rep.line!r}) for an unmarked message that is still in INBOX", "")
            return
        if c == "rset":
            rep = await pcmd(ps, "RSET", False)
            if rep.ok:
                if ps.marked:
                    labels.add("rset:with-marks")
                ps.marked = set()
            else:
                v("C20.rset.refused", f"session {name}: RSET answered {rep.line!r}", "")
            return
        if c == "noop":
            await pcmd(ps, "NOOP", False)
            return
        if c == "capa":
            await pcmd(ps, "CAPA", True)
            return
        if c == "unknown":
            line = step.get("line", "FOO")
            up = line.upper().split()
            # argument-less RETR/DELE/TOP and friends: single-line -ERR expected; a
            # 'LIST 1 2' / 'STAT 1' may be answered either way: only framing is judged.
            multiline = False
            rep = await pcmd(ps, line, multiline)
            if rep.ok and up[0] in ("RETR", "TOP") :
                # a +OK here starts a multi-line reply we did not ask to read
                v("C20.snapshot.phantom", f"session {name}: '{line}' answered {rep.line!r}", up[0] + ":no-arg")
                raise _SessBroken()
            if rep.ok and up[0] == "DELE":
                v("C20.dele.invalid-accepted", f"session {name}: '{line}' answered {rep.line!r}", "no-arg")
            if rep.ok and up[0] in ("LIST", "UIDL") and len(up) > 1:
                # e.g. 'LIST 1 2' accepted: single line form, nothing more to read
                pass
            return
        if c == "quit":
            if step.get("wait"):
                await w.settle(step["wait"])
                transcript.append({"advance": step["wait"]})
            rep = await pcmd(ps, "QUIT", False)
            if not rep.ok:
                v("C20.quit.err", f"session {name}: QUIT answered {rep.line!r}", "")
                await ps.drv.drop()
                await end_session(ps, "quit-refused")
                return
            await w.settle(0)
            if ps.drv.alive:
                # server should close after QUIT; not part of the property, but we must not leave it open
                await ps.drv.drop()
            await end_session(ps, "quit")
            return
        if c == "drop":
            await ps.drv.drop()
            await w.settle(0)
            await end_session(ps, "drop")
            return

    async def judge_retr(ps, n, uid, tag, rep, body, exp):
        name = ps.name
        m = re.match(rb"\+OK (\d+)\b", rep.line)
        announced = int(m.group(1)) if m else None
        norm = body
        extra = False
        if exp is not None and body == exp + b"\r\n":
            extra = True
        elif (exp is None or body != exp) and announced is not None and len(body) == announced + 2 and body.endswith(b"\r\n\r\n"):
            extra = True
        if extra:
            v("C20.retr.extra-crlf",
              f"session {name}: 'RETR {n}' announced {announced} octets and delivered {len(body)}: the message is followed by an additional CRLF before the terminator",
              "retr")
            norm = body[:-2]
        mt = _TAG_RE.search(norm[:2000])
        got_tag = mt.group(1).decode() if mt else None
        if tag is not None and got_tag != tag:
            sig = renumbered(ps)
            v("C20.retr.content", f"session {name}: 'RETR {n}' (UIDL {uid}, message {tag}) delivered message {got_tag}", "other-message" + (":" + sig if sig else ""))
            return  # sizes of two different messages are not comparable
        if announced is not None and announced != len(norm):
            v("C20.retr.octets", f"session {name}: 'RETR {n}' announced {announced} octets but delivered {len(norm)}", renumbered(ps))
        if announced is not None:
            ps.announced[n] = announced
        ps.delivered[n] = len(norm)
        sz = ps.sizes.get(n)
        if sz is not None and sz != len(norm):
            v("C20.size.list-vs-retr", f"session {name}: message {n} was listed with {sz} octets but RETR delivered {len(norm)}", renumbered(ps))
        if exp is None:
            st_["pending_content"].append((name, n, uid, tag, norm, renumbered(ps)))
        elif norm != exp:
            describe_content(name, n, uid, tag, norm, exp, renumbered(ps))

    def describe_content(name, n, uid, tag, norm, exp, sig):
        mt = _TAG_RE.search(norm[:2000])
        got_tag = mt.group(1).decode() if mt else None
        if tag is None:
            mt2 = _TAG_RE.search(exp[:2000])
            tag = mt2.group(1).decode() if mt2 else None
        if got_tag != tag:
            v("C20.retr.content", f"session {name}: 'RETR {n}' (UIDL {uid}, message {tag}) delivered message {got_tag}", "other-message" + (":" + sig if sig else ""))
            return
        i = 0
        while i < min(len(norm), len(exp)) and norm[i] == exp[i]:
            i += 1
        v("C20.retr.content",
          f"session {name}: 'RETR {n}' (UID {uid}) differs from IMAP BODY[] at octet {i}: POP3 {norm[max(0, i - 12) : i + 12]!r} vs IMAP {exp[max(0, i - 12) : i + 12]!r} (lengths {len(norm)}/{len(exp)})",
          sig)

    def judge_top(ps, n, uid, tag, k, body, exp, line):
        name = ps.name
        got = split_lines(body)
        mt = _TAG_RE.search(body[:2000])
        got_tag = mt.group(1).decode() if mt else None
        if tag is not None and got_tag != tag:
            v("C20.top.content", f"session {name}: '{line}' (UIDL {uid}, message {tag}) delivered headers of message {got_tag}", "other-message" + (":" + renumbered(ps) if renumbered(ps) else ""))
            return
        if exp is None:
            return
        full = split_lines(exp)
        try:
            sep = full.index(b"")
        except ValueError:
            return
        hdr, bd = full[:sep], full[sep + 1 :]
        ne_got = nonempty(got)
        ne_full = nonempty(hdr + bd)
        if ne_got != ne_full[: len(ne_got)] or len(ne_got) < len(nonempty(hdr)):
            i = 0
            while i < min(len(ne_got), len(ne_full)) and ne_got[i] == ne_full[i]:
                i += 1
            v("C20.top.content",
              f"session {name}: '{line}': non-empty line {i + 1} is {ne_got[i][:40] if i < len(ne_got) else None!r}, the message has {ne_full[i][:40] if i < len(ne_full) else None!r}",
              renumbered(ps))
            return
        if got[: len(hdr)] == hdr and len(got) > len(hdr) + 1 and got[len(hdr)] == b"" and got[len(hdr) + 1] == b"" and (not bd or bd[0] != b""):
            labels.add("top:blank-line-inserted-after-headers(not judged)")
        if k >= len(bd) and nonempty(bd):
            if trailing_empties(got) == trailing_empties(bd) + 1:
                v("C20.top.extra-crlf", f"session {name}: '{line}' covers the whole message and is followed by an additional CRLF before the terminator", "top")
            elif trailing_empties(got) != trailing_empties(bd):
                v("C20.top.content", f"session {name}: '{line}' ends with {trailing_empties(got)} empty lines, the message with {trailing_empties(bd)}", "trailing-empty-lines")

    # ---------------------------------------------------------------- main
    async def main():
        await w.boot()
        a = w.session("a")
        imaps["a"] = a
        a.selected = False
        r = await a.cmd(b"CREATE mb")
        if not r.ok:
            raise _Blocked("setup: CREATE mb failed")
        for pf in trace.get("prefill", []):
            tag = new_tag()
            m = build_msg(tag, pf["msg"])
            labels.update(spec_labels(pf["msg"]))
            if pf.get("append"):
                r = await a.cmd(b"APPEND inbox {%d}\r\n%s" % (len(m), m))
                if not r.ok:
                    raise _Blocked("setup: APPEND failed")
                labels.add("via:append")
            else:
                w.deliver("inbox", [m])
                labels.add("via:deliver")
        rows = await observe("prefill")
        pd = sorted({1 + i % len(rows) for i in trace.get("predelete", [])}) if rows else []
        if pd and len(pd) < len(rows):
            r = await a.cmd(b"SELECT inbox")
            a.selected = r.ok
            ss = ",".join(map(str, pd)).encode()
            await a.cmd(b"STORE " + ss + b" +FLAGS.SILENT (\\Deleted)")
            await a.cmd(b"EXPUNGE")
            await observe("predelete")
        transcript.append({"setup": [u for u, _ in st_["truth"]], "pack_limit": trace.get("pack")})
        for step in trace["steps"]:
            res.steps += 1
            op = step["op"]
            if op == "pop":
                await do_pop(step)
            elif op == "imap":
                await do_imap(step)
            elif op == "deliver":
                ms = []
                for spec in step["msgs"]:
                    tag = new_tag()
                    ms.append(build_msg(tag, spec))
                    labels.update(spec_labels(spec))
                    st_["truth"].append([None, tag])
                w.deliver("inbox", ms)
                labels.add("via:deliver")
                transcript.append({"deliver": [t for _, t in st_["truth"][-len(ms):]]})
            elif op == "advance":
                keys0 = w.folder_files("inbox")
                await w.settle(step["t"])
                keys1 = w.folder_files("inbox")
                transcript.append({"advance": step["t"]})
                if keys1 != keys0 and len(keys1) == len(keys0):
                    labels.add("pack-happened")
                    if pops:
                        labels.add("pack-happened-during-session")
        # sessions still open after the last step end as the trace says
        for name, how in zip(POPS, trace.get("end") or ["leave", "leave"]):
            if name in pops and how in ("quit", "drop"):
                await do_pop({"op": "pop", "p": name, "c": how})
        # deferred content comparisons (RETR of a message whose IMAP body was not yet known)
        if st_["pending_content"]:
            await observe("end")
            for name, n, uid, tag, norm, sig in st_["pending_content"]:
                exp = body_of(uid)
                if exp is None:
                    labels.add("retr:content-unverifiable(message never seen by IMAP)")
                    continue
                if norm != exp:
                    describe_content(name, n, uid, tag, norm, exp, sig)

    try:
        w.run(main())
    except Hang as e:
        res.blocked = "hang"
        transcript.append({"blocked": f"loop stuck: {e}"})
    except _Blocked as e:
        res.blocked = st_["blocked"] or "setup"
        transcript.append({"blocked": str(e)})
    except _Stop:
        transcript.append({"stopped": "case ended after a defect that invalidates the rest of the history"})
    finally:
        res.vseconds = w.loop.time() - 1000.0
        w.close()
    res.violations = viol
    res.sample = transcript
    res.labels = sorted(labels)
    return res


# ------------------------------------------------------------------ bounded exhaustive part


def extra(tier, seed):
    """Dot-stuffing / termination / size clauses, exhaustively: every body of up to 3 (quick) or 4
    (thorough) lines over {'.', '..', '.x', 'plain line', ''} with and without final newline is
    delivered (alternately by MH delivery and APPEND) and read with RETR and TOP n 0/1/2/99, LIST, STAT."""
    import itertools

    alphabet = [0, 1, 3, 6, 7]
    maxlen = 3 if tier == "quick" else 4
    bodies = [()]
    for k in range(1, maxlen + 1):
        bodies.extend(itertools.product(alphabet, repeat=k))
    specs = []
    for b in bodies:
        for nl in ((True, False) if b else (True,)):
            specs.append({"b": list(b), "nl": nl})
    out = {"evaluations": 0, "nontrivial": [], "violations": [], "samples": [], "coverage": {}}
    per = 6
    seen = set()
    for c0 in range(0, len(specs), per):
        chunk = specs[c0 : c0 + per]
        steps = [{"op": "pop", "p": "p", "c": "open", "obs": True}, {"op": "pop", "p": "p", "c": "list", "obs": True}]
        for i in range(len(chunk)):
            steps.append({"op": "pop", "p": "p", "c": "retr", "obs": True, "n": {"k": "v", "i": i}})
            for k in ("0", "1", "2", "99"):
                steps.append({"op": "pop", "p": "p", "c": "top", "obs": True, "n": {"k": "v", "i": i}, "k": k})
        steps.append({"op": "pop", "p": "p", "c": "stat", "obs": True})
        trace = {
            "rseed": 0, "pack": None, "predelete": [], "end": ["quit", "leave"],
            "prefill": [{"msg": sp, "append": bool(i % 2)} for i, sp in enumerate(chunk)],
            "steps": steps,
        }
        res = execute(trace)
        if res.blocked:
            continue
        out["evaluations"] += 1
        for vv in res.violations:
            if vv.key() not in seen:
                seen.add(vv.key())
                out["violations"].append(vv.to_json())
    out["coverage"] = {"exhaustive_bodies": {"alphabet": [LINES[i] for i in alphabet], "max_lines": maxlen, "messages": len(specs), "histories": out["evaluations"]}}
    return out


class _Blocked(Exception):
    pass


class _Stop(Exception):
    """End the case early (after a defect that invalidates the rest of the history)."""


def finding_matches(finding, vj):
    """An open finding may name one `clause` (checked by the runner) or a list `clauses`,
    and restrict the buckets by exact `sigs` and/or `sig_substrings` (e.g. "stale-key")."""
    cl = finding.get("clauses")
    if cl is not None and vj.get("clause") not in cl:
        return False
    sigs = finding.get("sigs")
    subs = finding.get("sig_substrings")
    sig = vj.get("sig") or ""
    if sigs is not None or subs is not None:
        if not ((sigs is not None and sig in sigs) or (subs is not None and any(x in sig for x in subs))):
            return False
    return True

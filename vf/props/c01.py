"""C01 - message sequence numbers never desynchronise between server and session."""
from __future__ import annotations

from hypothesis import strategies as st

from ..driver import Hang
from ..gen import steps as G
from ..hist import MBOXES, Runner, norm_flags
from ..run import CaseResult, open_ids
from . import c01_conc as CONC

ID = "C01"
LEVEL = "exploration"
RULE = (
    "Hypothesis-generated histories (8-30 abstract steps) over 2-3 sessions on shared mailboxes inbox/mb: SELECT/EXAMINE, "
    "APPEND, STORE (seq and UID, each with a fresh marker keyword), EXPUNGE, UID EXPUNGE, COPY, MOVE, CLOSE/UNSELECT, "
    "IDLE/DONE, NOOP, CHECK, FETCH (always with UID), external deliveries and virtual-time advances, commands one at a "
    "time in any cross-session order; 30% of cases start from the preamble 'two sessions selected, one expunges, the "
    "other holds undelivered EXPUNGEs'. Each session's byte stream is replayed into a view (EXISTS grows it, EXPUNGE n "
    "removes cell n) and every clause of C01 is evaluated on it. Non-trivial = some session received an EXISTS or "
    "EXPUNGE caused by another session or by a delivery (concurrent mode: two commands, one of them expunging, were in flight at the same time); distinct = distinct trace hash."
)
ASSUMPTIONS = [
    "in the history mode commands run one at a time; every fourth shard runs the concurrent mode (c01_conc.py): 2-3 sessions with commands in flight at the same time under a generated schedule, judged by the model-free view replay only",
    "the reference order of messages is the order of acknowledged additions; a delivery counts from the moment the file is in the folder",
    "a marker STORE is judged only when the session's view was in sync or every addressed number is explicit (no '*')",
]
OPEN = open_ids(ID)

PREAMBLE = [
    {"op": "select", "s": "a", "box": 1, "examine": False},
    {"op": "select", "s": "b", "box": 1, "examine": False},
    {"op": "store", "s": "a", "uid": False, "set": [{"k": "i", "v": 1}, {"k": "i", "v": 3}], "act": 0, "silent": False, "flags": [3]},
    {"op": "expunge", "s": "a", "uid": False, "set": []},
]


def strategy(tier, shard, nshards):
    n = 3 if shard % 2 else 2
    step = st.one_of(
        G.step_select(n), G.step_append(n), G.step_append(n), G.step_store(n), G.step_store(n), G.step_delete_flag(n), G.step_delete_flag(n),
        G.step_expunge(n, True), G.step_expunge(n, True), G.step_copy(n), G.step_copy(n), G.step_unselect(n), G.step_fetch(n), G.step_fetch(n),
        G.step_noop(n), G.step_noop(n), G.step_idle(n), G.step_deliver(), G.step_advance(),
    )
    mx = 22 if tier == "quick" else 34
    seq = st.fixed_dictionaries(
        {
            "rseed": st.integers(0, 2**16),
            "profile": st.just("plain"),
            "prefill": st.integers(3, 6),
            "preamble": st.integers(0, 9).map(lambda x: x < 3),
            "steps": st.lists(step, min_size=8, max_size=mx),
        }
    )
    # every fourth shard: commands of 2-3 sessions in flight at the same time (c01_conc.py)
    return CONC.strategy() if shard % 4 == 3 else seq


def budget(tier):
    if tier == "quick":
        return {"examples": 130, "shards": 16, "guard_s": 900}
    return {"examples": 3000, "shards": 16, "guard_s": 7200}


class C01Runner(Runner):
    def __init__(self, trace):
        super().__init__(trace, ID, {"C01"})
        self.nmark = 0

    def gen_flags(self, s, allow_alias=False):
        # marker stores: a fresh keyword per STORE makes "which message changed" exact
        if s.get("op") == "store" and s.get("flags") != [3]:
            self.nmark += 1
            return [f"mk{self.nmark}"]
        return super().gen_flags(s, allow_alias)


def execute(trace) -> CaseResult:
    if trace.get("kind") == "concurrent":
        return CONC.execute(trace)
    h = C01Runner(trace)

    async def check_marker(st_name, out, sig):
        """After an accepted non-UID marker STORE: exactly the messages bound to
        the addressed cells of the session's view carry the marker."""
        fl = out["flags"]
        if len(fl) != 1 or not fl[0].startswith("mk") or out["action"] != "+FLAGS":
            return
        if out["uid_mode"] or not out["r"].ok or out["examine"]:
            return
        mk = fl[0]
        name = out["box"]
        info = await h.observe(name)
        if info is None:
            return
        box = h.model.boxes[name]
        if [x["tag"] for x in info["msgs"]] == [m.tag for m in box.msgs]:
            for x, m in zip(info["msgs"], box.msgs):
                if m.uid is None:
                    m.uid = x["uid"]
        if any(m.uid is None for m in out["view_targets"] if m.alive):
            return
        got = sorted(x["uid"] for x in info["msgs"] if mk in x["flags"])
        exp = sorted(m.uid for m in out["view_targets"] if m.alive and m.uid is not None)
        if out["view_targets_exact"] and got != exp:
            h.v("C01.store.wrong-message", f"session {st_name}: 'STORE {out['text']}' accepted; marker {mk} landed on uids {got} but the addressed cells of its view are uids {exp}", sig)

    async def main():
        await h.boot()
        for bi in (0, 1):
            for i in range(trace.get("prefill", 3)):
                await h.do_step({"op": "append", "s": "a", "box": bi, "flags": [], "date": None})
        steps = (PREAMBLE if trace.get("preamble") else []) + trace["steps"]
        if trace.get("preamble"):
            h.labels.add("preamble-pending-expunges")
        for s in steps:
            s = dict(s)
            s["box"] = s.get("box", 0) % 2 if "box" in s else None
            if s["box"] is None:
                del s["box"]
            if s["op"] == "copy":
                s["dst"] = s["dst"] % 2
            view_targets = None
            exact = False
            if s["op"] == "store" and not s.get("uid"):
                stt = h.ss.get(s["s"])
                if stt is not None and stt.sel and stt.sess.alive and not stt.idle:
                    rs = h.resolve(stt, s["set"], False)
                    if rs is not None:
                        spec = rs[1]
                        exact = all(lo != "*" and hi != "*" for lo, hi in spec)
                        if exact:
                            seqs = set()
                            for lo, hi in spec:
                                seqs.update(range(min(lo, hi), max(lo, hi) + 1))
                            view_targets = [stt.view[i - 1] for i in sorted(seqs) if 1 <= i <= len(stt.view)]
            r = await h.do_step(s)
            if s["op"] == "store" and r is not None and getattr(h, "last_store", None) and h.last_store["r"] is r:
                out = h.last_store
                out["view_targets"] = view_targets or []
                out["view_targets_exact"] = exact and view_targets is not None
                await check_marker(s["s"], out, "store")
            if s["op"] == "fetch" and r is not None and r.ok and getattr(h, "last_fetch", None) and h.last_fetch["r"] is r:
                lf = h.last_fetch
                if not lf["ambiguous"]:
                    exp = sorted(m.uid for m in lf["targets"] if m.uid is not None)
                    got = sorted(u for _, u, _ in lf["got"])
                    if all(m.uid is not None for m in lf["targets"]) and got != exp:
                        h.v("C01.fetch.wrong-messages", f"session {s['s']}: FETCH returned uids {got}, its set denotes uids {exp}", "fetch-uid" if lf["uid_mode"] else "fetch")
        # final: every selected live session syncs and must equal the server's list
        for name, stt in list(h.ss.items()):
            if stt.sess.alive and stt.sel:
                await h.do_step({"op": "noop", "s": name, "check": False})
                await h.do_step({"op": "noop", "s": name, "check": False})
                if stt.sess.alive and stt.sel and not stt.dead:
                    # bind the view to the server's UID list
                    r = await h.run_cmd(stt, b"FETCH 1:* (UID)", "FETCH")
                    h.settle_cmd(stt)
                    if r.ok:
                        got = [u for _, u, _ in sorted((seq, int(items["UID"]), 0) for seq, items in r.fetches() if "UID" in items)]
                        info = await h.observe(stt.sel)
                        if info is not None:
                            exp = [x["uid"] for x in info["msgs"]]
                            if got != exp:
                                h.v("C01.final.uid-list", f"session {name}: FETCH 1:* (UID) gives {got}, the mailbox holds uids {exp}", "final")

    try:
        h.w.run(main())
    except Hang as e:
        h.v("C06.deadlock", str(e))
    except RuntimeError as e:
        if "setup" in str(e):
            h.blocked = "setup"
        else:
            raise
    finally:
        h.res.vseconds = h.w.loop.time() - 1000.0
        h.w.close()
    res = h.finish()
    res.nontrivial = h.cross > 0
    return res

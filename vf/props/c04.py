"""C04 - message flags follow IMAP STORE/FETCH semantics exactly."""
from __future__ import annotations

from hypothesis import strategies as st

from ..driver import Hang
from ..gen import steps as G
from ..hist import ALIAS_KEYWORDS, MBOXES, ODD_KEYWORDS, Runner, norm_flags
from ..run import CaseResult, open_ids

ID = "C04"
LEVEL = "exploration"
RULE = (
    "Hypothesis-generated histories (8-26 abstract steps, 2 sessions, mailboxes inbox/mb) of APPEND with flag lists, STORE "
    "(+FLAGS/-FLAGS/FLAGS x SILENT x UID x arbitrary sets x flag lists drawn from system flags, \\Recent, plain keywords "
    "over the atom alphabet and - in the 'alias' profile, half of the shards - keywords that collide with MH sequence names "
    "or contain ':'), FETCH with and without PEEK, COPY/MOVE, deliveries with/without `unseen`, NOOP/IDLE sync points. "
    "Oracle: reference flag model; after every step an observer reads FLAGS of every message, runs SEARCH <flag>/KEYWORD k/"
    "UNKEYWORD k, and .mh_sequences is read raw. Non-trivial = at least two STOREs on overlapping message sets with a "
    "keyword while a second session has the mailbox selected; distinct = distinct trace hash."
)
ASSUMPTIONS = [
    "commands run one at a time; flags are compared modulo \\Recent except in the two \\Recent clauses",
    "asimap exposes the MH `unseen` sequence as a pseudo-keyword: the model predicts unseen <=> not \\Seen",
    "keywords are compared case-sensitively (the generator never emits two spellings of one keyword)",
]
OPEN = open_ids(ID)


def strategy(tier, shard, nshards):
    n = 2
    step = st.one_of(
        G.step_select(n), G.step_append(n), G.step_store(n, True, recent=True), G.step_store(n, True, recent=True), G.step_store(n, True, recent=True),
        G.step_store(n, True), G.step_fetch(n, True), G.step_fetch(n, True), G.step_copy(n), G.step_noop(n), G.step_noop(n), G.step_idle(n),
        G.step_deliver(), G.step_expunge(n, True), G.step_expunge(n, True), G.step_unselect(n), G.step_advance(), G.step_advance(), G.steps_toggle(n), G.steps_toggle(n),
    )
    mx = 20 if tier == "quick" else 30
    return st.fixed_dictionaries(
        {
            "rseed": st.integers(0, 2**16),
            "profile": st.just("alias" if shard % 2 else "plain"),
            "kwx": st.just(True),
            "prefill": st.integers(2, 5),
            "presel": st.integers(0, 1).flatmap(lambda a: st.tuples(st.just(a), st.sampled_from([a, a, a, 1 - a, None]))),
            "steps": st.lists(step, min_size=8, max_size=mx).map(G.flatten),
            "pack_limit": st.sampled_from([None, None, 3, 4]),
        }
    )


def budget(tier):
    if tier == "quick":
        return {"examples": 90, "shards": 16, "guard_s": 900}
    return {"examples": 2500, "shards": 16, "guard_s": 7200}


class C04Runner(Runner):
    def __init__(self, trace):
        super().__init__(trace, ID, {"C04"})
        self.expect = {}  # session name -> {id(m): m}  changes that session must learn by its next sync point
        self.stores = []  # (box, set of msg ids, had keyword, observed by second session)
        self.nontrivial = False

    async def op_select(self, s):
        self.expect[s["s"]] = {}
        return await super().op_select(s)

    async def op_unselect(self, s):
        self.expect[s["s"]] = {}
        return await super().op_unselect(s)

    def flag_class(self, fl):
        if any(f in ALIAS_KEYWORDS for f in fl):
            return "alias"
        if any(f in ODD_KEYWORDS for f in fl):
            return "colon"
        return "plain"

    def on_sync(self, stt, what):
        exp = self.expect.get(stt.name, {})
        for mid, m in list(exp.items()):
            if not m.alive or m not in stt.view:
                continue
            rep = stt.flag_reports.get(mid)
            want = norm_flags(m.eff_flags())
            if rep is None:
                self.v("C04.propagation.missing", f"session {stt.name} reached {what} without a FETCH FLAGS for {m.tag} (uid {m.uid}) whose flags another session changed to {sorted(want)}", getattr(m, "cls", "plain"))
            elif rep[0] != want:
                self.v("C04.propagation.stale", f"session {stt.name} at {what}: last FETCH FLAGS for {m.tag} says {sorted(rep[0])}, flags are {sorted(want)}", getattr(m, "cls", "plain"))
        self.expect[stt.name] = {}
        stt.flag_reports = {}

    def changed(self, by, box_name, msgs, cls):
        for o in self.ss.values():
            if o.name != by and o.sel == box_name and o.sess.alive:
                d = self.expect.setdefault(o.name, {})
                for m in msgs:
                    m.cls = cls
                    d[id(m)] = m

    async def readback(self, what, sig):
        for name in MBOXES[:2]:
            box = self.model.boxes[name]
            info = await self.observe(name)
            if info is None:
                self.v("C06.unobservable", f"{name} cannot be examined after {what}")
                continue
            if name in self.need_resync or [x["tag"] for x in info["msgs"]] != [m.tag for m in box.msgs]:
                if name not in self.need_resync:
                    self.v("C05.messages", f"after {what}: {name} holds {[x['tag'] for x in info['msgs']]} expected {[m.tag for m in box.msgs]}")
                self.resync_model(name, info)
                continue
            for x, m in zip(info["msgs"], box.msgs):
                if m.uid is None:
                    m.uid = x["uid"]
                raw = set(x["flags"])
                if ("unseen" in raw) == ("\\Seen" in raw):
                    self.v("C04.seen-unseen", f"after {what}: {m.tag} (uid {m.uid}) in {name} reports {sorted(raw)}: \\Seen and unseen are not complements", sig)
                gf, ef = norm_flags(raw), norm_flags(m.eff_flags())
                if gf != ef:
                    self.v("C04.readback", f"after {what}: {m.tag} (uid {m.uid}) in {name} has flags {sorted(gf)}, the model says {sorted(ef)}", sig)
                    m.flags = set(f for f in gf if f != "unseen")
            # raw .mh_sequences: Seen xor unseen for every file
            seqs = self.w.raw_sequences(name)
            files = set(self.w.folder_files(name))
            seen, unseen = seqs.get("Seen", set()), seqs.get("unseen", set())
            bad = [k for k in files if (k in seen) == (k in unseen)]
            if bad and all(m.origin != "deliver" or m.uid is not None for m in box.msgs):
                self.v("C04.mh.seen-unseen", f"after {what}: .mh_sequences of {name} has keys {bad} in both or neither of Seen/unseen", sig)

    async def search_agrees(self, name, sig):
        """SEARCH by flag agrees with the model."""
        box = self.model.boxes[name]
        if not box.msgs:
            return
        o = self.obs
        r = await o.cmd(b"EXAMINE " + name.encode())
        if not r.ok:
            return
        kws = sorted({f for m in box.msgs for f in m.flags if not f.startswith("\\")})[:3]
        queries = [("SEEN", lambda m: "\\Seen" in m.flags), ("UNSEEN", lambda m: "\\Seen" not in m.flags), ("DELETED", lambda m: "\\Deleted" in m.flags),
                   ("FLAGGED", lambda m: "\\Flagged" in m.flags), ("UNANSWERED", lambda m: "\\Answered" not in m.flags), ("DRAFT", lambda m: "\\Draft" in m.flags)]
        for k in kws:
            queries.append((f"KEYWORD {k}", lambda m, k=k: k in m.flags))
            queries.append((f"UNKEYWORD {k}", lambda m, k=k: k not in m.flags))
        for q, pred in queries:
            r = await o.cmd(b"UID SEARCH " + q.encode())
            if not r.ok:
                self.v("C04.search.refused", f"UID SEARCH {q} answered {r.status}", sig)
                continue
            got = sorted(n for x in r.untagged("SEARCH") for n in _nums(x))
            exp = sorted(m.uid for m in box.msgs if pred(m) and m.uid is not None)
            if all(m.uid is not None for m in box.msgs) and got != exp:
                self.v("C04.search", f"UID SEARCH {q} in {name} gives {got}, the model says {exp}", sig + ":" + q.split()[0])
        await o.cmd(b"UNSELECT")


def _nums(resp):
    from .. import wire

    try:
        return wire.search_nums(resp)
    except wire.Malformed:
        return []


def execute(trace) -> CaseResult:
    h = C04Runner(trace)

    async def main():
        await h.boot()
        for bi in (0, 1):
            for i in range(trace.get("prefill", 3)):
                await h.do_step({"op": "append", "s": "a", "box": bi, "flags": [i * 3, i + 5] if i % 2 else [], "date": None})
        await h.readback("setup", "setup")
        ps = trace.get("presel") or (0, None)
        await h.do_step({"op": "select", "s": "a", "box": ps[0], "examine": False})
        if ps[1] is not None:
            await h.do_step({"op": "select", "s": "b", "box": ps[1], "examine": False})
        for s in trace["steps"]:
            s = dict(s)
            if "box" in s:
                s["box"] %= 2
            if s["op"] == "copy":
                s["dst"] %= 2
            recent_before = None
            stt = h.ss.get(s.get("s", ""))
            if s["op"] == "store" and stt is not None and stt.sel and stt.sess.alive and not stt.idle:
                # sync the issuer first so that the FETCHes it gets are this STORE's own
                await h.do_step({"op": "noop", "s": s["s"], "check": False})
                if stt.sel and stt.sess.alive:
                    r0 = await stt.sess.cmd(b"UID SEARCH RECENT")
                    h._replay(stt)
                    recent_before = sorted(n for x in r0.untagged("SEARCH") for n in _nums(x)) if r0.ok else None
            r = await h.do_step(s)
            sig = s["op"]
            if s["op"] == "store" and r is not None and getattr(h, "last_store", None) and h.last_store["r"] is r:
                out = h.last_store
                cls = h.flag_class(out["flags"])
                sig = f"store:{cls}"
                h.labels.add(f"store-{cls}")
                if "\\Recent" in out["flags"]:
                    h.labels.add("store-recent")
                    if r.ok:
                        h.v("C04.recent.accepted", f"STORE naming \\Recent was answered OK: {out['text']} {out['action']} {out['flags']}", "recent")
                if stt is not None and stt.sel and stt.sess.alive and recent_before is not None:
                    r1 = await stt.sess.cmd(b"UID SEARCH RECENT")
                    h._replay(stt)
                    after = sorted(n for x in r1.untagged("SEARCH") for n in _nums(x)) if r1.ok else None
                    if after is not None and after != recent_before:
                        h.v("C04.recent.changed", f"UID SEARCH RECENT was {recent_before} before and {after} after 'STORE {out['text']} {out['action']} {out['flags']}'", sig)
                if r.ok and not out["ambiguous"] and not out["examine"] and "\\Recent" not in out["flags"]:
                    targets = [m for m in out["targets"] if m.alive]
                    # (1) the issuer's own FETCH responses
                    if not out["silent"]:
                        rep = {}
                        for seq, items in r.fetches():
                            if "FLAGS" not in items:
                                continue
                            if 1 <= seq <= len(stt.view):
                                rep[id(stt.view[seq - 1])] = (norm_flags(items["FLAGS"]), "UID" in items, stt.view[seq - 1])
                        for m in targets:
                            got = rep.get(id(m))
                            want = norm_flags(m.eff_flags())
                            if got is None:
                                h.v("C04.store.unreported", f"non-SILENT STORE {out['text']} {out['action']} {out['flags']}: no FETCH FLAGS for addressed {m.tag} (uid {m.uid})", sig)
                            else:
                                if got[0] != want:
                                    h.v("C04.store.report-wrong", f"STORE {out['text']} {out['action']} {out['flags']}: FETCH for {m.tag} says {sorted(got[0])}, the model says {sorted(want)}", sig)
                                if out["uid_mode"] and not got[1]:
                                    h.v("C04.store.no-uid", f"UID STORE response for {m.tag} carries no UID", sig)
                    # (2) other sessions must learn of real changes
                    changed = [m for m in targets if out["before"].get(id(m), (None,))[0] != m.flags]
                    h.changed(s["s"], out["box"], changed, cls)
                    # non-triviality bookkeeping
                    ids = {id(m) for m in targets}
                    haskw = any(not f.startswith("\\") for f in out["flags"])
                    second = any(o.name != s["s"] and o.sel == out["box"] and o.sess.alive for o in h.ss.values())
                    for (b, prev, kw, sec) in h.stores:
                        if b == out["box"] and prev & ids and (kw or haskw) and (sec or second):
                            h.nontrivial = True
                    h.stores.append((out["box"], ids, haskw, second))
                elif r.ok and out["examine"]:
                    h.v("C05.examine.store", "STORE accepted in EXAMINE mode")
            if s["op"] == "fetch" and r is not None and r.ok and getattr(h, "last_fetch", None) and h.last_fetch["r"] is r:
                lf = h.last_fetch
                if lf["nonpeek"] and not lf["examine"] and not lf["ambiguous"]:
                    h.changed(s["s"], lf["box"], lf["newly_seen"], "plain")
                    sig = "fetch-nonpeek"
                else:
                    sig = "fetch-peek"
            if r is not None or s["op"] in ("deliver",):
                await h.readback(f"{s['op']} -> {r.status if r is not None else '-'}", sig)
        for name in MBOXES[:2]:
            await h.search_agrees(name, "end")

    try:
        h.w.run(main())
    except Hang as e:
        h.v("C06.deadlock", str(e))
    except RuntimeError as e:
        if "setup" in str(e):
            h.blocked = "setup"
        else:
            raise
    finally:
        h.res.vseconds = h.w.loop.time() - 1000.0
        h.w.close()
    res = h.finish()
    res.nontrivial = h.nontrivial
    return res

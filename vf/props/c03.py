"""C03 - a UID always names the same message."""
from __future__ import annotations

from ..driver import Hang
from ..run import CaseResult, open_ids
from ..uidfam import Fam, enc, trace_strategy

from . import c01_conc as CONC
ID = "C03"
LEVEL = "exploration"
RULE = (
    "Same history generator as C02 (expunge/move of arbitrary subsets, appends with distinct internal dates, copies, "
    "deliveries, pack with a lowered limit (40% of histories start with a pack prologue), rename incl. INBOX, restart). "
    "After EVERY step the observer re-reads every live message BY UID (BODY.PEEK[] + INTERNALDATE) and it must be "
    "byte-identical / same instant as when that (mailbox incarnation, UID) was first seen; additionally, in one probed "
    "mailbox per step, FETCH 1:* (UID) == UID FETCH 1:* (UID) pairwise and FETCH n BODY.PEEK[] == UID FETCH uid(n) "
    "BODY.PEEK[] for a probed n. Non-trivial = a probe after a pack renumbered files, after an expunge below the probed "
    "message, after a rename or after a restart; distinct = distinct trace hash."
)
ASSUMPTIONS = [
    "one command session plus one observer; commands run one at a time (a second session's interleavings are C10's job)",
    "INTERNALDATE is compared as an instant (the zone it is printed in may differ)",
]
OPEN = open_ids(ID)


def strategy(tier, shard, nshards):
    # every fourth shard: 2-3 sessions with commands in flight plus deliveries (c01_conc.py, judged here only
    # by "UID FETCH n returns uid n with the content uid n always had")
    if shard % 4 == 2:
        return CONC.strategy()
    return trace_strategy(tier, restart_w=2, ns_w=1)


def budget(tier):
    if tier == "quick":
        return {"examples": 55, "shards": 16, "guard_s": 900}
    return {"examples": 1500, "shards": 16, "guard_s": 7200}


def _epoch(b):
    from .c05 import idate_epoch

    return idate_epoch(b)


def check(f: Fam, snap, sig):
    f.inc_of_pair = getattr(f, "inc_of_pair", {})
    for name, info in snap.items():
        if name.startswith("__") or info is None:
            continue
        uv = info["uidvalidity"]
        for x in info["msgs"]:
            key = (name, uv, x["uid"])
            cur = (x["body"], _epoch(x["idate"]), x["tag"])
            old = f.first.get(key)
            if old is None:
                f.first[key] = cur
                continue
            if f.events & {"packed", "expunge", "expunge-top", "rename", "restart"}:
                f.nontrivial = True
            if old[2] != cur[2]:
                f.v("C03.uid.other-message", f"uid {x['uid']} of ({name}, {uv}) was {old[2]} and is {cur[2]} now", sig)
            elif old[0] is not None and cur[0] is not None and old[0] != cur[0]:
                f.v("C03.content.changed", f"BODY[] of uid {x['uid']} ({cur[2]}) in {name} changed: {len(old[0])} -> {len(cur[0])} octets", sig)
            if old[1] is not None and cur[1] is not None and old[1] != cur[1]:
                f.v("C03.internaldate.changed", f"INTERNALDATE of uid {x['uid']} ({cur[2]}) in {name} changed by {cur[1] - old[1]} s", sig)


async def probe(f: Fam, name: str, k: int, sig: str):
    """seq <-> uid correspondence in one mailbox, through the command session."""
    s = f.cmd_s
    if not s.alive:
        return
    r = await s.cmd(b"EXAMINE " + enc(name))
    if not r.ok:
        return
    n = max((x.num for x in r.resps if x.kind == "untagged" and x.name == "EXISTS"), default=0)
    if n:
        r1 = await s.cmd(b"FETCH 1:* (UID)")
        r2 = await s.cmd(b"UID FETCH 1:* (UID)")
        p1 = sorted((seq, int(it["UID"])) for seq, it in r1.fetches() if "UID" in it)
        p2 = sorted((seq, int(it["UID"])) for seq, it in r2.fetches() if "UID" in it)
        if p1 != p2 or len(p1) != n:
            f.v("C03.seq-uid.disagree", f"{name}: FETCH 1:* (UID) gives {p1}, UID FETCH 1:* (UID) gives {p2}, EXISTS {n}", sig)
        elif p1:
            seq, uid = p1[k % len(p1)]
            a = await s.cmd(b"FETCH %d (UID BODY.PEEK[])" % seq)
            b = await s.cmd(b"UID FETCH %d (UID BODY.PEEK[])" % uid)
            ba = [bytes(it["BODY[]"]) for _, it in a.fetches() if it.get("BODY[]") is not None]
            bb = [bytes(it["BODY[]"]) for _, it in b.fetches() if it.get("BODY[]") is not None]
            if ba != bb or len(ba) != 1:
                f.v("C03.seq-uid.other-content", f"{name}: FETCH {seq} BODY[] and UID FETCH {uid} BODY[] differ", sig)
            ua = [int(it["UID"]) for _, it in a.fetches() if "UID" in it]
            if ua != [uid]:
                f.v("C03.seq-uid.disagree", f"{name}: FETCH {seq} (UID) gives {ua}, expected [{uid}]", sig)
    await s.cmd(b"UNSELECT")


def execute(trace) -> CaseResult:
    if trace.get("kind") == "concurrent":
        return CONC.execute(trace, ID)
    f = Fam(trace, ID)

    async def main():
        await f.boot()
        for n in ("mb", "mb/sub", "other"):
            r = await f.cmd(b"CREATE " + n.encode())
            if r.ok:
                f.inc[n] = f.next_inc()
        for i in range(trace.get("prefill", 6)):
            await f.do({"op": "append", "box": 4 * (i % 2), "date": i})
        check(f, await f.observe_world(want_body=True, full=True), "setup")
        for i, s in enumerate(f.prologue() + trace["steps"]):
            await f.do(s)
            sig = s["op"]
            check(f, await f.observe_world(want_body=True, full=True), sig)
            have = sorted(n for n in f.inc if (f.w.root / n).is_dir())
            if have:
                await probe(f, have[i % len(have)], i, sig)

    try:
        f.w.run(main())
    except Hang as e:
        f.v("C06.deadlock", str(e))
    finally:
        f.res.vseconds = f.w.loop.time() - 1000.0
        f.w.close()
    return f.finish()

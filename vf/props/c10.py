"""C10 - concurrent sessions behave like some sequential order and never deadlock."""
from __future__ import annotations

import itertools
import re

from hypothesis import strategies as st

from .. import wire
from ..driver import Hang, World, tagged_message
from ..run import CaseResult, Violation, open_ids
from ..world import DELAYS_MIX, ScheduleSource

ID = "C10"
LEVEL = "exploration"
RULE = (
    "A small world (inbox: 4 tagged messages, mb: 3, some \\Deleted, a few keywords), 2-3 IMAP sessions selected on inbox/mb, "
    "each with 1-3 commands from {FETCH peek/non-peek, STORE, SEARCH, COPY, MOVE (both directions between the two mailboxes), "
    "APPEND, EXPUNGE, UID EXPUNGE, NOOP, STATUS} in sequence-number and UID forms; the first commands of all sessions are fed "
    "together (generated arrival offsets), each next command when its predecessor is answered. The SCHEDULE is part of the "
    "generated case: a Hypothesis-drawn list of latency choices (alphabet 0/0/1/3/20 ms) consumed by every database "
    "completion and every executor (file) job, so Hypothesis searches (history, interleaving) jointly. Oracle: (1) every "
    "command answered within 100 virtual seconds, no quiescent loop, no spin; (2) the per-command outcomes (status, fetched "
    "(message, flags) sets, SEARCH sets, COPYUID source sets, STATUS counts) and the final ordered (message, flags) lists of both "
    "mailboxes equal those of SOME order of the commands that respects each session's own order, with COPY = [read, add] and "
    "MOVE = [read, add, remove] as separately placeable steps, evaluated by a pure reference model; (3) a 'liveness' profile "
    "(1 shard in 4) adds CLOSE, DELETE/RENAME of a mailbox with queued commands and a POP3 DELE+QUIT session and checks (1) "
    "only. Non-trivial = two commands on the same mailbox were in flight together and at least one mutates; distinct = "
    "distinct trace hash."
)
ASSUMPTIONS = [
    "interleavings explored are completion orders of DB results, executor jobs, timers and command arrivals on one cooperative "
    "loop (what asyncio code can observe); OS thread preemption is out of scope",
    "sequential consistency as the property states it (each session's own order), not real-time order across sessions",
    "flags modulo \\Recent; messages identified by X-VF-Tag (FETCH always asks for it); unsolicited-notification timing is not compared",
    "a non-UID FETCH/STORE/SEARCH may be refused (NO) when the issuing session has undelivered EXPUNGEs at its linearization point; NOOP/STATUS/APPEND deliver the queue when they START, so an EXPUNGE linearized between the session's previous command and such a command may or may not have been delivered by it (both accepted)",
]
OPEN = open_ids(ID)

BOXES = ["inbox", "mb"]
KW = ["kw1", "kw2"]
FLAGPOOL = ["\\Seen", "\\Flagged", "\\Deleted", "kw1", "kw2", "\\Answered"]
SEARCHKEYS = ["ALL", "SEEN", "UNSEEN", "DELETED", "UNDELETED", "FLAGGED", "KEYWORD kw1", "UNKEYWORD kw2", "ANSWERED"]


# ------------------------------------------------------------ strategies
def cmd_strategy(liveness=False):
    sset = st.lists(st.integers(0, 7), min_size=1, max_size=3)
    base = [
        st.builds(lambda u, s, pk: {"c": "fetch", "uid": u, "set": s, "peek": pk}, st.booleans(), sset, st.booleans()),
        st.builds(lambda u, s, a, f, sil: {"c": "store", "uid": u, "set": s, "act": a, "flags": f, "silent": sil}, st.booleans(), sset, st.integers(0, 2),
                  st.lists(st.integers(0, 5), min_size=1, max_size=2), st.booleans()),
        st.builds(lambda u, s, a, f, sil: {"c": "store", "uid": u, "set": s, "act": 0, "flags": [2], "silent": sil}, st.booleans(), sset, st.integers(0, 2),
                  st.lists(st.integers(0, 5), min_size=1, max_size=2), st.booleans()),
        st.builds(lambda k: {"c": "search", "key": k}, st.integers(0, len(SEARCHKEYS) - 1)),
        st.builds(lambda u, s, mv: {"c": "copy", "uid": u, "set": s, "move": mv}, st.booleans(), sset, st.booleans()),
        st.builds(lambda u, s, mv: {"c": "copy", "uid": u, "set": s, "move": True}, st.booleans(), sset, st.booleans()),
        st.builds(lambda b, f: {"c": "append", "box": b, "flags": f}, st.integers(0, 1), st.lists(st.integers(0, 5), max_size=2)),
        st.just({"c": "expunge"}), st.just({"c": "expunge"}),
        st.builds(lambda s: {"c": "uidexpunge", "set": s}, sset),
        st.just({"c": "noop"}),
        st.builds(lambda b: {"c": "status", "box": b}, st.integers(0, 1)),
        # a POP3 session on the inbox: STAT, DELE 1, QUIT (in the model: remember the first message, remove it at QUIT)
        st.just({"c": "pop3"}),
    ]
    if liveness:
        base += [st.just({"c": "close"}), st.builds(lambda b: {"c": "delete", "box": b}, st.just(1)), st.builds(lambda b: {"c": "rename", "box": b}, st.just(1)),
                 st.just({"c": "pop3"}), st.just({"c": "close"}), st.builds(lambda b: {"c": "delete", "box": b}, st.just(1))]
    return st.one_of(*base)


def strategy(tier, shard, nshards):
    liveness = shard % 4 == 3
    nsess = st.integers(2, 3)
    mx = 3 if tier == "quick" else 3

    # a focused shape inside the same domain: three sessions on one mailbox, two FETCHes already running -
    # the older one does not touch the messages of the third session's STORE, the younger one does
    # (seeded/C10-3: the admission test looked only at the first running command)
    @st.composite
    def three_way(draw):
        box = draw(st.integers(0, 1))
        lone = draw(st.integers(0, 7))
        shared = draw(st.lists(st.integers(0, 7), min_size=2, max_size=3, unique=True))
        f1 = {"c": "fetch", "uid": draw(st.booleans()), "set": [lone], "peek": True}
        f2 = {"c": "fetch", "uid": draw(st.booleans()), "set": shared, "peek": draw(st.booleans())}
        stc = {"c": "store", "uid": draw(st.booleans()), "set": shared, "act": draw(st.integers(0, 2)), "flags": [draw(st.integers(0, 5))], "silent": draw(st.booleans())}
        extra = draw(st.lists(cmd_strategy(False), max_size=1))
        return {
            "rseed": draw(st.integers(0, 2**16)), "profile": "linear", "sel": [box, box, box],
            "offsets": [0, draw(st.integers(0, 2)), draw(st.integers(1, 3))],
            "sessions": [[f1] + extra, [f2], [stc]],
            "sched": draw(st.lists(st.integers(0, 4), min_size=0, max_size=64)),
            "slow": True,
        }

    if not liveness and shard % 4 == 1:
        return three_way()
    return st.fixed_dictionaries(
        {
            "rseed": st.integers(0, 2**16),
            "profile": st.just("liveness" if liveness else "linear"),
            "sel": st.lists(st.integers(0, 1), min_size=3, max_size=3),
            "offsets": st.lists(st.integers(0, 3), min_size=3, max_size=3),
            "sessions": st.lists(st.lists(cmd_strategy(liveness), min_size=1, max_size=mx), min_size=2, max_size=3),
            "sched": st.lists(st.integers(0, 4), min_size=0, max_size=64),
            "slow": st.booleans(),
        }
    )


def budget(tier):
    if tier == "quick":
        return {"examples": 110, "shards": 16, "guard_s": 900}
    return {"examples": 3500, "shards": 16, "guard_s": 7200}


# ------------------------------------------------------------------ model
class M:
    """Pure sequential model.  boxes: name -> list of messages [mid, tag, set(flags), orig];
    `orig` is True for the messages that existed when the sessions selected their
    mailboxes (the only ones a generated UID can name)."""

    def __init__(self, boxes, sel):
        self.nmid = 0
        self.boxes = {}
        for k, v in boxes.items():
            self.boxes[k] = []
            for t, f in v:
                self.nmid += 1
                self.boxes[k].append([self.nmid, t, set(f), True])
        self.sel = dict(sel)  # session -> box name
        # undelivered EXPUNGEs of other sessions: "" none, "new" = expunged after this session's last
        # command (certainly undelivered), "maybe" = expunged before a command of this session that
        # delivers its queue when it STARTS, i.e. possibly only after that point
        self.pending = {s: "" for s in sel}
        self.moving = set()
        self.ctx = {}

    def clone(self):
        m = M.__new__(M)
        m.nmid = self.nmid
        m.boxes = {k: [[a, t, set(f), o] for a, t, f, o in v] for k, v in self.boxes.items()}
        m.sel = dict(self.sel)
        m.pending = dict(self.pending)
        m.moving = set(self.moving)
        m.ctx = dict(self.ctx)
        return m

    def removed_from(self, box, by):
        for s, b in self.sel.items():
            # a session inside the expunge phase of its own MOVE receives EXPUNGEs at once
            if s != by and b == box and s not in self.moving:
                self.pending[s] = "new"

    def start_flush(self, s):
        """A command that sends the session's queue when it starts (NOOP, STATUS, APPEND): what was
        expunged before the session's previous command is delivered for sure; what was expunged since
        may have come after the command had started."""
        self.pending[s] = "maybe" if self.pending[s] == "new" else ""


def eff(flags):
    f = {x for x in flags if x.lower() != "\\recent"}
    if "\\Seen" not in f:
        f.add("unseen")
    return frozenset(f)


def apply_atom(m: M, atom):
    """Apply one atomic step to m; returns the observable outcome, or None for a
    step that is not the command's reporting step."""
    s, k, cmd = atom["s"], atom["k"], atom["cmd"]
    box = m.sel.get(s)
    c = cmd["c"]
    lst = m.boxes.get(box)

    def targets():
        if cmd.get("uid") or c == "uidexpunge":
            want = set(cmd["_tags"])
            return [x for x in lst if x[3] and x[1] in want]
        out = []
        for n in cmd["_seqs"]:
            if n < 1 or n > len(lst):
                return None
            if lst[n - 1] not in out:
                out.append(lst[n - 1])
        return out

    if c in ("fetch", "store") and not cmd.get("uid") and m.pending[s]:
        if m.pending[s] == "new" or atom.get("_observed_refused"):
            return ("NO",)
        m.pending[s] = ""  # it was delivered after all
    if c == "fetch":
        t = targets()
        if t is None:
            return ("BAD",)
        if cmd.get("uid"):
            m.pending[s] = ""
        # the FETCH response carries the flags as they are when the message is
        # fetched; the implicit \\Seen of a non-PEEK fetch is applied afterwards
        # (and announced by a separate untagged FETCH, which is not compared)
        out = ("OK", frozenset((x[1], eff(x[2])) for x in t))
        if not cmd["peek"]:
            for x in t:
                x[2].add("\\Seen")
        return out
    if c == "store":
        t = targets()
        if t is None:
            return ("BAD",)
        if cmd.get("uid"):
            m.pending[s] = ""
        fl = set(cmd["_flags"])
        for x in t:
            if cmd["act"] % 3 == 0:
                x[2] |= fl
            elif cmd["act"] % 3 == 1:
                x[2] -= fl
            else:
                keep = {f for f in x[2] if f.lower() == "\\recent"}
                x[2].clear()
                x[2] |= fl | keep
        return ("OK",)
    if c == "search":
        key = SEARCHKEYS[cmd["key"] % len(SEARCHKEYS)]
        pred = {
            "ALL": lambda f: True, "SEEN": lambda f: "\\Seen" in f, "UNSEEN": lambda f: "\\Seen" not in f, "DELETED": lambda f: "\\Deleted" in f,
            "UNDELETED": lambda f: "\\Deleted" not in f, "FLAGGED": lambda f: "\\Flagged" in f, "KEYWORD kw1": lambda f: "kw1" in f,
            "UNKEYWORD kw2": lambda f: "kw2" not in f, "ANSWERED": lambda f: "\\Answered" in f,
        }[key]
        m.pending[s] = ""  # UID SEARCH delivers pending notifications first
        return ("OK", tuple(sorted(x[1] for x in lst if pred(x[2]))))
    if c == "copy":
        dst = BOXES[1 - BOXES.index(box)]
        key = (s, atom["i"])
        if k == 0:  # read the source
            if not cmd.get("uid") and m.pending[s] and atom.get("_observed_refused"):
                # a COPY/MOVE by sequence number issued with EXPUNGEs undelivered may be refused:
                # either because the EXPUNGE overtook it while it waited (nothing delivered), or
                # after its pending notifications were delivered (numbers then out of range)
                m.ctx[key] = None
                if atom.get("_refuse_mode") == "flushed":
                    m.pending[s] = ""
                return ("NO",)
            t = targets()
            m.pending[s] = ""
            if t is None:
                m.ctx[key] = None
                return ("BAD",)
            m.ctx[key] = [(x[0], x[1], frozenset(x[2])) for x in t]
            return None
        got = m.ctx.get(key)
        if got is None:
            return None
        if k == 1:  # add to the destination
            for mid, tag, fl in got:
                m.nmid += 1
                m.boxes[dst].append([m.nmid, tag, set(fl), False])
            if not cmd["move"]:
                return ("OK", tuple(tag for _, tag, _ in got))
            # MOVE: queued notifications are delivered before the expunge phase, during which
            # (including the wait for it) EXPUNGEs reach the mover at once
            m.pending[s] = ""
            m.moving.add(s)
            return None
        # k == 2: remove from the source (MOVE)
        m.moving.discard(s)
        mids = {mid for mid, _, _ in got}
        before = len(lst)
        m.boxes[box] = [x for x in lst if x[0] not in mids]
        if len(m.boxes[box]) != before:
            m.removed_from(box, s)
        return ("OK", tuple(tag for _, tag, _ in got))
    if c == "append":
        b = BOXES[cmd["box"] % 2]
        m.start_flush(s)
        m.nmid += 1
        m.boxes[b].append([m.nmid, cmd["_tag"], set(cmd["_flags"]), False])
        return ("OK",)
    if c in ("expunge", "uidexpunge"):
        m.pending[s] = ""
        if c == "uidexpunge":
            named = {x[0] for x in targets()}
            victims = {x[0] for x in lst if "\\Deleted" in x[2] and x[0] in named}
        else:
            victims = {x[0] for x in lst if "\\Deleted" in x[2]}
        if victims:
            m.boxes[box] = [x for x in lst if x[0] not in victims]
            m.removed_from(box, s)
        return ("OK",)
    if c == "pop3":
        key = (s, atom["i"])
        inbox = m.boxes["inbox"]
        if k == 0:  # log in: the session's snapshot; message number 1 is the first message now
            m.ctx[key] = inbox[0][0] if inbox else None
            return None
        mid = m.ctx.get(key)
        if mid is not None and any(x[0] == mid for x in inbox):
            m.boxes["inbox"] = [x for x in inbox if x[0] != mid]
            m.removed_from("inbox", None)
        return ("OK",)
    if c == "noop":
        m.start_flush(s)
        return ("OK",)
    if c == "status":
        b = BOXES[cmd["box"] % 2]
        m.start_flush(s)
        return ("OK", len(m.boxes[b]))
    return ("?",)


def atoms_of(sessions):
    out = {}
    for s, cmds in sessions.items():
        lst = []
        for i, cmd in enumerate(cmds):
            n = 1
            if cmd["c"] == "copy":
                n = 3 if cmd["move"] else 2
            elif cmd["c"] == "pop3":
                n = 2
            for k in range(n):
                lst.append({"s": s, "i": i, "k": k, "cmd": cmd, "last": k == n - 1})
        out[s] = lst
    return out


def outcome_matches(obs, exp):
    """Status words NO/BAD are interchangeable."""
    if obs is None or exp is None:
        return obs is exp
    if obs[0] in ("NO", "BAD") and exp[0] in ("NO", "BAD"):
        return True
    return tuple(obs) == tuple(exp)


def find_order(base: M, seqs, obs, final, budget=200000):
    """Depth-first search for an interleaving (session order kept) under which the
    model reproduces every observed outcome and the final state.  Prunes at the
    first mismatching outcome.  Returns (found, nodes, deepest-mismatch text)."""
    keys = sorted(seqs)
    nodes = [0]
    best = [(-1, "")]
    total = sum(len(v) for v in seqs.values())

    def rec(m, pos, depth):
        if nodes[0] > budget:
            return None
        if depth == total:
            fin = {b: [(x[1], eff(x[2])) for x in m.boxes[b]] for b in BOXES}
            if all(final.get(b) is not None and fin[b] == final[b] for b in BOXES):
                return True
            if depth > best[0][0]:
                best[0] = (depth, f"every outcome matches but the final state would be {fin!r:.300}")
            return False
        for kx, mode in [(k_, md) for k_ in keys for md in ("stale", "flushed")]:
            if pos[kx] >= len(seqs[kx]):
                continue
            atom = seqs[kx][pos[kx]]
            key = (atom["s"], atom["i"])
            got = obs.get(key)
            refused = bool(got) and got[0] in ("NO", "BAD")
            two_modes = atom["cmd"]["c"] == "copy" and atom["k"] == 0 and not atom["cmd"].get("uid") and m.pending[atom["s"]] and refused
            if mode == "flushed" and not two_modes:
                continue
            nodes[0] += 1
            m2 = m.clone()
            atom = dict(atom, _observed_refused=refused, _refuse_mode=mode)
            exp = apply_atom(m2, atom)
            ok = True
            if atom["cmd"]["c"] == "copy":
                refused_earlier = atom["k"] > 0 and m2.ctx.get(key) is None
                if refused_earlier:
                    ok = True  # nothing happens, nothing to report
                elif exp is None:
                    ok = True  # inner step
                elif exp[0] in ("NO", "BAD"):
                    ok = bool(got) and got[0] in ("NO", "BAD")
                else:
                    ok = outcome_matches(got, exp)
            elif exp is None:
                ok = True  # inner step of a multi-step command
            else:
                ok = outcome_matches(got, exp)
            if not ok:
                if depth > best[0][0]:
                    best[0] = (depth, f"{atom['s']}#{atom['i']} {atom['cmd']['c']}: observed {got!r:.160}, this order predicts {exp!r:.160}")
                continue
            pos[kx] += 1
            r = rec(m2, pos, depth + 1)
            pos[kx] -= 1
            if r:
                return True
            if r is None:
                return None
        return False

    r = rec(base, {k: 0 for k in keys}, 0)
    return r, nodes[0], best[0][1]


# --------------------------------------------------------------- execute
def execute(trace) -> CaseResult:
    res = CaseResult()
    viol = []
    sched = ScheduleSource(trace.get("rseed", 0), delays=DELAYS_MIX, choices=trace.get("sched", []))
    w = World(rseed=trace.get("rseed", 0))  # the generated schedule is installed after the set-up phase
    transcript = []
    liveness = trace.get("profile") == "liveness"

    def v(clause, detail, sig=""):
        viol.append(Violation(ID, clause, detail, trace, sig))

    names = ["a", "b", "c"][: len(trace["sessions"])]
    state = {}

    async def setup():
        await w.boot()
        o = w.session("o")
        await o.cmd(b"CREATE mb")
        init = {"inbox": [("i1", []), ("i2", ["\\Deleted"]), ("i3", ["\\Seen", "kw1"]), ("i4", ["\\Flagged"])],
                "mb": [("m1", ["\\Deleted", "kw2"]), ("m2", []), ("m3", ["\\Seen"])]}
        uidmap = {}
        for box, msgs in init.items():
            for tag, fl in msgs:
                raw = tagged_message(tag)
                r = await o.cmd(b"APPEND " + box.encode() + (b" (" + " ".join(fl).encode() + b")" if fl else b"") + b" {%d}\r\n%s" % (len(raw), raw))
                code = wire.code_of(r.tagged, "APPENDUID")
                uidmap[(box, int(code[1]))] = tag
        # consume \Recent so that it never matters
        for box in init:
            await o.cmd(b"SELECT " + box.encode())
            await o.cmd(b"FETCH 1:* (FLAGS)")
        await o.cmd(b"UNSELECT")
        state["o"] = o
        state["uidmap"] = uidmap
        state["init"] = init
        sess = {}
        for i, n in enumerate(names):
            s = w.session(n)
            box = BOXES[trace["sel"][i] % 2]
            r = await s.cmd(b"SELECT " + box.encode())
            sess[n] = (s, box)
        state["sess"] = sess

    def uid_of(box, tag):
        for (b, u), t in state["uidmap"].items():
            if b == box and t == tag:
                return u
        return None

    def prepare(n, i, cmd):
        """Concretise an abstract command against the state at issue time (client knowledge)."""
        s, box = state["sess"][n]
        init = state["init"][box]
        ntags = len(init)
        cmd = dict(cmd)
        c = cmd["c"]
        fl = [FLAGPOOL[x % len(FLAGPOOL)] for x in cmd.get("flags", [])]
        cmd["_flags"] = fl
        if "set" in cmd:
            idx = sorted({1 + v % ntags for v in cmd["set"]})
            cmd["_seqs"] = idx
            cmd["_tags"] = [init[j - 1][0] for j in idx]
            if cmd.get("uid") or c == "uidexpunge":
                settext = ",".join(str(uid_of(box, t)) for t in cmd["_tags"])
            else:
                settext = ",".join(str(j) for j in idx)
        if c == "fetch":
            what = "(UID FLAGS BODY.PEEK[HEADER.FIELDS (X-VF-Tag)])" if cmd["peek"] else "(UID FLAGS BODY[HEADER.FIELDS (X-VF-Tag)])"
            line = ("UID " if cmd["uid"] else "") + f"FETCH {settext} {what}"
        elif c == "store":
            act = ["+FLAGS", "-FLAGS", "FLAGS"][cmd["act"] % 3]
            line = ("UID " if cmd["uid"] else "") + f"STORE {settext} {act}{'.SILENT' if cmd['silent'] else ''} ({' '.join(fl)})"
        elif c == "search":
            line = "UID SEARCH " + SEARCHKEYS[cmd["key"] % len(SEARCHKEYS)]
        elif c == "copy":
            dst = BOXES[1 - BOXES.index(box)]
            line = ("UID " if cmd["uid"] else "") + ("MOVE " if cmd["move"] else "COPY ") + f"{settext} {dst}"
        elif c == "append":
            tag = f"n{n}{i}"
            cmd["_tag"] = tag
            raw = tagged_message(tag)
            b = BOXES[cmd["box"] % 2]
            line = None
            cmd["_line_bytes"] = b"APPEND " + b.encode() + (b" (" + " ".join(fl).encode() + b")" if fl else b"") + b" {%d}\r\n%s" % (len(raw), raw)
        elif c == "expunge":
            line = "EXPUNGE"
        elif c == "uidexpunge":
            line = f"UID EXPUNGE {settext}"
        elif c == "noop":
            line = "NOOP"
        elif c == "status":
            line = f"STATUS {BOXES[cmd['box'] % 2]} (MESSAGES)"
        elif c == "close":
            line = "CLOSE"
        elif c == "delete":
            line = "DELETE mb"
        elif c == "rename":
            line = "RENAME mb mb2"
        elif c == "pop3":
            line = None
            cmd["_line_bytes"] = b"<POP3: STAT, DELE 1, QUIT>"
        else:
            line = "NOOP"
        if line is not None:
            cmd["_line_bytes"] = line.encode()
        return cmd

    observed = {}  # (session, i) -> outcome
    inflight_overlap = [False]

    async def run_session(n, cmds, offset):
        s, box = state["sess"][n]
        await w.settle(0) if not offset else None
        if offset:
            import asyncio

            await asyncio.sleep(offset * 0.002)
        for i, cmd in enumerate(cmds):
            if cmd["c"] == "pop3":
                p = w.pop3("p" + n)
                rep = await p.cmd(b"STAT", limit=150)
                rep = await p.cmd(b"DELE 1", limit=150)
                rep = await p.cmd(b"QUIT", limit=150)
                observed[(n, i)] = ("OK",) if rep is not None else ("HANG",)
                continue
            if not s.alive:
                observed[(n, i)] = ("GONE",)
                continue
            state["inflight"][n] = (box, cmd)
            # overlap bookkeeping (non-triviality)
            for other, oc in state["inflight"].items():
                if other != n and oc is not None and oc[0] == box:
                    mut = lambda c: c["c"] in ("store", "copy", "append", "expunge", "uidexpunge") or (c["c"] == "fetch" and not c["peek"])
                    if mut(cmd) or mut(oc[1]):
                        inflight_overlap[0] = True
            r = await s.cmd(cmd["_line_bytes"], limit=150)
            state["inflight"][n] = None
            transcript.append({"s": n, "c": cmd["_line_bytes"][:70].decode("latin-1"), "r": r.status, "t": round(w.loop.time() - 1000, 3)})
            if r.hang or r.watchdog or r.vdur >= 100:
                observed[(n, i)] = ("HANG",)
                v("C10.liveness.unanswered", f"session {n}: '{cmd['_line_bytes'][:50].decode('latin-1')}' not answered within 100 virtual seconds (vdur {r.vdur:.0f}, watchdog={r.watchdog})", cmd["c"])
                continue
            if r.status is None:
                observed[(n, i)] = ("GONE",)
                continue
            out = [r.status]
            c = cmd["c"]
            if r.ok and c == "fetch":
                rows = set()
                for seq, items in r.fetches():
                    h = items.get("BODY[HEADER.FIELDS (X-VF-TAG)]")
                    if h is None or "FLAGS" not in items:
                        continue
                    m_ = re.search(rb"X-VF-Tag:\s*(\S+)", bytes(h), re.I)
                    rows.add((m_.group(1).decode() if m_ else None, eff(items["FLAGS"])))
                    if "UID" in items and m_:
                        state["uidmap"][(box, int(items["UID"]))] = m_.group(1).decode()
                out.append(frozenset(rows))
            elif r.ok and c == "search":
                nums = []
                for x in r.untagged("SEARCH"):
                    nums.extend(wire.search_nums(x))
                out.append(("uids", box, tuple(nums)))
            elif r.ok and c == "copy":
                code = None
                if r.tagged is not None:
                    code = wire.code_of(r.tagged, "COPYUID")
                if code is None:
                    for x in r.resps:
                        if x.kind == "untagged" and x.name == "OK" and wire.code_of(x, "COPYUID"):
                            code = wire.code_of(x, "COPYUID")
                srcs = ()
                if code and len(code) >= 3 and code[1]:
                    try:
                        srcu = wire.parse_uid_set(code[1])
                        dstu = wire.parse_uid_set(code[2])
                        dst = BOXES[1 - BOXES.index(box)]
                        for a_, b_ in zip(srcu, dstu):
                            t_ = state["uidmap"].get((box, a_))
                            if t_:
                                state["uidmap"][(dst, b_)] = t_
                        srcs = ("srcuids", box, tuple(srcu))
                    except Exception:
                        srcs = ("unreadable",)
                out.append(srcs)
            elif r.ok and c == "status":
                for x in r.untagged("STATUS"):
                    try:
                        out.append(wire.status_items(x)[1].get("MESSAGES"))
                    except Exception:
                        pass
            elif r.ok and c == "append" and r.tagged is not None:
                code = wire.code_of(r.tagged, "APPENDUID")
                if code:
                    state["uidmap"][(BOXES[cmd["box"] % 2], int(code[1]))] = cmd["_tag"]
            observed[(n, i)] = tuple(out)

    async def main():
        import asyncio

        await setup()
        state["inflight"] = {n: None for n in names}
        sessions = {n: [prepare(n, i, c) for i, c in enumerate(cmds)] for n, cmds in zip(names, trace["sessions"])}
        state["cmds"] = sessions
        w.loop.sched = sched  # from here on every DB completion / executor job takes a generated latency
        if trace.get("slow"):
            # ... and so does every drain of a client's connection (clients that read slowly)
            for n_ in names:
                state["sess"][n_][0].writer.slow = sched.next
        tasks = [asyncio.ensure_future(run_session(n, sessions[n], trace["offsets"][i])) for i, n in enumerate(names)]
        done, pending = await asyncio.wait(tasks, timeout=400)
        if pending:
            v("C10.liveness.stuck", f"{len(pending)} session(s) did not finish their commands within 400 virtual seconds", "stuck")
            for t in pending:
                t.cancel()
        for t in done:
            if t.exception() is not None:
                raise t.exception()
        w.loop.sched = ScheduleSource(0)
        # final snapshot
        o = state["o"]
        if not o.alive:
            o = w.session("o2")
        final = {}
        for box in BOXES:
            r = await o.cmd(b"EXAMINE " + box.encode())
            if not r.ok:
                final[box] = None
                continue
            n_ = max((x.num for x in r.resps if x.kind == "untagged" and x.name == "EXISTS"), default=0)
            rows = []
            if n_:
                r2 = await o.cmd(b"FETCH 1:* (UID FLAGS BODY.PEEK[HEADER.FIELDS (X-VF-Tag)])")
                for seq, items in sorted(r2.fetches(), key=lambda t: t[0]):
                    h = items.get("BODY[HEADER.FIELDS (X-VF-TAG)]")
                    if h is None:
                        continue
                    m_ = re.search(rb"X-VF-Tag:\s*(\S+)", bytes(h), re.I)
                    tag = m_.group(1).decode() if m_ else None
                    rows.append((tag, eff(items.get("FLAGS") or [])))
                    if "UID" in items and tag:
                        state["uidmap"][(box, int(items["UID"]))] = tag
            final[box] = rows
            await o.cmd(b"UNSELECT")
        state["final"] = final

    try:
        w.run(main(), budget=1_500_000)
    except Hang as e:
        v("C10.liveness.deadlock", f"the loop got stuck: {e}", "deadlock")
    finally:
        res.vseconds = w.loop.time() - 1000.0
        res.labels.append(f"sched-used:{min(sched.used, 64) // 16 * 16}+")
        w.close()
    res.sample = transcript
    res.steps = len(transcript)
    res.nontrivial = inflight_overlap[0]
    res.labels.append(trace.get("profile", "linear"))
    if viol or liveness or "final" not in state:
        res.violations = viol
        return res

    # ---- linearizability -----------------------------------------------------------
    sessions = state["cmds"]
    final = state["final"]

    def norm_obs(key, out):
        """Translate UID-bearing observations into tags."""
        if out is None:
            return None
        out = list(out)
        for j, x in enumerate(out):
            if isinstance(x, tuple) and x and x[0] == "uids":
                out[j] = tuple(sorted(state["uidmap"].get((x[1], u), f"?{u}") for u in x[2]))
            elif isinstance(x, tuple) and x and x[0] == "srcuids":
                out[j] = tuple(state["uidmap"].get((x[1], u), f"?{u}") for u in x[2])
        return tuple(out)

    obs = {k: norm_obs(k, o_) for k, o_ in observed.items()}
    sel = {n: state["sess"][n][1] for n in names}
    base = M({b: [(t, f) for t, f in state["init"][b]] for b in BOXES}, sel)
    seqs = atoms_of(sessions)
    found, nodes, why = find_order(base, seqs, obs, final)
    res.labels.append(f"search-nodes:{'<=20' if nodes <= 20 else '<=200' if nodes <= 200 else '>200'}")
    if found is None:
        res.labels.append("order-search-budget-hit")
    elif not found:
        kinds = sorted({c["c"] + ("-uid" if c.get("uid") else "") for cs in sessions.values() for c in cs})
        v(
            "C10.linearizability",
            "no order of the commands explains what was observed. commands: "
            + "; ".join(f"{n}[{sel[n]}]: " + ", ".join(c["_line_bytes"][:44].decode("latin-1") for c in cs) for n, cs in sessions.items())
            + f". observed: {dict(sorted(obs.items()))!r:.700}. final: {final!r:.500}. deepest mismatch: {why}",
            "+".join(kinds)[:60],
        )
    res.violations = viol
    return res

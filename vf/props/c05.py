"""C05 - only the addressed messages are removed, copied or moved."""
from __future__ import annotations

import calendar
import re

from hypothesis import strategies as st

from ..driver import Hang
from ..gen import steps as G
from ..hist import MBOXES, Runner, norm_flags
from ..run import CaseResult, open_ids

ID = "C05"
LEVEL = "exploration"
RULE = (
    "Hypothesis-generated histories (6-24 abstract steps, 1-3 sessions, mailboxes inbox/mb/other) of APPEND, STORE "
    "(incl. \\Deleted on arbitrary sets), EXPUNGE, UID EXPUNGE with partly absent / non-deleted / duplicate UIDs, "
    "CLOSE/UNSELECT, COPY/MOVE (seq and UID, same mailbox, missing destination), SELECT/EXAMINE, external delivery; "
    "after EVERY step an observer session reads every mailbox (EXAMINE + FETCH 1:* UID FLAGS INTERNALDATE tag BODY.PEEK[]) "
    "and it must equal the reference model, which changes only on OK and never for an EXAMINE session. "
    "Non-trivial = a removal/copy/move whose addressed UIDs are not a prefix of the mailbox while UID != sequence number "
    "(sparse UIDs after an earlier expunge); distinct = distinct trace hash."
)
ASSUMPTIONS = [
    "commands run one at a time (interleavings are C10's job); DB/executor latency zero",
    "flag comparison is modulo \\Recent; keyword atoms are plain (alias names and ':' keywords belong to C04)",
    "messages are identified by a unique X-VF-Tag header; a COPY keeps the tag, so order + count identify copies",
]
OPEN = open_ids(ID)

MON = {m: i + 1 for i, m in enumerate("Jan Feb Mar Apr May Jun Jul Aug Sep Oct Nov Dec".split())}


def idate_epoch(b) -> int | None:
    if b is None:
        return None
    s = b.decode("latin-1") if isinstance(b, (bytes, bytearray)) else b
    m = re.match(r'"?\s*(\d{1,2})-(\w{3})-(\d{4}) (\d\d):(\d\d):(\d\d) ([-+])(\d\d)(\d\d)"?', s)
    if not m:
        return None
    d, mon, y, hh, mm, ss, sg, zh, zm = m.groups()
    t = calendar.timegm((int(y), MON[mon.capitalize()], int(d), int(hh), int(mm), int(ss)))
    off = (int(zh) * 60 + int(zm)) * 60
    return t - off if sg == "+" else t + off


def strategy(tier, shard, nshards):
    n = 2
    absent = True
    step = st.one_of(
        G.step_select(n), G.step_select(n), G.step_append(n), G.step_append(n),
        G.step_delete_flag(n, absent), G.step_delete_flag(n, absent), G.step_store(n, absent),
        G.step_expunge(n, absent), G.step_expunge(n, absent), G.step_copy(n, absent), G.step_copy(n, absent),
        G.step_unselect(n), G.step_fetch(n, absent), G.step_noop(n), G.step_deliver(), G.step_idle(n), G.step_advance(), G.step_advance(), G.steps_examine_probe(n),
    )
    mx = 18 if tier == "quick" else 28
    return st.fixed_dictionaries(
        {
            "rseed": st.integers(0, 2**16),
            "profile": st.just("plain"),
            "kwx": st.just(True),
            "prefill": st.integers(3, 6),
            "predelete": st.lists(st.integers(0, 5), min_size=1, max_size=2),
            "pack_limit": st.sampled_from([None, None, 3, 4]),
            "steps": st.lists(step, min_size=6, max_size=mx).map(G.flatten),
        }
    )


def budget(tier):
    if tier == "quick":
        return {"examples": 110, "shards": 16, "guard_s": 900}
    return {"examples": 2500, "shards": 16, "guard_s": 7200}


class C05Runner(Runner):
    def __init__(self, trace):
        super().__init__(trace, ID, {"C05"}, want_body=True)
        self.bodies = {}  # tag -> body bytes first seen
        self.nontrivial = False

    async def compare_all(self, what: str, sig: str, full: bool = False):
        for name in MBOXES:
            box = self.model.boxes[name]
            info = await self.observe(name, full=full)
            if info is None:
                self.v("C05.unobservable", f"after {what}: {name} cannot be examined", sig)
                continue
            if name in self.need_resync:
                self.resync_model(name, info)
                self.res.labels.append("ambiguous-step-adopted")
                continue
            got_tags = [x["tag"] for x in info["msgs"]]
            exp_tags = [m.tag for m in box.msgs]
            if got_tags != exp_tags:
                missing = [t for t in exp_tags if t not in got_tags]
                extra = [t for t in got_tags if t not in exp_tags]
                self.v("C05.messages", f"after {what}: {name} holds {got_tags}, expected {exp_tags} (missing {missing}, unexpected {extra})", sig)
                # resync the model to reality so one defect is reported once
                self.resync_model(name, info)
                continue
            for x, m in zip(info["msgs"], box.msgs):
                if m.uid is None:
                    m.uid = x["uid"]
                elif m.uid != x["uid"]:
                    self.v("C05.uid-report", f"after {what}: {m.tag} in {name} has uid {x['uid']} but APPENDUID/COPYUID (or an earlier observation) said {m.uid}", sig)
                    m.uid = x["uid"]
                gf = norm_flags(x["flags"])
                ef = norm_flags(m.eff_flags())
                if gf != ef:
                    self.v("C05.flags", f"after {what}: {m.tag} (uid {m.uid}) in {name} has flags {sorted(gf)} expected {sorted(ef)}", sig)
                    m.flags = set(f for f in gf if f != "unseen")
                if m.date is not None:
                    ge, ee = idate_epoch(x["idate"]), idate_epoch(m.date)
                    if ge != ee:
                        self.v("C05.internaldate", f"after {what}: {m.tag} in {name} has INTERNALDATE {x['idate']!r}, expected {m.date}", sig)
                elif m.origin == "copy" and getattr(m, "src_idate", None) is not None:
                    if idate_epoch(x["idate"]) != m.src_idate:
                        self.v("C05.internaldate", f"after {what}: copy {m.tag} in {name} has INTERNALDATE {x['idate']!r}, source had epoch {m.src_idate}", sig)
                if x["body"] is not None:
                    b0 = self.bodies.setdefault(m.tag, x["body"])
                    if b0 != x["body"]:
                        self.v("C05.content", f"after {what}: {m.tag} in {name} content differs from first observation ({len(b0)} vs {len(x['body'])} octets)", sig)
                m.last_idate = idate_epoch(x["idate"])


def execute(trace) -> CaseResult:
    h = C05Runner(trace)

    async def main():
        await h.boot()
        o = h.obs
        # prefill with sparse UIDs: append k messages to inbox and mb, expunge some
        a = h.sess("a")
        for bi, name in enumerate(("inbox", "mb")):
            for i in range(trace.get("prefill", 3)):
                await h.do_step({"op": "append", "s": "a", "box": bi, "flags": [i] if i % 2 else [], "date": i % 4 if i % 3 == 0 else None})
            if trace.get("predelete"):
                await h.do_step({"op": "select", "s": "a", "box": bi, "examine": False})
                await h.do_step({"op": "store", "s": "a", "uid": False, "set": [{"k": "i", "v": v} for v in trace["predelete"]], "act": 0, "silent": True, "flags": [3]})
                await h.do_step({"op": "expunge", "s": "a", "uid": False, "set": []})
                await h.do_step({"op": "unselect", "s": "a", "close": False})
        await h.compare_all("setup", "setup")
        h.viol_setup = len(h.viol)
        for s in trace["steps"]:
            if s["op"] in ("copy", "expunge", "unselect"):
                # record source internal dates for copies (observed earlier)
                pass
            r = await h.do_step(s)
            sig = s["op"] + ("-move" if s.get("move") else "") + ("-uid" if s.get("uid") else "") + ("-close" if s.get("close") else "")
            st_ = h.ss.get(s.get("s", ""))
            if st_ is not None and st_.examine and st_.sel:
                sig += "-examine"
            if s["op"] == "copy" and getattr(h, "last_copy", None) and h.last_copy["r"] is r and r is not None and r.ok:
                lc = h.last_copy
                for src, nm in zip(lc["targets"], lc["new"]):
                    nm.src_idate = getattr(src, "last_idate", None)
                cu = lc.get("copyuid")
                if lc["targets"] and lc["dst"] in h.model.boxes:
                    if not cu or cu[0] is None:
                        h.v("C05.copyuid.missing", f"{'MOVE' if lc['move'] else 'COPY'} of {len(lc['targets'])} message(s) gave no usable COPYUID", sig)
                    else:
                        exp_src = [m.uid for m in lc["targets"]]
                        if None not in exp_src and list(cu[0]) != exp_src:
                            h.v("C05.copyuid.source", f"COPYUID source uids {cu[0]} but the command addressed {exp_src}", sig)
                        if len(cu[1]) != len(lc["targets"]):
                            h.v("C05.copyuid.count", f"COPYUID lists {len(cu[1])} destination uids for {len(lc['targets'])} source messages", sig)
                # non-trivial: addressed not a prefix and uid != seq
                box = h.model.boxes[lc["src"]]
                _mark_nontrivial(h, lc["targets"], lc["src"])
            if s["op"] == "expunge" and getattr(h, "last_expunge", None) and h.last_expunge["r"] is r and r is not None and r.ok:
                _mark_nontrivial(h, h.last_expunge["victims"], None)
            if r is not None and r.status in ("NO", "BAD"):
                h.labels.add("refused")
            if r is not None or s["op"] in ("deliver", "restart"):
                await h.compare_all(f"step {s['op']} -> {r.status if r is not None else '-'}", sig)
        await h.compare_all("end", "end", full=True)

    try:
        h.w.run(main())
    except Hang as e:
        h.v("C06.deadlock", str(e))
    except RuntimeError as e:
        if "setup" in str(e):
            h.blocked = "setup"
        else:
            raise
    finally:
        h.res.vseconds = h.w.loop.time() - 1000.0
        h.w.close()
    res = h.finish()
    res.nontrivial = h.nontrivial
    return res


def _mark_nontrivial(h, victims, src):
    if not victims:
        return
    for m in victims:
        if m.uid is None:
            continue
        # uid != its (former) sequence position is implied by sparse uids: any earlier gap
        hist = None
        for b in h.model.boxes.values():
            if m in b.history:
                hist = b
        if hist is None:
            continue
        earlier_dead = [x for x in hist.history if x.arrival < m.arrival and not x.alive and x not in victims]
        if earlier_dead:
            h.nontrivial = True
            return

"""C18 - no access without the right password; brute-force throttling holds.

Two generated-input searches share one oracle:

(a) `execute()` runs Hypothesis-generated histories (IMAP and POP3 connections
    from several addresses, arbitrary pre-authentication commands, LOGIN /
    USER+PASS with right, wrong, empty, disabled, old and near-miss passwords,
    password changes, waits on the virtual clock) through the real
    `IMAPClient.start()` / `POP3Client.start()` front-end.  The gate oracle
    watches the stubbed `get_and_connect_subprocess`, the mail roots and the
    replies; the throttle oracle compares every attempt with the reference
    automaton (`vf.gen.c18_model.Nfa`).
(b) `extra()` enumerates ALL timed attempt sequences over small alphabets up to
    a bounded length through `check_allow/login_failed`, `do_login` and
    `_do_pass` (see `vf.gen.c18_enum`).
"""
from __future__ import annotations

import multiprocessing as mp
import os
import re

from hypothesis import strategies as st

from ..driver import Hang
from ..gen import c18_enum as EN
from ..gen.c18_front import ACCOUNTS, GHOSTS, FrontWorld, enc_astring
from ..gen.c18_model import Nfa, alphabet, count_nodes
from ..run import CaseResult, Violation, case_hash, open_ids

ID = "C18"
LEVEL = "exploration"
RULE = (
    "(a) Hypothesis histories of 4-40 steps on up to 4 IMAP and 3 POP3 front-end connections from 3 client addresses: "
    "arbitrary pre-authentication commands (SELECT/FETCH/STORE/APPEND with literals/LIST/STATUS/IDLE/garbage; POP3 "
    "STAT/RETR/DELE/...), LOGIN and USER/PASS with the right, a wrong, the empty, a disabled account's, an old and "
    "near-miss passwords (case, truncation, extension, leading blank, RFC 3501 quoted-escape variants) in atom / quoted / "
    "literal / literal+ encodings, password changes and disabling in the password file, waits of 1..600 virtual seconds, "
    "subprocess loss; half of the histories are 'hammer' profiles (5-8 failures on one user or one address, then probes "
    "with the right password / another user / another address after 49..61 s).  A history is NON-TRIVIAL when (gate) it "
    "sent at least one mailbox command before authentication AND at least one attempt with a non-right credential AND one "
    "with the right one, or (throttle) the reference automaton expected at least one refusal; distinct = distinct trace "
    "hash.  (b) extra(): exhaustive depth-first enumeration of every event sequence (user x address x right/wrong x dt) "
    "up to the stated depth for each listed alphabet at three levels (throttle functions, PreAuthenticated.do_login, "
    "POP3 _do_pass); every prefix is one evaluated sequence."
)
ASSUMPTIONS = [
    "virtual-time loop; asimap.throttle reads the virtual clock; password-file reads have zero latency",
    "PBKDF2 work factor lowered to 16 iterations (class attribute) and scrypt n=2 for the test accounts; hashes made by asimap.hashers",
    "the subprocess launch get_and_connect_subprocess (IMAP and POP3) is replaced by a recording stub: it is the access gate",
    "an attempt counts as refused by the throttle iff asimap.auth.authenticate was not reached for it",
    "a gap of exactly 60 s between an attempt and the key's last recorded failure may count either way",
    "a right password for an account without mail directory may or may not count as a failed attempt",
    "POP3: the password a PASS line denotes is its argument without surrounding blanks",
    "enumerated part: each attempt uses a fresh handler (= a new connection); attempts are sequential, never concurrent",
]

OPEN = open_ids(ID)
KF_ESCAPE = "quoted-escape-password"  # id to use if the quoted-escape defect is listed as an open finding

ADDRS = ["10.0.0.1", "10.0.0.2", "10.0.0.3"]
IMAP_SLOTS = [0, 0, 1, 2]  # slot -> address index
POP_SLOTS = [0, 1, 2]
USERS = list(ACCOUNTS)
NEWPW = ["newpw1", "n3w pw", "s3cret", 'x\\"y']
WAITS = [1, 1, 5, 9, 10, 30, 49, 50, 51, 59, 60, 61, 61, 70, 121, 600]
ENCS = ["atom", "quoted", "literal", "literal+"]

_MSG = "From: a@b\r\nSubject: planted\r\n\r\nx\r\n"
RAW_IMAP = [
    "SELECT inbox", "EXAMINE inbox", "SELECT INBOX", "FETCH 1 BODY[]", "UID FETCH 1:* (FLAGS BODY.PEEK[])", "FETCH 1:* FLAGS",
    "STORE 1 +FLAGS (\\Deleted)", "UID STORE 1 FLAGS (\\Seen)", "EXPUNGE", "UID EXPUNGE 1", "CLOSE", "UNSELECT", "CHECK",
    "APPEND inbox {%d}\r\n%s" % (len(_MSG), _MSG), "APPEND inbox (\\Seen) {%d+}\r\n%s" % (len(_MSG), _MSG),
    "STATUS inbox (MESSAGES UIDNEXT)", 'LIST "" *', 'LIST "" "%"', 'LSUB "" *', "CREATE evil", "DELETE inbox",
    "RENAME inbox stolen", "SUBSCRIBE inbox", "UNSUBSCRIBE inbox", "COPY 1 inbox", "UID COPY 1 inbox", "MOVE 1 inbox",
    "SEARCH ALL", "UID SEARCH TEXT secret", "NOOP", "CAPABILITY", "NAMESPACE", "ID NIL", 'ID ("name" "vf" "version" "1")',
    "IDLE", "LOGOUT", "AUTHENTICATE PLAIN", "AUTHENTICATE PLAIN AGFsaWNlAHMzY3JldA==", "AUTHENTICATE LOGIN", "STARTTLS",
    "LOGIN", "LOGIN alice", "LOGIN alice (", 'LOGIN "alice', "SELECT ../alice/inbox", "SELECT {5}\r\ninbox",
    "XYZZY", "FETCH", "UID", "", "  ",
]
RAW_IMAP_TAGLESS = ["DONE", "garbage", "* OK", "+ go", "AGFsaWNlAHMzY3JldA==", "alice", "s3cret", "{3}\r\nabc", "\x00\x01"]
RAW_POP = [
    "STAT", "LIST", "LIST 1", "RETR 1", "DELE 1", "UIDL", "UIDL 1", "TOP 1 0", "NOOP", "RSET", "CAPA", "QUIT", "PASS", "USER",
    "APOP alice c4c9334bac560ecc979e58001b3e22fb", "AUTH PLAIN", "AUTH", "XYZZY", "retr 1", "stat", "  STAT",
]


# ---------------------------------------------------------------- strategies


def near_misses(pw: str):
    out = [pw.swapcase(), pw[:-1], pw + "x", " " + pw, pw + pw, pw.replace("\\", ""), pw.replace('"', '\\"'), pw.upper(), pw[1:]]
    return [p for p in out if p != pw]


@st.composite
def credentials(draw, user=None, bias="mixed"):
    u = user or draw(st.sampled_from(USERS + USERS + GHOSTS + ["carol"]))
    base = ACCOUNTS[u][0] if u in ACCOUNTS else "s3cret"
    k = draw(st.integers(0, 19))
    if bias == "wrong":
        k = 9 + k % 11
    elif bias == "right":
        k = k % 10
    if k < 9:
        p = base
    elif k == 9 and "\\" in base:
        # the password whose RFC 3501 quoted form is byte-identical to the real password
        p = base.replace('\\"', '"').replace("\\\\", "\\")
    elif k < 12:
        p = draw(st.sampled_from(near_misses(base)))
    elif k < 14:
        p = draw(st.sampled_from([ACCOUNTS[x][0] for x in USERS]))
    elif k < 16:
        p = draw(st.sampled_from(NEWPW))
    elif k == 16:
        p = ""
    else:
        p = draw(st.sampled_from(["wrong", "password", "123456", base[::-1], "x"]))
    return u, p


@st.composite
def imap_login(draw, slot=None, user=None, bias="mixed"):
    u, p = draw(credentials(user, bias))
    return {
        "op": "login",
        "c": draw(st.integers(0, len(IMAP_SLOTS) - 1)) if slot is None else slot,
        "u": u,
        "p": p,
        "ue": draw(st.sampled_from(ENCS)),
        "pe": draw(st.sampled_from(["quoted", "quoted", "atom", "literal", "literal+"])),
    }


@st.composite
def pop_login(draw, slot=None, user=None, bias="mixed"):
    u, p = draw(credentials(user, bias))
    c = draw(st.integers(0, len(POP_SLOTS) - 1)) if slot is None else slot
    p = p.strip()
    steps = [{"op": "pop", "c": c, "line": "USER " + u}]
    if draw(st.integers(0, 9)) == 0:
        steps.append({"op": "pop", "c": c, "line": draw(st.sampled_from(RAW_POP))})
    steps.append({"op": "pop", "c": c, "line": draw(st.sampled_from(["PASS ", "pass ", "PASS  "])) + p})
    return steps


@st.composite
def gate_steps(draw):
    k = draw(st.integers(0, 29))
    if k < 9:
        return [{"op": "raw", "c": draw(st.integers(0, 3)), "line": draw(st.sampled_from(RAW_IMAP))}]
    if k < 10:
        return [{"op": "rawt", "c": draw(st.integers(0, 3)), "line": draw(st.sampled_from(RAW_IMAP_TAGLESS))}]
    if k < 17:
        return [draw(imap_login())]
    if k < 20:
        return [{"op": "pop", "c": draw(st.integers(0, 2)), "line": draw(st.sampled_from(RAW_POP))}]
    if k < 24:
        return draw(pop_login())
    if k < 26:
        return [{"op": "wait", "s": draw(st.sampled_from(WAITS))}]
    if k == 26:
        u = draw(st.sampled_from(USERS))
        out = [{"op": "chpw", "u": u, "p": draw(st.sampled_from(NEWPW))}]
        if draw(st.booleans()):  # try the previous password right afterwards
            out += [draw(imap_login(None, u, "right"))] if draw(st.booleans()) else draw(pop_login(None, u, "right"))
        return out
    if k == 27:
        return [{"op": "disable", "u": draw(st.sampled_from(USERS)), "on": draw(st.booleans())}]
    if k == 28:
        return [{"op": "subgone", "proto": draw(st.sampled_from(["imap", "pop"])), "c": draw(st.integers(0, 3))}]
    return [{"op": "drop", "proto": draw(st.sampled_from(["imap", "pop"])), "c": draw(st.integers(0, 3))}]


@st.composite
def gate_history(draw, n):
    groups = draw(st.lists(gate_steps(), min_size=6, max_size=n))
    return [s for g in groups for s in g]


@st.composite
def hammer_history(draw, n):
    """Build up failures on one user and/or one address, then probe."""
    steps = []
    mode = draw(st.sampled_from(["user", "addr", "both", "user"]))
    target = draw(st.sampled_from(["alice", "bob", "carol", "ghost", "dis", "Dan@Example.COM"]))
    proto = draw(st.sampled_from(["imap", "imap", "pop", "mix"]))
    aidx = draw(st.integers(0, 2))

    def slot_for(pr, ai):
        return IMAP_SLOTS.index(ai) if pr == "imap" else POP_SLOTS.index(ai)

    def attempt(user, ai, bias):
        pr = proto if proto != "mix" else draw(st.sampled_from(["imap", "pop"]))
        if pr == "imap":
            return [draw(imap_login(slot_for("imap", ai), user, bias))]
        return draw(pop_login(slot_for("pop", ai), user, bias))

    nfail = draw(st.integers(4, 8))
    for i in range(nfail):
        if mode == "user":
            u, ai = target, draw(st.sampled_from([aidx, aidx, (aidx + 1) % 3]))
        elif mode == "addr":
            u, ai = draw(st.sampled_from(["alice", "bob", "carol", "ghost", "root", "dis"])), aidx
        else:
            u, ai = target, aidx
        steps += attempt(u, ai, "wrong")
        if draw(st.integers(0, 3)) == 0:
            steps.append({"op": "wait", "s": draw(st.sampled_from([1, 5, 10, 30, 59, 60, 61]))})
    for _ in range(draw(st.integers(2, n))):
        k = draw(st.integers(0, 9))
        if k < 3:
            steps.append({"op": "wait", "s": draw(st.sampled_from([1, 10, 40, 49, 50, 51, 59, 60, 61, 121]))})
        elif k < 6:
            steps += attempt(target if target in ACCOUNTS else "alice", aidx, "right")
        elif k < 7:
            steps += attempt(target if target in ACCOUNTS else "alice", (aidx + 1) % 3, "right")
        elif k < 8:
            steps += attempt(draw(st.sampled_from(["alice", "bob", "carol"])), aidx, "right")
        elif k < 9:
            steps += attempt(target, aidx, "wrong")
        else:
            steps += draw(gate_steps())
    return steps


def strategy(tier, shard, nshards):
    n = 16 if tier == "quick" else 26
    hist = st.one_of(gate_history(n), hammer_history(n // 2))
    return st.fixed_dictionaries({"rseed": st.integers(0, 2**16), "steps": hist})


def budget(tier):
    if tier == "quick":
        return {"examples": 260, "shards": 16, "guard_s": 600}
    return {"examples": 5000, "shards": 16, "guard_s": 7200}


# ------------------------------------------------------------------- oracle


def pw_class(world, hist, u, p):
    """Class of a NON-right credential (for sigs and labels)."""
    acc = world.accounts.get(u)
    if acc is None:
        return "nouser"
    if p == "":
        return "empty"
    if acc["disabled"]:
        return "disabled" if p == acc["pw"] else "disabled-wrong"
    if p in hist.get(u, ()):
        return "old"
    pw = acc["pw"]
    if p != pw and p.replace("\\", "") == pw.replace("\\", ""):
        return "escape"
    if p.lower() == pw.lower() or p.strip() == pw or p[:-1] == pw or pw[:-1] == p or pw[1:] == p or p == pw + pw:
        return "nearmiss"
    return "wrong"


def raw_class(line: str) -> str:
    parts = line.split()
    if not parts:
        return "empty"
    c = parts[0].upper()
    if c == "UID" and len(parts) > 1:
        c += " " + parts[1].upper()
    return c[:16]


def execute(trace) -> CaseResult:
    if trace.get("kind") == "seq":
        return execute_seq(trace)
    res = CaseResult()
    w = FrontWorld(rseed=trace.get("rseed", 0))
    viol = []
    transcript = []
    labels = set()
    nfa = Nfa()
    thr = {"on": True}
    old_pws: dict = {}
    imap: dict = {}
    pop: dict = {}
    tagn = [0]
    seen = {"mailbox_cmd": False, "nonright": False, "right_ok": False, "locked": False}

    def v(clause, detail, sig=""):
        viol.append(Violation(ID, clause, detail, trace, sig))

    async def get_conn(table, proto, slot, slots):
        slot = slot % len(slots)
        c = table.get(slot)
        if c is None or not c.alive:
            c = w.connect(f"{proto}{slot}", proto, ADDRS[slots[slot]])
            table[slot] = c
            await c.pump()
        return c

    def check_access(conn, a0, justified: bool, what: str, sig: str):
        for acc in w.access[a0:]:
            if not justified:
                v("C18.gate.access-without-password",
                  f"the user-process connection for '{acc['user']}' was opened while processing {what!r} on {conn.name}", sig)

    async def attempt(conn, proto, u, p, data, desc):
        """A LOGIN / PASS the model regards as an authentication attempt."""
        addr = conn.addr
        right = w.right(u, p)
        cls = "right" if right else pw_class(w, old_pws, u, p)
        if KF_ESCAPE in OPEN and cls == "escape" and desc.get("qpw") and not trace.get("keep_known"):
            # open finding: a quoted password whose raw form equals the stored password (steered away)
            res.excluded.append(KF_ESCAPE)
            return
        labels.add("pw:" + cls)
        t = w.loop.time()
        exp, why = nfa.expected(u, addr, t) if thr["on"] else ({False}, set())
        n0, a0 = len(w.auth_calls), len(w.access)
        out, done = await conn.send(data, desc)
        reached = len(w.auth_calls) > n0
        if proto == "imap":
            answered_ok = re.search(rb"(?:^|\r\n)" + desc["tag"].encode() + rb" OK\b", out) is not None
        else:
            answered_ok = out.startswith(b"+OK")
        accessed = len(w.access) > a0
        transcript.append({"t": round(t - 1000.0, 1), "conn": conn.name, "addr": addr, "c": desc["show"], "class": cls,
                           "model_locked": sorted(exp), "refused": not reached, "ok": answered_ok, "access": accessed,
                           "dur": round(w.loop.time() - t, 1)})
        if not done:
            res.blocked = "C06"  # not answered within 400 virtual s: another property's concern
        # -- wrong / empty / disabled never authenticates; no access without the right password
        if not right:
            seen["nonright"] = True
            if answered_ok or accessed:
                v("C18.auth.wrong-password-accepted",
                  f"{proto} attempt for user {u!r} with a {cls} password ({p!r}; current "
                  f"{w.accounts.get(u, {}).get('pw')!r}, disabled={w.accounts.get(u, {}).get('disabled')}) "
                  f"was answered OK={answered_ok}, user process opened={accessed}", f"{proto}:{cls}")
        else:
            if answered_ok and accessed:
                seen["right_ok"] = True
                labels.add("login-success")
        # -- throttle
        if thr["on"]:
            if True in exp:
                seen["locked"] = True
                labels.add("lock:" + "+".join(sorted(why)))
                if right:
                    labels.add("right-pw-while-locked")
            if len(exp) == 2:
                labels.add("gap60-verdict-free")
            # what the attempt counts as is taken from its visible result: answered OK = not a
            # failure; a non-right credential answered not-OK = a failed attempt; a right credential
            # answered not-OK (no mail directory, or rejected for a reason outside this property)
            # may or may not have been recorded as a failure
            if answered_ok:
                outcome = "ok"
            else:
                outcome = "either" if right else "fail"
            bad = nfa.step(u, addr, t, not reached, outcome)
            if bad is not None:
                kind, who = bad
                if kind == "locked-admitted":
                    v("C18.throttle.locked-admitted",
                      f"{proto} attempt for {u!r} from {addr} at t={t - 1000.0:.0f}s reached authentication although "
                      f"the {who} failure count is above its threshold and the last recorded failure is < 60 s old "
                      f"(answered OK={answered_ok})", f"{proto}:{who}")
                else:
                    v("C18.throttle.unlocked-refused",
                      f"{proto} attempt for {u!r} from {addr} at t={t - 1000.0:.0f}s was refused by the throttle although "
                      f"neither its user nor its address is above its threshold within the purge interval", proto)
                thr["on"] = False
            elif (not reached) and (answered_ok or accessed):
                v("C18.throttle.locked-admitted", f"{proto} attempt for {u!r} refused by the throttle but answered OK", f"{proto}:ok")
            if not reached:
                labels.add("refused")
                seen["refusal"] = True
            elif seen.get("refusal"):
                labels.add("admitted-after-a-refusal")
            if right and not answered_ok and reached:
                labels.add("right-pw-rejected")

    async def non_attempt(conn, data, desc, what, sig):
        n0, a0 = len(w.auth_calls), len(w.access)
        authed = conn.accessed
        out, done = await conn.send(data, desc)
        transcript.append({"t": round(w.loop.time() - 1000.0, 1), "conn": conn.name, "c": what[:70], "authed": authed,
                           "r": out[:50].decode("latin-1")})
        if len(w.auth_calls) > n0 and not authed:
            # a line the model does not regard as an attempt reached authenticate():
            # the automaton can no longer be trusted for this case
            labels.add("desync")
            thr["on"] = False
        check_access(conn, a0, False, what, sig)
        return out

    async def main():
        for s in trace["steps"]:
            res.steps += 1
            op = s["op"]
            if op == "wait":
                await _sleep(w, s["s"])
                transcript.append({"wait": s["s"]})
            elif op == "chpw":
                acc = w.accounts.get(s["u"])
                if acc is not None and acc["pw"] != s["p"]:
                    old_pws.setdefault(s["u"], set()).add(acc["pw"])
                    old_pws[s["u"]].discard(s["p"])
                    acc["pw"] = s["p"]
                    w.write_pwfile()
                    labels.add("chpw")
                    transcript.append({"chpw": s["u"], "p": s["p"]})
            elif op == "disable":
                acc = w.accounts.get(s["u"])
                if acc is not None and acc["disabled"] != s["on"]:
                    acc["disabled"] = s["on"]
                    w.write_pwfile()
                    labels.add("disable-toggle")
                    transcript.append({"disable": s["u"], "on": s["on"]})
            elif op in ("subgone", "drop"):
                table, slots = (imap, IMAP_SLOTS) if s.get("proto") == "imap" else (pop, POP_SLOTS)
                c = table.get(s["c"] % len(slots))
                if c is not None and c.alive:
                    if op == "subgone" and c.accessed:
                        await c.subprocess_gone()
                        labels.add("subprocess-gone")
                    await c.drop()
                    transcript.append({op: c.name})
            elif op == "login":
                conn = await get_conn(imap, "imap", s["c"], IMAP_SLOTS)
                tagn[0] += 1
                tag = f"L{tagn[0]}"
                enc_p = enc_astring(s["p"], s["pe"])
                data = tag.encode() + b" LOGIN " + enc_astring(s["u"], s["ue"]) + b" " + enc_p
                show = data.decode("latin-1")[:90]
                desc = {"tag": tag, "show": show, "qpw": enc_p.startswith(b'"')}
                labels.add("enc:" + s["pe"])
                if conn.accessed:
                    labels.add("relayed-after-auth")
                    await non_attempt(conn, data, desc, show, "relayed")
                else:
                    await attempt(conn, "imap", s["u"], s["p"], data, desc)
            elif op in ("raw", "rawt"):
                conn = await get_conn(imap, "imap", s["c"], IMAP_SLOTS)
                line = s["line"]
                if op == "raw":
                    tagn[0] += 1
                    line = f"R{tagn[0]} {line}"
                if not conn.accessed and raw_class(s["line"]) not in ("NOOP", "CAPABILITY", "ID", "LOGOUT", "NAMESPACE", "IDLE", "DONE"):
                    seen["mailbox_cmd"] = True
                labels.add("raw-imap")
                await non_attempt(conn, line.encode("latin-1"), {"show": line[:60]}, line, "imap:" + raw_class(s["line"]))
            elif op == "pop":
                conn = await get_conn(pop, "pop", s["c"], POP_SLOTS)
                line = s["line"]
                parts = line.strip().split(None, 1)
                cmd = parts[0].upper() if parts else ""
                arg = parts[1].strip() if len(parts) > 1 else ""
                labels.add("pop3")
                if conn.accessed:
                    labels.add("relayed-after-auth")
                    await non_attempt(conn, line.encode("latin-1"), {"show": line[:60]}, line, "relayed")
                elif cmd == "PASS" and conn.pop_user and arg:
                    await attempt(conn, "pop", conn.pop_user, arg, line.encode("latin-1"), {"show": line[:60]})
                else:
                    if cmd == "USER" and arg:
                        conn.pop_user = arg
                    elif cmd not in ("USER", "PASS", "QUIT", "CAPA", "NOOP"):
                        seen["mailbox_cmd"] = True
                    await non_attempt(conn, line.encode("latin-1"), {"show": line[:60]}, line, "pop:" + raw_class(line))

    snap0 = w.snapshot()
    try:
        try:
            w.run(main())
        except Hang as e:
            res.blocked = "C06"  # the front-end loop is stuck: undecidable here, C06's concern
            transcript.append({"hang": str(e)})
        hits = w.audit_hits()
        snap1 = w.snapshot()
        if hits:
            v("C18.gate.mailroot-touched", f"file-system access under a mail root by the front-end: {hits[:4]}", hits[0][0])
        if snap0 != snap1:
            diff = [b for a, b in zip(snap0, snap1) if a != b][:3]
            v("C18.gate.mailroot-changed", f"mail roots changed although no user process ran: {diff}", "")
        res.vseconds = w.loop.time() - 1000.0
    finally:
        w.close()
    res.violations = viol
    res.sample = transcript
    res.nontrivial = (seen["mailbox_cmd"] and seen["nonright"] and seen["right_ok"]) or seen["locked"]
    if seen["mailbox_cmd"] and seen["nonright"] and seen["right_ok"]:
        labels.add("nontrivial:gate")
    if seen["locked"]:
        labels.add("nontrivial:throttle")
    res.labels = sorted(labels)
    return res


async def _sleep(w, s):
    import asyncio

    await asyncio.sleep(s)


# ------------------------------------------------- enumerated sequences


def execute_seq(trace) -> CaseResult:
    """Replay form of one enumerated sequence: {"kind":"seq","level":..,"steps":[[u,a,right,dt],..]}"""
    res = CaseResult()
    w = FrontWorld(0)
    transcript = []
    try:
        out = w.run(EN.run_sequence(w, trace.get("level", "fn"), [tuple(e) for e in trace["steps"]], transcript))
    finally:
        w.close()
    for kind, who, i in out:
        res.violations.append(Violation(ID, "C18.throttle." + kind, f"level={trace.get('level')} event #{i} {trace['steps'][i]}: "
                                        f"implementation verdict differs from the automaton ({kind}, {who})", trace,
                                        f"{trace.get('level')}:{who}"))
    res.steps = len(trace["steps"])
    res.sample = transcript
    res.nontrivial = any(x["refused"] for x in transcript)
    res.labels = ["enumerated:" + str(trace.get("level"))]
    return res


def enumerations(tier):
    """(name, level, alphabet, depth)"""
    q = tier == "quick"
    U1, A1 = ["u1"], ["a1"]
    U3 = ["u1", "u2", "ghost"]
    A2 = ["a1", "a2"]
    E = [
        ("fn/1x1/rw/dt1-59-61-121", "fn", alphabet(U1, A1, [1, 0], [1, 59, 61, 121]), 7 if q else 8),
        ("fn/1x1/rw/dt1-60-61", "fn", alphabet(U1, A1, [1, 0], [1, 60, 61]), 8 if q else 9),
        ("fn/3x2/w/dt1-61", "fn", alphabet(U3, A2, [0], [1, 61]), 6 if q else 7),
        ("fn/3x1/w/dt1-61", "fn", alphabet(U3, A1, [0], [1, 61]), 7 if q else 9),
        ("fn/3x1/w/dt1-31", "fn", alphabet(U3, A1, [0], [1, 31]), 7 if q else 8),
        ("fn/2x2/rw/dt1-61", "fn", alphabet(["u1", "u2"], A2, [1, 0], [1, 61]), 5 if q else 6),
        ("imap/1x1/rw/dt1-61", "imap", alphabet(U1, A1, [1, 0], [1, 61]), 8 if q else 10),
        ("imap/1x1/w/dt1-50-51-61", "imap", alphabet(U1, A1, [0], [1, 50, 51, 61]), 8 if q else 9),
        ("imap/3x1/w/dt1-61", "imap", alphabet(U3, A1, [0], [1, 61]), 6 if q else 8),
        ("imap/3x1/w/dt1", "imap", alphabet(U3, A1, [0], [1]), 8 if q else 10),
        ("pop/1x1/rw/dt1-61", "pop", alphabet(U1, A1, [1, 0], [1, 61]), 8 if q else 10),
        ("pop/3x1/w/dt1", "pop", alphabet(U3, A1, [0], [1]), 8 if q else 10),
        ("pop/3x2/w/dt1-61", "pop", alphabet(U3, A2, [0], [1, 61]), 4 if q else 6),
        # failures of several user names from one address with a SUCCESSFUL login of one of them in between
        # (seeded/C18-3: a success that wipes the address's failure record)
        ("imap/3x1/w+u1right/dt1", "imap", alphabet(U3, A1, [0], [1]) + alphabet(U1, A1, [1], [1]), 8 if q else 9),
        ("pop/3x1/w+u1right/dt1", "pop", alphabet(U3, A1, [0], [1]) + alphabet(U1, A1, [1], [1]), 7 if q else 9),
        # an account name with upper-case letters, from two addresses (seeded/C18-5: failures recorded under a
        # normalised name that the check before authentication never looks up)
        ("imap/1x2/rw/mixed-case/dt1", "imap", alphabet(["u4"], A2, [1, 0], [1]), 8 if q else 10),
        ("pop/1x2/rw/mixed-case/dt1", "pop", alphabet(["u4"], A2, [1, 0], [1]), 7 if q else 9),
    ]
    return E


def extra(tier, seed):
    nproc = int(os.environ.get("VERIF_C18_PROCS", "0") or 0) or min(16, os.cpu_count() or 1)
    jobs = []
    owner = []
    for name, level, alpha, depth in enumerations(tier):
        split = 1
        while len(alpha) ** split < 48 and split < depth - 1:
            split += 1
        for t in EN.make_tasks(level, alpha, depth, split):
            jobs.append(t)
            owner.append(name)
    # big jobs first for balance, results re-ordered deterministically afterwards
    order = sorted(range(len(jobs)), key=lambda i: (-(len(jobs[i][1]) ** max(0, jobs[i][2] - len(jobs[i][3]))), i))
    ctx = mp.get_context("fork")
    with ctx.Pool(nproc) as pool:
        results = pool.map(EN.walk_task, [jobs[i] for i in order], chunksize=1)
    by_index = {i: r for i, r in zip(order, results)}
    per = {}
    violations = []
    nontrivial = []
    samples = []
    total = 0
    for i in range(len(jobs)):
        r = by_index[i]
        name = owner[i]
        level = jobs[i][0]
        d = per.setdefault(name, {"level": level, "alphabet": len(jobs[i][1]), "depth": 0, "sequences": 0, "refused": 0,
                                  "right_password_refused": 0, "admitted_after_lock": 0, "verdict_free_gap60": 0,
                                  "address_only_lock": 0})
        d["depth"] = max(d["depth"], jobs[i][2])
        d["sequences"] += r["nodes"]
        d["refused"] += r["refused"]
        d["right_password_refused"] += r["right_refused"]
        d["admitted_after_lock"] += r["unlocked_after_lock"]
        d["verdict_free_gap60"] += r["ambiguous60"]
        d["address_only_lock"] += r["addr_only_lock"]
        total += r["nodes"]
        for p in r["lock_paths"]:
            tr = {"kind": "seq", "level": level, "steps": p}
            nontrivial.append(case_hash(tr))
            if len(samples) < 2:
                samples.append({"enumeration": name, "first_refusal_after": p})
        for vi in r["violations"]:
            tr = {"kind": "seq", "level": level, "steps": vi["events"]}
            violations.append(Violation(ID, "C18.throttle." + vi["kind"],
                                        f"enumeration {name}: after {vi['events']} the implementation's verdict differs "
                                        f"from the automaton ({vi['kind']}, {vi['who']})", tr, f"{level}:{vi['who']}").to_json())
    for name, d in per.items():
        d["expected_sequences"] = count_nodes(d["alphabet"], d["depth"])
    complete = all(d["sequences"] == d["expected_sequences"] for d in per.values()) or bool(violations)
    return {
        "evaluations": total,
        "nontrivial": nontrivial,
        "violations": violations,
        "samples": samples,
        "coverage": {"exhaustive": False, "bounded_enumerations_complete": bool(complete), "enumerations": per, "enumerated_sequences": total},
    }


def finding_matches(finding, vj):
    sigs = finding.get("sigs")
    if sigs is not None and vj.get("sig") not in sigs:
        return False
    return True

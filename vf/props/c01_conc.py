"""C01, concurrent mode: 2-3 sessions issue commands at the same time on one mailbox under a generated
schedule; each session's byte stream is replayed into a view (model-free oracle):

  * `n EXISTS`  : n >= len(view) (the count never shrinks except through EXPUNGE); the view grows
  * `n EXPUNGE` : 1 <= n <= len(view); cell n is removed
  * `n FETCH (.. UID u ..)` : 1 <= n <= len(view) and cell n is message u (an unknown cell gets bound)
  * no EXPUNGE inside the responses of the session's own non-UID FETCH/STORE/SEARCH
  * after all commands and a NOOP in every session, `FETCH 1:* (UID)` must agree cell by cell with the view

The one-command-at-a-time histories of c01.py never have two commands in flight; seeded/C01 (the session's
own EXPUNGE responses overtake older queued ones while its EXPUNGE waits behind another session's) needs that.
"""
from __future__ import annotations

import os
import re
import sys

from hypothesis import strategies as st

from ..driver import Hang, World, tagged_message
from ..run import CaseResult, Violation
from ..world import DELAYS_MIX, ScheduleSource

ID = "C01"
NMSG = 6


def strategy():
    cmd = st.one_of(
        st.just({"c": "expunge"}), st.just({"c": "expunge"}),
        st.builds(lambda a, b: {"c": "uidexpunge", "set": [a, b]}, st.integers(0, NMSG + 1), st.integers(0, NMSG + 1)),
        st.builds(lambda a, b: {"c": "uidexpunge", "set": [a, b]}, st.integers(0, NMSG + 1), st.integers(0, NMSG + 1)),
        st.builds(lambda a: {"c": "delflag", "i": a, "uid": True}, st.integers(1, NMSG)),
        st.builds(lambda a: {"c": "delflag", "i": a, "uid": True}, st.integers(1, NMSG)),
        st.builds(lambda a: {"c": "move", "i": a}, st.integers(1, NMSG)),
        st.just({"c": "noop"}),
        st.just({"c": "append"}),
        st.builds(lambda a: {"c": "uidfetch", "i": a}, st.integers(1, NMSG)),
        st.just({"c": "fetchall"}),
        # a non-PEEK body fetch of the messages planted at set-up (sets \Seen, rewrites .mh_sequences when done)
        st.just({"c": "fetchbody"}), st.just({"c": "fetchbody"}),
        # a UID COPY into the other mailbox (its COPYUID must name the copies, also when an MH agent delivers there meanwhile)
        st.builds(lambda a: {"c": "copy", "i": a}, st.integers(1, NMSG)),
        # a STORE by sequence number with a fresh marker keyword: which message did the number denote?
        st.builds(lambda a, sil: {"c": "storeseq", "i": a, "silent": sil}, st.integers(1, NMSG), st.booleans()),
        st.builds(lambda a, sil: {"c": "storeseq", "i": a, "silent": sil}, st.integers(1, NMSG), st.booleans()),
    )
    general = st.fixed_dictionaries(
        {
            "kind": st.just("concurrent"),
            "rseed": st.integers(0, 2**16),
            "deleted": st.lists(st.integers(1, NMSG), min_size=0, max_size=4, unique=True),
            "sessions": st.lists(st.lists(cmd, min_size=1, max_size=4), min_size=2, max_size=3),
            "offsets": st.lists(st.integers(0, 6), min_size=3, max_size=3),
            "sched": st.lists(st.integers(0, 4), min_size=0, max_size=60),
            # an MH agent delivering into the mailbox while the commands are in flight: [offset, how many] ...
            "deliveries": st.lists(st.tuples(st.integers(0, 12), st.integers(1, 2), st.sampled_from(["mb", "mb", "other"])), min_size=0, max_size=2),
            "slow": st.booleans(),
        }
    )

    # a focused shape inside the same domain: one session expunges low-numbered messages while another
    # session's command addresses a higher one and an MH agent delivers as many messages as are expunged
    # (the message count is the same before and after; seeded/C03-3 keyed a shortcut on exactly that)
    @st.composite
    def focused(draw):
        dele = draw(st.lists(st.integers(1, 3), min_size=1, max_size=2, unique=True))
        hi = draw(st.integers(max(dele) + 1, NMSG))
        second = draw(st.sampled_from([{"c": "uidfetch", "i": hi}, {"c": "delflag", "i": hi, "uid": True}, {"c": "storeseq", "i": hi, "silent": True}, {"c": "uidfetch", "i": hi}]))
        first = draw(st.sampled_from([{"c": "expunge"}, {"c": "uidexpunge", "set": [1, 3]}]))
        return {
            "kind": "concurrent", "rseed": draw(st.integers(0, 2**16)), "deleted": dele,
            "sessions": [[first], [second] + draw(st.lists(cmd, max_size=1))],
            "offsets": [draw(st.integers(0, 3)), draw(st.integers(0, 3)), 0],
            "sched": draw(st.lists(st.integers(0, 4), min_size=0, max_size=30)),
            "deliveries": [(draw(st.integers(0, 7)), len(dele))],
            "slow": draw(st.booleans()),
        }

    # a second focused shape: nothing is \Deleted, one session's multi-message FETCH is still going out to a
    # client that reads slowly while another session MOVEs a message away (seeded/C01-4: the expunge phase of
    # MOVE queued as a plain EXPUNGE, which is admitted alongside other commands when nothing is \Deleted)
    @st.composite
    def move_under_fetch(draw):
        return {
            "kind": "concurrent", "rseed": draw(st.integers(0, 2**16)), "deleted": [],
            "sessions": [[draw(st.sampled_from([{"c": "fetchall"}, {"c": "fetchbody"}]))] + draw(st.lists(cmd, max_size=1)),
                         [{"c": "move", "i": draw(st.integers(1, NMSG - 1))}] + draw(st.lists(cmd, max_size=1))],
            "offsets": [draw(st.integers(0, 2)), draw(st.integers(0, 3)), 0],
            "sched": draw(st.lists(st.integers(0, 4), min_size=0, max_size=40)),
            "deliveries": [], "slow": True,
        }

    return st.one_of(general, general, general, focused(), move_under_fetch())


class View:
    def __init__(self, name, v):
        self.name = name
        self.cells = []  # uid or None
        self.v = v
        self.pos = 0  # how many responses of the session's stream were replayed

    def catch_up(self, sess, upto, own_cmd=None, own_start=None):
        """Replay everything the session received since the last call (also what was pushed between
        its commands), up to offset `upto` of its stream."""
        from .. import wire

        buf = bytes(sess.writer.buf[self.pos:upto])
        base = self.pos
        self.pos = upto
        try:
            resps, _, _ = wire.parse_stream(buf, strict=False)
        except Exception:
            return
        for x in resps:
            inside = own_cmd if (own_start is not None and base + x.start >= own_start) else None
            self.feed([x], inside)

    def feed(self, resps, own_cmd=None):
        for x in resps:
            if x.kind != "untagged":
                continue
            if x.name == "EXISTS":
                if x.num < len(self.cells):
                    self.v("C01.exists.shrunk", f"session {self.name}: '* {x.num} EXISTS' while its view holds {len(self.cells)} messages (no EXPUNGE in between)", "exists")
                    del self.cells[x.num:]
                else:
                    self.cells.extend([None] * (x.num - len(self.cells)))
            elif x.name == "EXPUNGE":
                if own_cmd in ("fetchall", "delflag-seq"):
                    self.v("C01.expunge.during-command", f"session {self.name}: EXPUNGE response inside its own non-UID FETCH/STORE", "expunge")
                if not (1 <= x.num <= len(self.cells)):
                    self.v("C01.expunge.out-of-view", f"session {self.name}: '* {x.num} EXPUNGE' but its view holds {len(self.cells)} messages", "expunge")
                else:
                    del self.cells[x.num - 1]
            elif x.name == "FETCH":
                from .. import wire

                try:
                    items = wire.fetch_items(x)
                except wire.Malformed:
                    continue
                if not (1 <= x.num <= len(self.cells)):
                    self.v("C01.fetch.out-of-view", f"session {self.name}: '* {x.num} FETCH' but its view holds {len(self.cells)} messages", "fetch")
                    continue
                u = items.get("UID")
                if u is None:
                    continue
                u = int(u)
                cur = self.cells[x.num - 1]
                if cur is None:
                    if u in self.cells:
                        self.v("C01.fetch.wrong-cell", f"session {self.name}: '* {x.num} FETCH (UID {u})' but uid {u} is cell {self.cells.index(u) + 1} of its replayed view {self.cells}", "fetch")
                    else:
                        self.cells[x.num - 1] = u
                elif cur != u:
                    self.v("C01.fetch.wrong-cell", f"session {self.name}: '* {x.num} FETCH (UID {u})' but cell {x.num} of its replayed view {self.cells} is uid {cur}", "fetch")


def execute(trace, prop: str = "C01") -> CaseResult:
    """prop: the property on whose behalf the mode runs (C01: views; C03: a UID names the same message)."""
    res = CaseResult()
    viol = []
    seen = set()

    def v(clause, detail, sig=""):
        if not clause.startswith(prop + "."):
            return  # the other properties' clauses are not this check's business
        if (clause, sig) not in seen:
            seen.add((clause, sig))
            viol.append(Violation(prop, clause, detail, trace, "conc:" + sig))

    tag_of = {}  # uid -> tag for the messages planted at set-up (uids 1..NMSG)

    sched = ScheduleSource(trace.get("rseed", 0), delays=DELAYS_MIX, choices=trace.get("sched", []))
    w = World(rseed=trace.get("rseed", 0))
    names = ["a", "b", "c"][: len(trace["sessions"])]
    overlap = [False]
    nmark = [0]
    copies = []  # (source uid, destination uid) pairs claimed by COPYUID codes
    inflight = {}
    transcript = []

    async def run_session(n, s, view, cmds, offset):
        import asyncio

        if offset:
            await asyncio.sleep(offset * 0.002)
        for cmd in cmds:
            if not s.alive:
                return
            c = cmd["c"]
            if c == "expunge":
                line = b"EXPUNGE"
            elif c == "uidexpunge":
                a, b = cmd["set"]
                line = b"UID EXPUNGE %d:%d" % (a, b) if a != b else b"UID EXPUNGE %d" % a
            elif c == "delflag":
                line = b"UID STORE %d +FLAGS.SILENT (\\Deleted)" % cmd["i"]
            elif c == "move":
                line = b"UID MOVE %d other" % cmd["i"]
            elif c == "noop":
                line = b"NOOP"
            elif c == "append":
                m = tagged_message("cc%d" % len(transcript))
                line = b"APPEND mb {%d}\r\n%s" % (len(m), m)
            elif c == "uidfetch":
                line = b"UID FETCH %d (UID FLAGS BODY.PEEK[HEADER.FIELDS (X-VF-Tag)])" % cmd["i"]
            elif c == "copy":
                line = b"UID COPY %d other" % cmd["i"]
            elif c == "fetchbody":
                line = b"UID FETCH 1:%d (UID BODY[TEXT])" % NMSG
            elif c == "storeseq":
                # the session's view at the moment the command is sent (no EXPUNGE can reach it during a
                # non-UID STORE, so this is the view the number is interpreted in)
                view.catch_up(s, len(s.writer.buf))
                snapshot = list(view.cells)
                nmark[0] += 1
                marker = b"mk%d%s" % (nmark[0], n.encode())
                line = b"STORE %d +FLAGS%s (%s)" % (cmd["i"], b".SILENT" if cmd["silent"] else b"", marker)
            else:
                line = b"FETCH 1:* (UID)"
            mut = c in ("expunge", "uidexpunge", "move")
            if any(o is not None and (mut or o) for k, o in inflight.items() if k != n):
                overlap[0] = True
            inflight[n] = mut
            r = await s.cmd(line, limit=150)
            inflight[n] = None
            transcript.append({"s": n, "c": line[:40].decode("latin-1"), "r": r.status})
            if r.hang or r.watchdog:
                res.blocked = "C06"
                return
            # a FETCH 1:* that was refused (pending expunges) is fine; replay whatever came
            view.catch_up(s, r.end, own_cmd="fetchall" if c in ("fetchall", "storeseq") else None, own_start=r.start)
            if c in ("copy", "move") and r.ok:
                import re as _re2

                mcu = _re2.search(rb"\[COPYUID (\d+) ([0-9:,]+) ([0-9:,]+)\]", bytes(r.raw))
                if mcu:
                    from .. import wire as _w2

                    try:
                        su, du = _w2.parse_uid_set(mcu.group(2)), _w2.parse_uid_set(mcu.group(3))
                        copies.extend(zip(su, du))
                        if len(su) != len(du):
                            v("C02.copyuid.shape", f"session {n}: {line.decode()} -> COPYUID {mcu.group(2).decode()} {mcu.group(3).decode()}: different lengths", "copyuid")
                    except Exception:
                        pass
            if c == "uidfetch" and r.ok:
                import re as _re

                for seq, items in r.fetches():
                    h = items.get("BODY[HEADER.FIELDS (X-VF-TAG)]")
                    if h is None or "UID" not in items:
                        continue
                    mt = _re.search(rb"X-VF-Tag:\s*(\S+)", bytes(h), _re.I)
                    u = int(items["UID"])
                    if u != cmd["i"]:
                        v("C03.uid.other-message", f"session {n}: 'UID FETCH {cmd['i']}' answered with UID {u}", "uidfetch")
                    elif mt and u in tag_of and mt.group(1).decode() != tag_of[u]:
                        v("C03.uid.other-message", f"session {n}: 'UID FETCH {u}' returned the content of {mt.group(1).decode()}; uid {u} is {tag_of[u]}", "uidfetch")
            if c == "storeseq" and r.ok and s.alive:
                cells_after_store = len(view.cells)  # (the UID SEARCH below may deliver further EXPUNGEs)
                r2 = await s.cmd(b"UID SEARCH KEYWORD " + marker, limit=150)
                view.catch_up(s, r2.end)
                from .. import wire as _w

                got = set()
                for x in r2.untagged("SEARCH"):
                    got.update(_w.search_nums(x))
                want = snapshot[cmd["i"] - 1] if cmd["i"] <= len(snapshot) else None
                if got and want is not None and got != {want}:
                    v("C01.store.wrong-message", f"session {n}: 'STORE {cmd['i']} +FLAGS{'.SILENT' if cmd['silent'] else ''}' was accepted; cell {cmd['i']} of its view {snapshot} is uid {want}, the flag landed on uids {sorted(got)}", "store")
                elif got and want is None and cmd["i"] > len(snapshot) and cmd["i"] > cells_after_store:
                    # (a number beyond the view at send time is fine if the EXISTS that arrived with the
                    #  reply made it valid: the server resolves the number when it executes the command)
                    v("C01.store.out-of-view", f"session {n}: 'STORE {cmd['i']}' accepted although its view holds {cells_after_store} messages; flag landed on {sorted(got)}", "store")

    async def main():
        import asyncio

        await w.boot()
        o = w.session("o")
        await o.cmd(b"CREATE mb")
        await o.cmd(b"CREATE other")
        for i in range(NMSG):
            m = tagged_message(f"c{i + 1}")
            tag_of[i + 1] = f"c{i + 1}"
            fl = b" (\\Deleted)" if (i + 1) in trace["deleted"] else b""
            await o.cmd(b"APPEND mb" + fl + b" {%d}\r\n%s" % (len(m), m))
        sess = {}
        for n in names:
            s = w.session(n)
            view = View(n, v)
            view.pos = len(s.writer.buf)
            r = await s.cmd(b"SELECT mb")
            r2 = await s.cmd(b"FETCH 1:* (UID)")
            view.catch_up(s, r2.end)
            sess[n] = (s, view)
        for n in names:
            inflight[n] = None
        w.loop.sched = sched
        if trace.get("slow"):
            for n_ in names:
                sess[n_][0].writer.slow = sched.next  # clients that read slowly: drain() is a scheduled completion too
        tasks = [asyncio.ensure_future(run_session(n, sess[n][0], sess[n][1], trace["sessions"][i], trace["offsets"][i])) for i, n in enumerate(names)]

        async def deliver_later(off, k, idx, target="mb"):
            await asyncio.sleep(off * 0.002)
            w.deliver(target, [tagged_message(f"dl{idx}x{j}") for j in range(k)])
            res.labels.append("delivery-in-flight" if target == "mb" else "delivery-into-destination")

        tasks += [asyncio.ensure_future(deliver_later(d_[0], d_[1], idx, d_[2] if len(d_) > 2 else "mb")) for idx, d_ in enumerate(trace.get("deliveries", []))]
        done, pending = await asyncio.wait(tasks, timeout=400)
        for t in pending:
            t.cancel()
        for t in done:
            if t.exception() is not None:
                raise t.exception()
        if pending:
            res.blocked = "C10"
            return
        w.loop.sched = ScheduleSource(0)
        for n in names:
            s, view = sess[n]
            if not s.alive:
                continue
            for _ in range(2):
                r = await s.cmd(b"NOOP")
                view.catch_up(s, r.end)
            r = await s.cmd(b"FETCH 1:* (UID)")
            if r.ok or not view.cells:
                view.catch_up(s, r.end)
                got = sorted((seq, int(it["UID"])) for seq, it in r.fetches() if "UID" in it)
                if len(got) != len(view.cells):
                    v("C01.sync.count", f"session {n}: after NOOP its replayed view holds {len(view.cells)} messages {view.cells}, FETCH 1:* returned {len(got)}: {got}", "sync")
            elif r.status == "BAD" and not view.cells:
                pass
            else:
                v("C01.sync.refused", f"session {n}: FETCH 1:* after two NOOPs answered {r.status} although its view holds {len(view.cells)} messages", "sync")
        if os.environ.get("C01_STREAM"):
            for n in names:
                sys.stderr.write(f"--- stream of session {n}\n" + re.sub(rb"\{(\d+)\}\r\n[^*]*?\)\r\n", rb"{..})\r\n", bytes(sess[n][0].writer.buf), flags=re.S).decode("latin-1") + "\n")

    async def c02_end():
        # C02/C05: every (source uid, destination uid) pair a COPYUID code claimed names a copy of that message
        if prop != "C02" or not copies:
            return
        import re as _re

        await w.settle(25)
        o = w.session("o8")
        r = await o.cmd(b"EXAMINE other")
        if not r.ok:
            return
        r = await o.cmd(b"FETCH 1:* (UID BODY.PEEK[HEADER.FIELDS (X-VF-Tag)])")
        at = {}
        for seq, items in r.fetches():
            h = items.get("BODY[HEADER.FIELDS (X-VF-TAG)]")
            mt = _re.search(rb"X-VF-Tag:\s*(\S+)", bytes(h or b""), _re.I)
            if mt and "UID" in items:
                at[int(items["UID"])] = mt.group(1).decode()
        for su, du in copies:
            if su in tag_of and at.get(du) != tag_of[su]:
                v("C02.copyuid.wrong-message", f"a COPYUID code says uid {su} ({tag_of[su]}) of mb became uid {du} of other; uid {du} of other is {at.get(du)!r} (other holds {sorted(at.items())})", "copyuid")

    async def c13_end():
        # C13: a message an MH agent delivered (in `unseen`) while commands were in flight, and that no
        # command could have fetched (non-PEEK fetches address uids 1..NMSG only), is still unseen - for
        # IMAP and in the folder's .mh_sequences
        if prop != "C13" or not trace.get("deliveries"):
            return
        import re as _re

        await w.settle(25)
        o = w.session("o9")
        r = await o.cmd(b"EXAMINE mb")
        if not r.ok:
            return
        r = await o.cmd(b"FETCH 1:* (UID FLAGS BODY.PEEK[HEADER.FIELDS (X-VF-Tag)])")
        seqs = w.raw_sequences("mb")
        files = w.folder_files("mb") if hasattr(w, "folder_files") else None
        for seq, items in r.fetches():
            h = items.get("BODY[HEADER.FIELDS (X-VF-TAG)]")
            mt = _re.search(rb"X-VF-Tag:\s*(dl\S+)", bytes(h or b""), _re.I)
            if not mt:
                continue
            fl = {str(f) for f in (items.get("FLAGS") or [])}
            if "\\Seen" in fl:
                v("C13.deliver.flags", f"message {mt.group(1).decode()} was delivered unseen while commands were in flight and never fetched; IMAP shows {sorted(fl)}; .mh_sequences unseen={sorted(seqs.get('unseen', []))} Seen={sorted(seqs.get('Seen', []))}", "deliver")

    try:
        w.run(main(), budget=1_500_000)
        if res.blocked is None:
            w.run(c13_end(), budget=500_000)
            w.run(c02_end(), budget=500_000)
    except Hang as e:
        res.blocked = "C10"
        res.labels.append(f"hang:{str(e)[:40]}")
    finally:
        res.vseconds = w.loop.time() - 1000.0
        w.close()
    res.labels.append("concurrent")
    if overlap[0]:
        res.labels.append("concurrent-overlap")
    res.nontrivial = overlap[0]
    res.steps = len(transcript)
    res.sample = transcript
    res.violations = viol
    return res

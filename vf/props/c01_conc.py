"""C01, concurrent mode: 2-3 sessions issue commands at the same time on one mailbox under a generated
schedule; each session's byte stream is replayed into a view (model-free oracle):

  * `n EXISTS`  : n >= len(view) (the count never shrinks except through EXPUNGE); the view grows
  * `n EXPUNGE` : 1 <= n <= len(view); cell n is removed
  * `n FETCH (.. UID u ..)` : 1 <= n <= len(view) and cell n is message u (an unknown cell gets bound)
  * no EXPUNGE inside the responses of the session's own non-UID FETCH/STORE/SEARCH
  * after all commands and a NOOP in every session, `FETCH 1:* (UID)` must agree cell by cell with the view

The one-command-at-a-time histories of c01.py never have two commands in flight; seeded/C01 (the session's
own EXPUNGE responses overtake older queued ones while its EXPUNGE waits behind another session's) needs that.
"""
from __future__ import annotations

from hypothesis import strategies as st

from ..driver import Hang, World, tagged_message
from ..run import CaseResult, Violation
from ..world import DELAYS_MIX, ScheduleSource

ID = "C01"
NMSG = 6


def strategy():
    cmd = st.one_of(
        st.just({"c": "expunge"}), st.just({"c": "expunge"}),
        st.builds(lambda a, b: {"c": "uidexpunge", "set": [a, b]}, st.integers(0, NMSG + 1), st.integers(0, NMSG + 1)),
        st.builds(lambda a, b: {"c": "uidexpunge", "set": [a, b]}, st.integers(0, NMSG + 1), st.integers(0, NMSG + 1)),
        st.builds(lambda a: {"c": "delflag", "i": a, "uid": True}, st.integers(1, NMSG)),
        st.builds(lambda a: {"c": "delflag", "i": a, "uid": True}, st.integers(1, NMSG)),
        st.builds(lambda a: {"c": "move", "i": a}, st.integers(1, NMSG)),
        st.just({"c": "noop"}),
        st.just({"c": "append"}),
        st.builds(lambda a: {"c": "uidfetch", "i": a}, st.integers(1, NMSG)),
        st.just({"c": "fetchall"}),
    )
    return st.fixed_dictionaries(
        {
            "kind": st.just("concurrent"),
            "rseed": st.integers(0, 2**16),
            "deleted": st.lists(st.integers(1, NMSG), min_size=1, max_size=4, unique=True),
            "sessions": st.lists(st.lists(cmd, min_size=1, max_size=4), min_size=2, max_size=3),
            "offsets": st.lists(st.integers(0, 6), min_size=3, max_size=3),
            "sched": st.lists(st.integers(0, 4), min_size=0, max_size=60),
        }
    )


class View:
    def __init__(self, name, v):
        self.name = name
        self.cells = []  # uid or None
        self.v = v
        self.pos = 0  # how many responses of the session's stream were replayed

    def catch_up(self, sess, upto, own_cmd=None, own_start=None):
        """Replay everything the session received since the last call (also what was pushed between
        its commands), up to offset `upto` of its stream."""
        from .. import wire

        buf = bytes(sess.writer.buf[self.pos:upto])
        base = self.pos
        self.pos = upto
        try:
            resps, _, _ = wire.parse_stream(buf, strict=False)
        except Exception:
            return
        for x in resps:
            inside = own_cmd if (own_start is not None and base + x.start >= own_start) else None
            self.feed([x], inside)

    def feed(self, resps, own_cmd=None):
        for x in resps:
            if x.kind != "untagged":
                continue
            if x.name == "EXISTS":
                if x.num < len(self.cells):
                    self.v("C01.exists.shrunk", f"session {self.name}: '* {x.num} EXISTS' while its view holds {len(self.cells)} messages (no EXPUNGE in between)", "exists")
                    del self.cells[x.num:]
                else:
                    self.cells.extend([None] * (x.num - len(self.cells)))
            elif x.name == "EXPUNGE":
                if own_cmd in ("fetchall", "delflag-seq"):
                    self.v("C01.expunge.during-command", f"session {self.name}: EXPUNGE response inside its own non-UID FETCH/STORE", "expunge")
                if not (1 <= x.num <= len(self.cells)):
                    self.v("C01.expunge.out-of-view", f"session {self.name}: '* {x.num} EXPUNGE' but its view holds {len(self.cells)} messages", "expunge")
                else:
                    del self.cells[x.num - 1]
            elif x.name == "FETCH":
                from .. import wire

                try:
                    items = wire.fetch_items(x)
                except wire.Malformed:
                    continue
                if not (1 <= x.num <= len(self.cells)):
                    self.v("C01.fetch.out-of-view", f"session {self.name}: '* {x.num} FETCH' but its view holds {len(self.cells)} messages", "fetch")
                    continue
                u = items.get("UID")
                if u is None:
                    continue
                u = int(u)
                cur = self.cells[x.num - 1]
                if cur is None:
                    if u in self.cells:
                        self.v("C01.fetch.wrong-cell", f"session {self.name}: '* {x.num} FETCH (UID {u})' but uid {u} is cell {self.cells.index(u) + 1} of its replayed view {self.cells}", "fetch")
                    else:
                        self.cells[x.num - 1] = u
                elif cur != u:
                    self.v("C01.fetch.wrong-cell", f"session {self.name}: '* {x.num} FETCH (UID {u})' but cell {x.num} of its replayed view {self.cells} is uid {cur}", "fetch")


def execute(trace) -> CaseResult:
    res = CaseResult()
    viol = []
    seen = set()

    def v(clause, detail, sig=""):
        if (clause, sig) not in seen:
            seen.add((clause, sig))
            viol.append(Violation(ID, clause, detail, trace, "conc:" + sig))

    sched = ScheduleSource(trace.get("rseed", 0), delays=DELAYS_MIX, choices=trace.get("sched", []))
    w = World(rseed=trace.get("rseed", 0))
    names = ["a", "b", "c"][: len(trace["sessions"])]
    overlap = [False]
    inflight = {}
    transcript = []

    async def run_session(n, s, view, cmds, offset):
        import asyncio

        if offset:
            await asyncio.sleep(offset * 0.002)
        for cmd in cmds:
            if not s.alive:
                return
            c = cmd["c"]
            if c == "expunge":
                line = b"EXPUNGE"
            elif c == "uidexpunge":
                a, b = cmd["set"]
                line = b"UID EXPUNGE %d:%d" % (a, b) if a != b else b"UID EXPUNGE %d" % a
            elif c == "delflag":
                line = b"UID STORE %d +FLAGS.SILENT (\\Deleted)" % cmd["i"]
            elif c == "move":
                line = b"UID MOVE %d other" % cmd["i"]
            elif c == "noop":
                line = b"NOOP"
            elif c == "append":
                m = tagged_message("cc%d" % len(transcript))
                line = b"APPEND mb {%d}\r\n%s" % (len(m), m)
            elif c == "uidfetch":
                line = b"UID FETCH %d (UID FLAGS)" % cmd["i"]
            else:
                line = b"FETCH 1:* (UID)"
            mut = c in ("expunge", "uidexpunge", "move")
            if any(o is not None and (mut or o) for k, o in inflight.items() if k != n):
                overlap[0] = True
            inflight[n] = mut
            r = await s.cmd(line, limit=150)
            inflight[n] = None
            transcript.append({"s": n, "c": line[:40].decode("latin-1"), "r": r.status})
            if r.hang or r.watchdog:
                res.blocked = "C06"
                return
            # a FETCH 1:* that was refused (pending expunges) is fine; replay whatever came
            view.catch_up(s, r.end, own_cmd="fetchall" if c == "fetchall" else None, own_start=r.start)

    async def main():
        import asyncio

        await w.boot()
        o = w.session("o")
        await o.cmd(b"CREATE mb")
        await o.cmd(b"CREATE other")
        for i in range(NMSG):
            m = tagged_message(f"c{i + 1}")
            fl = b" (\\Deleted)" if (i + 1) in trace["deleted"] else b""
            await o.cmd(b"APPEND mb" + fl + b" {%d}\r\n%s" % (len(m), m))
        sess = {}
        for n in names:
            s = w.session(n)
            view = View(n, v)
            view.pos = len(s.writer.buf)
            r = await s.cmd(b"SELECT mb")
            r2 = await s.cmd(b"FETCH 1:* (UID)")
            view.catch_up(s, r2.end)
            sess[n] = (s, view)
        for n in names:
            inflight[n] = None
        w.loop.sched = sched
        tasks = [asyncio.ensure_future(run_session(n, sess[n][0], sess[n][1], trace["sessions"][i], trace["offsets"][i])) for i, n in enumerate(names)]
        done, pending = await asyncio.wait(tasks, timeout=400)
        for t in pending:
            t.cancel()
        for t in done:
            if t.exception() is not None:
                raise t.exception()
        if pending:
            res.blocked = "C10"
            return
        w.loop.sched = ScheduleSource(0)
        for n in names:
            s, view = sess[n]
            if not s.alive:
                continue
            for _ in range(2):
                r = await s.cmd(b"NOOP")
                view.catch_up(s, r.end)
            r = await s.cmd(b"FETCH 1:* (UID)")
            if r.ok or not view.cells:
                view.catch_up(s, r.end)
                got = sorted((seq, int(it["UID"])) for seq, it in r.fetches() if "UID" in it)
                if len(got) != len(view.cells):
                    v("C01.sync.count", f"session {n}: after NOOP its replayed view holds {len(view.cells)} messages {view.cells}, FETCH 1:* returned {len(got)}: {got}", "sync")
            elif r.status == "BAD" and not view.cells:
                pass
            else:
                v("C01.sync.refused", f"session {n}: FETCH 1:* after two NOOPs answered {r.status} although its view holds {len(view.cells)} messages", "sync")

    try:
        w.run(main(), budget=1_500_000)
    except Hang as e:
        res.blocked = "C10"
        res.labels.append(f"hang:{str(e)[:40]}")
    finally:
        res.vseconds = w.loop.time() - 1000.0
        w.close()
    res.labels.append("concurrent")
    if overlap[0]:
        res.labels.append("concurrent-overlap")
    res.nontrivial = overlap[0]
    res.steps = len(transcript)
    res.sample = transcript
    res.violations = viol
    return res

"""In-process drivers: a World (one IMAPUserServer on a scratch mail root on
a virtual-time loop), IMAP / POP3 sessions fed through the same `{len}\\n`
framing the front-end uses, an MH delivery agent, restart."""
from __future__ import annotations

import asyncio
import mailbox as _stdmailbox
import os
import random
import re
import shutil
from pathlib import Path

from . import wire
from .world import (
    EPOCH,
    Quiescent,
    ScheduleSource,
    Spin,
    VLoop,
    close_loop,
    new_loop,
    reset_globals,
    rmtree,
    scratch_root,
)


class Hang(Exception):
    """The awaited operation cannot finish (quiescent loop or spin)."""


class ServerGarbage(Exception):
    """The server sent something no reader can interpret (e.g. `UID None`)."""


class HarnessError(Exception):
    """The harness itself failed (never reported as a violation)."""


class FakeWriter:
    def __init__(self, loop, on_write=None):
        self.loop = loop
        self.buf = bytearray()
        self.closed = False
        self.ev = asyncio.Event()
        self.writes = []  # (offset, vtime)
        self.on_write = on_write
        self.slow = None  # callable -> seconds, or None (drain returns at once)

    def write(self, d):
        if self.closed:
            # like asyncio's transports: data written after the connection was closed is dropped without an
            # exception (a raise here made a session that left during another session's push break that
            # other session's command - a harness artefact, see DESIGN section 9)
            return
        self.writes.append((len(self.buf), self.loop.time()))
        self.buf += d
        if self.on_write:
            self.on_write(d)
        self.ev.set()

    async def drain(self):
        # A client that reads slowly: when `slow` is set (C10, C01/C03 concurrent mode) draining the
        # writer is one more I/O completion of the generated schedule (the server awaits drain() after
        # every push, with a 2 s timeout of its own; latencies here are at most 20 ms).
        if self.slow is not None:
            d = self.slow()
            if d > 0:
                await asyncio.sleep(d)

    def is_closing(self):
        return self.closed

    def close(self):
        self.closed = True
        self.ev.set()

    async def wait_closed(self):
        pass

    def get_extra_info(self, k, default=None):
        return ("127.0.0.1", 1234)


class Result:
    """Outcome of one command as seen by the client."""

    __slots__ = (
        "tag", "line", "raw", "resps", "errors", "status", "tagged", "closed",
        "bye", "vdur", "watchdog", "hang", "n_tagged", "start", "end",
    )

    def __init__(self):
        self.tag = None
        self.line = b""
        self.raw = b""
        self.resps = []
        self.errors = []
        self.status = None  # 'OK' | 'NO' | 'BAD' | None
        self.tagged = None
        self.closed = False
        self.bye = False
        self.vdur = 0.0
        self.watchdog = False
        self.hang = False
        self.n_tagged = 0
        self.start = 0
        self.end = 0

    @property
    def ok(self):
        return self.status == "OK"

    def untagged(self, name):
        return [r for r in self.resps if r.kind == "untagged" and r.name == name]

    def fetches(self):
        out = []
        for r in self.untagged("FETCH"):
            try:
                items = wire.fetch_items(r)
            except wire.Malformed:
                continue
            u = items.get("UID")
            if u is not None and not str(u if not isinstance(u, (bytes, bytearray)) else bytes(u).decode("latin-1")).isdigit():
                # e.g. "UID None": not something any oracle can work with; reported as a violation
                # of the property being checked (clause <ID>.observe.garbage), never as a harness error
                raise ServerGarbage(f"FETCH response with a UID that is not a number: {bytes(r.raw)[:120]!r}" if hasattr(r, "raw") else f"FETCH response with UID {u!r}")
            out.append((r.num, items))
        return out

    def brief(self):
        return f"{self.status} {bytes(self.tagged.text)[:60] if self.tagged and self.tagged.text else ''}"


_TAGN = [0]


class _M:
    """Adapter so the un-anchored fallback match looks like the anchored one."""

    def __init__(self, m):
        self.m = m

    def group(self, i):
        return self.m.group(i + 1)



class ImapSession:
    def __init__(self, world: "World", name: str):
        from asimap.user_server import IMAPClientProxy

        self.world = world
        self.name = name
        srv = world.srv
        self.reader = asyncio.StreamReader()
        self.writer = FakeWriter(world.loop)
        n = srv.next_client_num
        srv.next_client_num += 1
        cname = f"client-{n:08d}"
        self.proxy = IMAPClientProxy(srv, cname, n, "127.0.0.1", 20000 + n, self.reader, self.writer)
        self.task = world.loop.create_task(self.proxy.run(), name=cname)
        self.task.add_done_callback(srv.client_done)
        srv.clients[self.task] = self.proxy
        srv.expiry = None
        self.pos = 0  # stream offset already returned to the caller
        self.ntag = 0
        self.marks = []  # (offset, kind, tag, info)
        self.idle_tag = None
        self.dropped = False

    # -- low level -------------------------------------------------------
    def new_tag(self):
        self.ntag += 1
        return f"{self.name}x{self.ntag}"

    def feed(self, payload: bytes):
        self.reader.feed_data(b"{%d}\n" % len(payload) + payload)

    def send(self, line: bytes, tag: str | None = None) -> str:
        """Feed `<tag> <line>` without waiting."""
        tag = tag or self.new_tag()
        full = tag.encode() + b" " + line if tag != "-" else line
        self.world.rebump()
        self.marks.append((len(self.writer.buf), "send", tag, full))
        self.feed(full)
        return tag

    @property
    def stream(self) -> bytes:
        return bytes(self.writer.buf)

    def _find_tagged(self, tag: str, start: int):
        """Offset range of the tagged line for `tag` at/after start, or None."""
        pat = re.compile(rb"(?:^|\r\n)(" + re.escape(tag.encode()) + rb" (?:OK|NO|BAD)\b[^\r\n]*)(\r\n)?")
        # NB: '^' only matches at offset 0, so back up over a preceding CRLF
        m = pat.search(self.writer.buf, max(0, start - 2))
        if not m:
            # a previous reply may lack its CRLF (C07's concern, not ours)
            pat2 = re.compile(rb"()(?<![A-Za-z0-9])(" + re.escape(tag.encode()) + rb" (?:OK|NO|BAD)\b[^\r\n]*)(\r\n)?")
            m2 = pat2.search(self.writer.buf, start)
            if not m2:
                return None
            return _M(m2)
        return m

    async def wait_tagged(self, tag: str, start: int, limit: float = 1000.0) -> Result:
        loop = self.world.loop
        t0 = loop.time()
        res = Result()
        res.tag = tag
        res.start = start
        w = self.writer
        while True:
            m = self._find_tagged(tag, start)
            if m is not None:
                break
            if w.closed or self.task.done():
                break
            remaining = limit - (loop.time() - t0)
            if remaining <= 0:
                res.hang = True
                break
            w.ev.clear()
            try:
                await asyncio.wait_for(w.ev.wait(), remaining)
            except asyncio.TimeoutError:
                res.hang = True
                break
        # let a trailing CRLF / close arrive
        if m is not None and m.group(2) is None and not w.closed:
            for _ in range(3):
                await asyncio.sleep(0)
        res.vdur = loop.time() - t0
        res.end = len(w.buf)
        res.raw = bytes(w.buf[start : res.end])
        res.closed = w.closed or self.task.done()
        resps, errors, _ = wire.parse_stream(res.raw, strict=False, tags=(tag,))
        res.resps = resps
        res.errors = errors
        tg = [r for r in resps if r.kind == "tagged" and r.tag == tag]
        res.n_tagged = len(tg)
        if tg:
            res.tagged = tg[-1]
            res.status = tg[-1].name
        elif m is not None:
            # tagged line present but unparsable (e.g. no CRLF)
            mm = re.match(rb"\S+ (OK|NO|BAD)", m.group(1))
            res.status = mm.group(1).decode() if mm else None
            res.n_tagged = 1
        res.bye = any(r.kind == "untagged" and r.name == "BYE" for r in resps)
        from asimap.client import COMMAND_TIMEOUT

        res.watchdog = res.vdur >= COMMAND_TIMEOUT - 0.5 or b"Command timed out" in res.raw[-300:]
        self.marks.append((res.end, "done", tag, res.status))
        self.pos = res.end
        return res

    async def cmd(self, line: bytes, limit: float = 1000.0) -> Result:
        start = len(self.writer.buf)
        tag = self.send(line)
        r = await self.wait_tagged(tag, start, limit)
        r.line = line
        return r

    async def raw_line(self, payload: bytes, settle: float = 0.0) -> bytes:
        """Feed a payload with no tag of ours (garbage / DONE); return new bytes
        after letting the loop settle."""
        start = len(self.writer.buf)
        self.marks.append((start, "send", "-", payload))
        self.feed(payload)
        await self.world.settle(settle)
        self.pos = len(self.writer.buf)
        return bytes(self.writer.buf[start:])

    # -- IDLE ------------------------------------------------------------
    async def idle(self):
        start = len(self.writer.buf)
        tag = self.send(b"IDLE")
        self.idle_tag = tag
        self.idle_start = start
        # wait for the continuation
        for _ in range(200):
            if b"+ idling" in self.writer.buf[start:] or self.writer.closed:
                break
            if self._find_tagged(tag, start):
                break
            await asyncio.sleep(0.001)
        return tag

    async def done(self) -> Result:
        tag = self.idle_tag
        self.idle_tag = None
        self.marks.append((len(self.writer.buf), "send", "-", b"DONE"))
        self.feed(b"DONE")
        r = await self.wait_tagged(tag, self.idle_start)
        r.line = b"IDLE"
        return r

    # -- closing -----------------------------------------------------------
    async def drop(self):
        """Abrupt disconnect: EOF on the reader."""
        self.dropped = True
        self.reader.feed_eof()
        for _ in range(50):
            if self.task.done():
                break
            await asyncio.sleep(0.001)

    @property
    def alive(self):
        return not (self.writer.closed or self.task.done() or self.dropped)

    def new_bytes(self) -> bytes:
        b = bytes(self.writer.buf[self.pos :])
        self.pos = len(self.writer.buf)
        return b


class Pop3Session:
    def __init__(self, world: "World", name: str):
        from asimap.user_server import IMAPClientProxy

        self.world = world
        self.name = name
        srv = world.srv
        self.reader = asyncio.StreamReader()
        self.writer = FakeWriter(world.loop)
        n = srv.next_client_num
        srv.next_client_num += 1
        cname = f"client-{n:08d}"
        self.proxy = IMAPClientProxy(srv, cname, n, "127.0.0.1", 20000 + n, self.reader, self.writer)
        self.task = world.loop.create_task(self.proxy.run(), name=cname)
        self.task.add_done_callback(srv.client_done)
        srv.clients[self.task] = self.proxy
        srv.expiry = None
        self.pos = 0
        self.reader.feed_data(b"{4}\nPOP3")
        self.dropped = False

    async def greeting(self, limit=300.0):
        return await self._read(False, limit)

    async def _read(self, multiline: bool, limit: float):
        loop = self.world.loop
        t0 = loop.time()
        w = self.writer
        while True:
            try:
                rep, used = wire.pop3_parse(bytes(w.buf[self.pos :]), multiline)
                self.pos += used
                return rep
            except wire.Malformed as e:
                if e.clause != "incomplete":
                    raise
            if w.closed or self.task.done():
                return None
            remaining = limit - (loop.time() - t0)
            if remaining <= 0:
                return None
            w.ev.clear()
            try:
                await asyncio.wait_for(w.ev.wait(), remaining)
            except asyncio.TimeoutError:
                return None

    async def cmd(self, line: bytes, multiline: bool = False, limit: float = 300.0):
        self.reader.feed_data(b"{%d}\n" % len(line) + line)
        return await self._read(multiline, limit)

    async def drop(self):
        self.dropped = True
        self.reader.feed_eof()
        for _ in range(50):
            if self.task.done():
                break
            await asyncio.sleep(0.001)

    @property
    def alive(self):
        return not (self.writer.closed or self.task.done() or self.dropped)


class _StubAsyncioServer:
    def __init__(self):
        self.serving = True

    def is_serving(self):
        return self.serving

    def close(self):
        self.serving = False

    async def wait_closed(self):
        pass


def tagged_message(tag: str, extra_headers: str = "", body: str | None = None, date: str | None = None) -> bytes:
    body = body if body is not None else f"body token tok{tag}tok\r\nsecond line\r\n"
    date = date or "Mon, 02 Jan 2023 10:00:00 +0000"
    return (
        f"From: sender-{tag}@example.com\r\n"
        f"To: rcpt@example.com\r\n"
        f"Subject: message {tag}\r\n"
        f"Date: {date}\r\n"
        f"Message-ID: <{tag}@vf.example>\r\n"
        f"X-VF-Tag: {tag}\r\n"
        f"MIME-Version: 1.0\r\n"
        f"Content-Type: text/plain; charset=\"us-ascii\"\r\n"
        f"Content-Transfer-Encoding: 7bit\r\n"
        f"{extra_headers}"
        f"\r\n{body}"
    ).encode("latin-1")


class World:
    """One IMAPUserServer + sessions on one virtual loop and one scratch dir."""

    def __init__(self, rseed: int = 0, sched: ScheduleSource | None = None, pack_limit: int | None = None,
                 mgmt: bool = True, jail: bool = False, root_dir=None):
        reset_globals()
        random.seed(rseed)
        self.rseed = rseed
        self.loop: VLoop = new_loop(sched or ScheduleSource(rseed))
        base = scratch_root()
        self.keep_dir = root_dir is not None
        if root_dir is not None:
            # the caller owns the directory (crash-point checks): <root_dir>/mail
            self.dir = Path(root_dir)
            self.jail = None
            self.root = self.dir / "mail"
            self.root.mkdir(parents=True, exist_ok=True)
        else:
            self.dir = Path(_mkdtemp(base))
        if root_dir is not None:
            pass
        elif jail:
            self.jail = self.dir
            self.root = self.dir / "users" / "me"
            self.root.mkdir(parents=True)
        else:
            self.jail = None
            self.root = self.dir / "mail"
            self.root.mkdir()
        self.srv = None
        self.sessions: dict[str, ImapSession] = {}
        self.mgmt = mgmt
        self.pack_limit = pack_limit
        self._orig_pack = None
        self.fsclock = int(EPOCH) + 2000
        self.bumped = {}
        self.closed = False
        if pack_limit is not None:
            import asimap.mbox as mb

            self._orig_pack = mb.Mailbox.FOLDER_SIZE_PACK_LIMIT
            mb.Mailbox.FOLDER_SIZE_PACK_LIMIT = pack_limit

    # -- running ---------------------------------------------------------
    def run(self, coro, budget: int = 400_000):
        lp = self.loop
        lp.max_iterations = lp.iterations + budget
        try:
            return lp.run_until_complete(coro)
        except Quiescent as e:
            raise Hang(f"quiescent: {e}") from None
        except Spin as e:
            raise Hang(f"spin: {e}") from None
        finally:
            lp.max_iterations = None

    async def settle(self, seconds: float = 0.0):
        """Let the loop run for `seconds` of virtual time (0 = a few turns)."""
        self.rebump()
        if seconds > 0:
            await asyncio.sleep(seconds)
        else:
            for _ in range(5):
                await asyncio.sleep(0)

    # -- life cycle ------------------------------------------------------
    async def boot(self, first: bool = True):
        from asimap.mh import MH
        from asimap.user_server import IMAPUserServer

        if first and not (self.root / "inbox").exists():
            MH(self.root).add_folder("inbox")
        srv = await IMAPUserServer.new(self.root)
        self.srv = srv
        srv.asyncio_server = _StubAsyncioServer()
        await srv.find_all_folders()
        if self.mgmt:
            srv.management_task = asyncio.get_running_loop().create_task(
                srv.user_server_management_task(), name="user_server_management_task"
            )
            await asyncio.sleep(2)
        return srv

    async def shutdown(self):
        if self.srv is not None:
            srv = self.srv
            self.srv = None
            mt = srv.management_task
            if mt is not None and not mt.done():
                # model the production exit path, where the management task
                # has already returned when run() calls shutdown()
                mt.cancel()
                try:
                    await mt
                except asyncio.CancelledError:
                    pass
            await srv.shutdown()
        self.sessions = {}

    async def restart(self):
        await self.shutdown()
        await self.boot(first=False)

    def session(self, name: str) -> ImapSession:
        s = ImapSession(self, name)
        self.sessions[name] = s
        return s

    def pop3(self, name: str) -> Pop3Session:
        return Pop3Session(self, name)

    def close(self):
        if self.closed:
            return
        self.closed = True
        lp = self.loop
        try:
            if self.srv is not None:
                for s in list(self.sessions.values()):
                    try:
                        s.reader.feed_eof()
                    except Exception:
                        pass
                try:
                    lp.max_iterations = lp.iterations + 200_000
                    lp.run_until_complete(asyncio.wait_for(self.shutdown(), 500))
                except BaseException:  # noqa
                    pass
        finally:
            lp.max_iterations = None
            close_loop(lp)
            if not self.keep_dir:
                rmtree(self.dir)
            if self._orig_pack is not None:
                import asimap.mbox as mb

                mb.Mailbox.FOLDER_SIZE_PACK_LIMIT = self._orig_pack

    # -- file-system clock -------------------------------------------------
    def bump_mtime(self, folder: str):
        """Advance the folder's mtime past anything the server has seen."""
        p = self.root / folder
        cur = int(os.stat(p).st_mtime)
        sq = p / ".mh_sequences"
        if sq.exists():
            cur = max(cur, int(os.stat(sq).st_mtime))
        self.fsclock = max(self.fsclock, cur, int(self.loop.wall())) + 2
        os.utime(p, (self.fsclock, self.fsclock))
        self.bumped[folder] = self.fsclock

    def rebump(self):
        """Real file-system writes (a rename below the folder, say) stamp the real
        clock, which is behind the harness's file-system clock, and would hide a
        delivery whose mtime advance the server has not looked at yet.  Keep every
        bumped folder at (at least) its bumped mtime."""
        for folder, t in list(self.bumped.items()):
            p = self.root / folder
            try:
                if int(os.stat(p).st_mtime) < t:
                    os.utime(p, (t, t))
            except OSError:
                del self.bumped[folder]

    # -- MH agent ----------------------------------------------------------
    def deliver(self, folder: str, msgs: list[bytes], unseen: bool = True, bump: bool = True) -> list[int]:
        """Deliver like an MH tool (stdlib mailbox.MH only): next free number,
        optional `unseen` sequence, LF line endings on disk."""
        mh = _stdmailbox.MH(str(self.root / folder), create=False)
        keys = []
        for raw in msgs:
            m = _stdmailbox.MHMessage(raw.replace(b"\r\n", b"\n"))
            if unseen:
                m.add_sequence("unseen")
            k = mh.add(m)
            keys.append(int(k))
        mh.close()
        if bump:
            self.bump_mtime(folder)
        return keys

    def raw_sequences(self, folder: str) -> dict[str, set[int]]:
        """Own parser of .mh_sequences (stdlib hides keys of removed messages)."""
        p = self.root / folder / ".mh_sequences"
        out: dict[str, set[int]] = {}
        if not p.exists():
            return out
        for line in p.read_text("latin-1").splitlines():
            if ":" not in line:
                continue
            name, _, rest = line.partition(":")
            keys = set()
            for spec in rest.split():
                if "-" in spec:
                    a, b = spec.split("-", 1)
                    if a.isdigit() and b.isdigit():
                        keys.update(range(int(a), int(b) + 1))
                elif spec.isdigit():
                    keys.add(int(spec))
            out[name.strip()] = keys
        return out

    def folder_files(self, folder: str) -> list[int]:
        p = self.root / folder
        return sorted(int(x) for x in os.listdir(p) if x.isdigit())


def _mkdtemp(base: Path) -> str:
    import tempfile

    return tempfile.mkdtemp(dir=str(base), prefix="w")


# ------------------------------------------------------------------ observer


class Snapshot(dict):
    """{mailbox name: {'uidvalidity','uidnext','msgs':[(uid, tag, flags, idate)]}}"""


async def observe_mailbox(sess: ImapSession, name: bytes, want_body: bool = False, want_flags: bool = True,
                          known: dict | None = None):
    """EXAMINE + FETCH 1:* ... ; returns dict or None if not selectable.
    name must already be an encoded astring (e.g. b'inbox' or b'"a b"').

    `known` (optional) maps (uidvalidity, uid) -> (tag, body): messages found
    there are identified by UID and not re-read (much cheaper: the server
    parses a message for every header/body fetch); pass None to read all."""
    r = await sess.cmd(b"EXAMINE " + name)
    if not r.ok:
        return None
    info = {"exists": None, "uidvalidity": None, "uidnext": None, "msgs": [], "select": r}
    for x in r.resps:
        if x.kind == "untagged":
            if x.name == "EXISTS":
                info["exists"] = x.num
            elif x.name == "OK" and x.code:
                if x.code[0].upper() == "UIDVALIDITY":
                    info["uidvalidity"] = int(x.code[1])
                elif x.code[0].upper() == "UIDNEXT":
                    info["uidnext"] = int(x.code[1])
    uv = info["uidvalidity"]
    if info["exists"]:
        atts = b"UID INTERNALDATE"
        if want_flags:
            atts += b" FLAGS"
        r2 = await sess.cmd(b"FETCH 1:* (" + atts + b")")
        info["fetch_status"] = r2.status
        rows = {}
        for seq, items in r2.fetches():
            if "UID" not in items:
                continue  # unsolicited flag update, not an answer
            rows[seq] = {
                "seq": seq,
                "uid": int(items["UID"]),
                "tag": None,
                "flags": frozenset(items.get("FLAGS") or ()),
                "idate": bytes(items["INTERNALDATE"]) if items.get("INTERNALDATE") is not None else None,
                "body": None,
            }
        need = []
        for seq in sorted(rows):
            row = rows[seq]
            k = (uv, row["uid"])
            if known is not None and k in known:
                row["tag"], row["body"] = known[k]
            else:
                need.append(row)
        if need:
            atts2 = b"UID BODY.PEEK[HEADER.FIELDS (X-VF-Tag)]" + (b" BODY.PEEK[]" if want_body else b"")
            uids = ",".join(str(x["uid"]) for x in need).encode()
            r3 = await sess.cmd(b"UID FETCH " + uids + b" (" + atts2 + b")")
            byuid = {x["uid"]: x for x in need}
            for seq, items in r3.fetches():
                if "UID" not in items:
                    continue
                row = byuid.get(int(items["UID"]))
                if row is None:
                    continue
                h = items.get("BODY[HEADER.FIELDS (X-VF-TAG)]")
                if h is not None:
                    m = re.search(rb"X-VF-Tag:\s*(\S+)", bytes(h), re.I)
                    row["tag"] = m.group(1).decode() if m else None
                if items.get("BODY[]") is not None:
                    row["body"] = bytes(items["BODY[]"])
                if known is not None and row["tag"] is not None:
                    known[(uv, row["uid"])] = (row["tag"], row["body"])
        info["msgs"] = [rows[k] for k in sorted(rows)]
    await sess.cmd(b"UNSELECT")
    return info


def quote(name: str) -> bytes:
    """Encode a mailbox name as a quoted string (latin-1)."""
    return b'"' + name.encode("latin-1").replace(b"\\", b"\\\\").replace(b'"', b'\\"') + b'"'


async def list_mailboxes(sess: ImapSession, lsub: bool = False):
    r = await sess.cmd((b"LSUB" if lsub else b"LIST") + b' "" "*"')
    out = {}
    for x in r.untagged("LSUB" if lsub else "LIST"):
        try:
            attrs, delim, name, ext = wire.list_item(x)
        except wire.Malformed:
            continue
        out[name.decode("latin-1")] = attrs
    return out, r

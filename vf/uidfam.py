"""Shared executor for the UID / namespace-history properties C02, C03, C12.

History = message ops (append, copy/move into, expunge of arbitrary subsets,
deliveries, pack via a lowered FOLDER_SIZE_PACK_LIMIT) + namespace ops (create,
delete, re-create, rename incl. INBOX, subscribe-then-delete placeholders) +
restart.  After every step an observer reads the whole world (LIST, and for
every selectable mailbox STATUS + EXAMINE + FETCH); the property-specific
ledgers are checked on each observation.
"""
from __future__ import annotations

import os

from hypothesis import strategies as st

from . import wire
from .driver import Hang, World, observe_mailbox, quote, tagged_message
from .run import CaseResult, Violation

# ("mb/mb": an inferior whose path repeats its superior's name - seeded/C12-4, a rename done with SQL replace())
NAMES = ["inbox", "mb", "mb/sub", "other", "new1", "new1/kid", "with space", "mb/mb"]
DATES = ['"01-Jan-2020 10:00:00 +0000"', '" 5-Mar-2021 23:59:59 -0800"', '"17-Jul-2019 00:00:01 +0530"', '"31-Dec-2022 12:00:00 +0000"', '"09-Sep-2018 06:30:00 +0000"']


def enc(name: str) -> bytes:
    return quote(name) if (" " in name) else name.encode()


# ------------------------------------------------------------ strategies


def step_strategy(restart_w=1, ns_w=2):
    nm = st.integers(0, 4 * len(NAMES) - 1)
    sset = st.lists(st.integers(0, 11), min_size=1, max_size=4)
    items = [
        (4, st.builds(lambda b, d: {"op": "append", "box": b, "date": d}, nm, st.integers(0, 4))),
        (3, st.builds(lambda b, ss, top: {"op": "expunge", "box": b, "set": ss, "top": top}, nm, sset, st.booleans())),
        (2, st.builds(lambda b, k: {"op": "expunge", "box": b, "set": [], "top": False, "low": k}, nm, st.integers(1, 3))),
        (2, st.builds(lambda b, ss, d, mv, ab: {"op": "copy", "box": b, "set": ss, "dst": d, "move": mv, "absent": ab == 0}, nm, sset, nm, st.booleans(), st.integers(0, 3))),
        (2, st.builds(lambda b, k: {"op": "deliver", "box": b, "n": k}, nm, st.integers(0, 2))),
        (3, st.builds(lambda t: {"op": "advance", "t": t}, st.integers(0, 2))),
        (ns_w, st.builds(lambda b: {"op": "create", "box": b}, nm)),
        (ns_w, st.builds(lambda b: {"op": "delete", "box": b}, nm)),
        (ns_w, st.builds(lambda a, b: {"op": "rename", "box": a, "dst": b}, nm, nm)),
        (1, st.builds(lambda b, on: {"op": "subscribe", "box": b, "on": on}, nm, st.booleans())),
        (2, st.builds(lambda b, ss, f: {"op": "flag", "box": b, "set": ss, "flag": f}, nm, sset, st.integers(0, 5))),
        (restart_w, st.just({"op": "restart"})),
        # the same name deleted and created again, with and without a subscription that keeps it as a
        # \Noselect placeholder in between (seeded/C02-4)
        (1, st.builds(lambda b, sub: {"op": "recreate", "box": b, "sub": sub}, nm, st.booleans())),
    ]
    pool = []
    for w, s in items:
        pool.extend([s] * w)
    return st.one_of(*pool)


def trace_strategy(tier, restart_w=1, ns_w=2, max_quick=16, max_thorough=28):
    mx = max_quick if tier == "quick" else max_thorough
    return st.fixed_dictionaries(
        {
            "rseed": st.integers(0, 2**16),
            "prefill": st.integers(10, 14),
            "pack_limit": st.sampled_from([3, 3, 4, 100]),
            "pack_prologue": st.integers(0, 9).map(lambda x: x < 4),
            "steps": st.lists(step_strategy(restart_w, ns_w), min_size=5, max_size=mx),
        }
    )


# ------------------------------------------------------------ executor

FLAGSET = ["\\Seen", "\\Flagged", "\\Answered", "kw1", "$Fwd", "\\Draft"]


class Fam:
    def __init__(self, trace, prop: str):
        self.trace = trace
        self.prop = prop
        self.res = CaseResult()
        self.viol = []
        self.blocked = None
        self.w = World(rseed=trace.get("rseed", 0), pack_limit=trace.get("pack_limit", 4))
        self.transcript = []
        self.labels = set()
        self.ntag = 0
        self.cmd_s = None  # command session
        self.obs = None
        self.known = {}
        # model of the namespace (follows tagged results): name -> incarnation id
        self.inc = {}
        self.ninc = 0
        self.uv_history = {}  # name -> list of UIDVALIDITY values the name ever had
        self.pair_inc = {}  # (name, uv) -> incarnation id
        self.ledger = {}  # (name, uv) -> {uid: tag}
        self.uidnext = {}  # (name, uv) -> last UIDNEXT told
        self.first = {}  # (name, uv, uid) -> (body, idate)
        self.max_uid = {}  # (name, uv) -> max uid revealed
        self.pending_new = {}  # (name, uv) -> UIDNEXT told before new uids appear
        self.acked = []  # [(name, uv, uid, tag)] from APPENDUID/COPYUID, checked at next observation
        self.deleted_names = set()  # names deleted (or made placeholders) since they last were selectable
        self.nontrivial = False
        self.events = set()  # things that happened since the last uid assignment (for non-triviality)
        self.snap = None
        self.files = {}

    def v(self, clause, detail, sig=""):
        pid = clause.split(".")[0]
        if pid == self.prop:
            self.viol.append(Violation(self.prop, clause, detail, self.trace, sig))
        elif self.blocked is None:
            self.blocked = pid

    def note(self, **kw):
        self.transcript.append(kw)

    def new_tag(self):
        self.ntag += 1
        return f"u{self.ntag}"

    async def boot(self):
        await self.w.boot()
        self.cmd_s = self.w.session("a")
        self.obs = self.w.session("o")
        self.inc["inbox"] = self.next_inc()

    def next_inc(self):
        self.ninc += 1
        return self.ninc

    async def cmd(self, line: bytes):
        if not self.cmd_s.alive:
            self.cmd_s = self.w.session("a")
        r = await self.cmd_s.cmd(line)
        self.res.steps += 1
        self.note(c=line[:80].decode("latin-1"), r=r.status)
        if r.hang or r.watchdog:
            self.v("C06.watchdog", f"{line[:50]!r} answered only by the watchdog")
        return r

    def name_of(self, i, existing=False):
        """Mailbox for choice i; with existing=True biased (3 in 4) to names that exist."""
        if existing:
            have = sorted(n for n in self.inc if n in NAMES)
            if have and i % 4 != 3:
                return have[(i // 4) % len(have)]
        return NAMES[i % len(NAMES)]

    # -- steps ------------------------------------------------------------
    async def select(self, name):
        r = await self.cmd(b"SELECT " + enc(name))
        if not r.ok:
            return None
        n = 0
        for x in r.resps:
            if x.kind == "untagged" and x.name == "EXISTS":
                n = x.num
        return n

    async def do(self, s):
        op = s["op"]
        if op == "recreate":
            nm_ = self.name_of(s["box"], existing=True)
            if nm_.lower() == "inbox":
                return
            if s.get("sub"):
                await self.do({"op": "subscribe", "box": 0, "on": True, "name": nm_})
            await self.do({"op": "delete", "box": 0, "name": nm_})
            await self.do({"op": "create", "box": 0, "name": nm_})
            if s.get("sub"):
                await self.do({"op": "subscribe", "box": 0, "on": False, "name": nm_})
            return
        name = s["name"] if "name" in s else self.name_of(s.get("box", 0), existing=op not in ("create",))
        self.check_pack()
        if op == "append":
            tag = self.new_tag()
            raw = tagged_message(tag)
            date = DATES[s["date"] % len(DATES)]
            r = await self.cmd(b"APPEND " + enc(name) + b" " + date.encode() + b" {%d}\r\n" % len(raw) + raw)
            if r.ok and r.tagged is not None:
                code = wire.code_of(r.tagged, "APPENDUID")
                if code:
                    self.acked.append((name, int(code[0]), int(code[1]), tag, "APPENDUID"))
                else:
                    self.v("C02.appenduid.missing", f"APPEND to {name} answered OK without APPENDUID")
        elif op in ("expunge", "flag", "copy"):
            n = await self.select(name)
            if not n:
                if n is not None:
                    await self.cmd(b"UNSELECT")
                return
            seqs = sorted({1 + v % n for v in s["set"]})
            if s.get("low"):
                seqs = list(range(1, min(n, s["low"]) + 1))  # a gap at the bottom drives the pack ratio down
            if op == "expunge" and s.get("top"):
                seqs = sorted(set(seqs) | {n})
            text = ",".join(str(x) for x in seqs).encode()
            if op == "expunge":
                await self.cmd(b"STORE " + text + b" +FLAGS.SILENT (\\Deleted)")
                await self.cmd(b"EXPUNGE")
                self.events.add("expunge-top" if n in seqs else "expunge")
            elif op == "flag":
                await self.cmd(b"STORE " + text + b" +FLAGS.SILENT (" + FLAGSET[s["flag"] % len(FLAGSET)].encode() + b")")
            else:
                dst = self.name_of(s["dst"], existing=True)
                # learn the tags being copied (for COPYUID checking)
                r0 = await self.cmd(b"FETCH " + text + b" (UID BODY.PEEK[HEADER.FIELDS (X-VF-Tag)])")
                import re as _re

                src = {}
                for seq, items in r0.fetches():
                    h = items.get("BODY[HEADER.FIELDS (X-VF-TAG)]")
                    m = _re.search(rb"X-VF-Tag:\s*(\S+)", bytes(h), _re.I) if h is not None else None
                    if m and "UID" in items:
                        src[int(items["UID"])] = m.group(1).decode()
                if s.get("absent"):
                    # a UID set that names no message (seeded/C02-3): nothing is copied, so no COPYUID may
                    # claim destination uids
                    ru = await self.cmd(b"UID SEARCH ALL")
                    have = set()
                    for x in ru.untagged("SEARCH"):
                        have.update(wire.search_nums(x))
                    gone = max(have, default=0) + 3
                    r = await self.cmd((b"UID MOVE " if s.get("move") else b"UID COPY ") + str(gone).encode() + b" " + enc(dst))
                    self.events.add("uid-copy-absent")
                    raw = bytes(r.raw)
                    mm = _re.search(rb"\[COPYUID ([^\]]*)\]", raw)
                    if r.ok and mm and _re.search(rb"\d+\s+\S*\s*\d", mm.group(1)):
                        toks = mm.group(1).split()
                        if len(toks) >= 2 and any(ch.isdigit() for t_ in toks[1:] for ch in t_.decode("latin-1")):
                            self.v("C02.copyuid.phantom", f"UID {'MOVE' if s.get('move') else 'COPY'} {gone} (no such message) to {dst} answered {raw[-80:]!r}: COPYUID names uids although nothing was copied")
                    if self.cmd_s.alive:
                        await self.cmd(b"UNSELECT")
                    return
                r = await self.cmd((b"MOVE " if s.get("move") else b"COPY ") + text + b" " + enc(dst))
                code = None
                if r.ok:
                    if r.tagged is not None:
                        code = wire.code_of(r.tagged, "COPYUID")
                    if code is None:
                        for x in r.resps:
                            if x.kind == "untagged" and x.name == "OK" and wire.code_of(x, "COPYUID"):
                                code = wire.code_of(x, "COPYUID")
                    if code and len(code) >= 3:
                        try:
                            su = wire.parse_uid_set(code[1])
                            du = wire.parse_uid_set(code[2])
                            if len(su) != len(du):
                                self.v("C02.copyuid.shape", f"COPYUID {code[1]} {code[2]}: different lengths")
                            for a, b in zip(su, du):
                                if a in src:
                                    self.acked.append((dst if dst != "inbox" else "inbox", int(code[0]), b, src[a], "COPYUID"))
                        except Exception:
                            self.v("C02.copyuid.shape", f"COPYUID {code!r} unreadable")
                    if s.get("move"):
                        self.events.add("expunge")
            if self.cmd_s.alive:
                await self.cmd(b"UNSELECT")
        elif op == "deliver":
            if os.path.isdir(self.w.root / name) and name in self.inc:
                k = 1 + s["n"] % 3
                self.w.deliver(name, [tagged_message(self.new_tag()) for _ in range(k)], unseen=bool(s["n"] % 2))
                self.note(op="deliver", box=name, n=k)
        elif op == "advance":
            await self.w.settle([3, 21, 45][s["t"] % 3])
            self.note(op="advance")
        elif op == "create":
            r = await self.cmd(b"CREATE " + enc(name))
            if r.ok:
                parts = name.split("/")
                for i in range(1, len(parts) + 1):
                    p = "/".join(parts[:i])
                    if p not in self.inc:
                        self.inc[p] = self.next_inc()
                        if p in self.deleted_names:
                            self.events.add("recreated:" + p)
        elif op == "delete":
            r = await self.cmd(b"DELETE " + enc(name))
            if r.ok and name in self.inc:
                del self.inc[name]
                self.deleted_names.add(name)
                self.labels.add("delete")
        elif op == "rename":
            dst = self.name_of(s["dst"])
            r = await self.cmd(b"RENAME " + enc(name) + b" " + enc(dst))
            if r.ok:
                self.labels.add("rename")
                self.events.add("rename")
                if name.lower() == "inbox":
                    parts = dst.split("/")
                    for i in range(1, len(parts) + 1):
                        p = "/".join(parts[:i])
                        if p not in self.inc:
                            self.inc[p] = self.next_inc()
                            if p in self.deleted_names:
                                self.events.add("recreated:" + p)
                else:
                    parts = dst.split("/")
                    for i in range(1, len(parts)):
                        p = "/".join(parts[:i])
                        if p not in self.inc:
                            self.inc[p] = self.next_inc()
                    moved = {}
                    for k in list(self.inc):
                        if k == name or k.startswith(name + "/"):
                            moved[dst + k[len(name) :]] = self.inc.pop(k)
                            self.deleted_names.add(k)
                    self.inc.update(moved)
                    # the ledgers travel with the incarnation
                    self.rename_ledgers(name, dst)
        elif op == "subscribe":
            await self.cmd((b"SUBSCRIBE " if s["on"] else b"UNSUBSCRIBE ") + enc(name))
        elif op == "restart":
            await self.w.restart()
            self.cmd_s = self.w.session("a")
            self.obs = self.w.session("o")
            self.note(op="restart")
            self.labels.add("restart")
            self.events.add("restart")

    def check_pack(self):
        """Label the case when a folder got packed (message files renumbered)."""
        for n in list(self.inc):
            p = self.w.root / n
            if not os.path.isdir(p):
                continue
            files = self.w.folder_files(n)
            old = self.files.get(n)
            if old and files and len(files) == len(old) and files != old and max(files) < max(old):
                self.labels.add("packed")
                self.events.add("packed")
            self.files[n] = files

    def rename_ledgers(self, old, new):
        for d in (self.ledger, self.uidnext, self.max_uid, self.pair_inc):
            for (n, uv) in list(d):
                if n == old or n.startswith(old + "/"):
                    d[(new + n[len(old) :], uv)] = d.pop((n, uv))
        for (n, uv, uid) in list(self.first):
            if n == old or n.startswith(old + "/"):
                self.first[(new + n[len(old) :], uv, uid)] = self.first.pop((n, uv, uid))
        for n in list(self.known):
            if n == old or n.startswith(old + "/"):
                self.known[new + n[len(old) :]] = self.known.pop(n)
        self.acked = [((new + a[0][len(old) :]) if (a[0] == old or a[0].startswith(old + "/")) else a[0],) + a[1:] for a in self.acked]

    # -- observation -------------------------------------------------------------
    async def observe_world(self, want_body=False, full=False):
        """-> {name: {'attrs', 'uv', 'uidnext', 'msgs':[...], 'status':{...}}}"""
        o = self.obs
        if not o.alive:
            o = self.obs = self.w.session("o")
        r = await o.cmd(b'LIST "" "*"')
        out = {"__list__": {}, "__lsub__": {}}
        for x in r.untagged("LIST"):
            try:
                attrs, delim, nm, ext = wire.list_item(x)
            except wire.Malformed:
                continue
            out["__list__"][nm.decode("latin-1")] = frozenset(a for a in attrs if a not in ("\\Marked", "\\Unmarked"))
        r = await o.cmd(b'LSUB "" "*"')
        for x in r.untagged("LSUB"):
            try:
                attrs, delim, nm, ext = wire.list_item(x)
            except wire.Malformed:
                continue
            out["__lsub__"][nm.decode("latin-1")] = True
        for nm, attrs in sorted(out["__list__"].items()):
            if "\\Noselect" in attrs:
                continue
            key = "inbox" if nm.upper() == "INBOX" else nm
            rs = await o.cmd(b"STATUS " + enc(nm) + b" (MESSAGES UIDNEXT UIDVALIDITY UNSEEN)")
            status = None
            for x in rs.untagged("STATUS"):
                try:
                    status = wire.status_items(x)[1]
                except wire.Malformed:
                    pass
            known = None if full else self.known.setdefault(key, {})
            info = await observe_mailbox(o, enc(nm), want_body=want_body, known=known)
            if info is None:
                out[key] = None
                continue
            info["status"] = status
            out[key] = info
        return out

    def prologue(self):
        """40% of the histories start by driving a folder through a pack."""
        if not self.trace.get("pack_prologue"):
            return []
        self.labels.add("pack-prologue")
        return [{"op": "expunge", "box": 0, "set": [], "top": False, "low": 2}, {"op": "advance", "t": 2}]

    def finish(self):
        res = self.res
        res.violations = self.viol
        res.blocked = self.blocked if not self.viol else None
        res.sample = self.transcript
        res.labels.extend(sorted(self.labels))
        res.nontrivial = self.nontrivial
        return res

"""Independent reader for IMAP4rev1 *responses* (RFC 3501 section 9) and POP3
replies.  Shares no code with asimap/parse.py (which parses commands).

Tokens:  atoms -> str,  quoted -> QStr(bytes),  literal -> Lit(bytes),
NIL -> None,  parenthesised list -> list.
"""
from __future__ import annotations

import re


class Malformed(Exception):
    def __init__(self, clause: str, pos: int, detail: str = ""):
        super().__init__(f"{clause} at {pos}: {detail}")
        self.clause = clause
        self.pos = pos
        self.detail = detail


class QStr(bytes):
    pass


class Lit(bytes):
    pass


ATOM_SPECIALS = b'(){ %*"\\]'  # resp-specials; we are more permissive below
STATUS_WORDS = ("OK", "NO", "BAD", "BYE", "PREAUTH")


class Resp:
    __slots__ = ("kind", "tag", "name", "num", "data", "code", "text", "raw", "start", "end")

    def __init__(self):
        self.kind = None  # 'untagged' | 'tagged' | 'cont'
        self.tag = None
        self.name = None  # upper-case response name / status word
        self.num = None
        self.data = None  # token list after the name
        self.code = None  # response code token list (for status responses)
        self.text = None
        self.raw = b""
        self.start = 0
        self.end = 0

    def __repr__(self):
        return f"<Resp {self.kind} {self.tag or ''} {self.num if self.num is not None else ''} {self.name} {self.data!r:.80}>"


class _Tok:
    """Tokenizer over one response (which may span literals)."""

    def __init__(self, buf: bytes, pos: int, strict: bool):
        self.b = buf
        self.p = pos
        self.strict = strict

    def peek(self):
        return self.b[self.p : self.p + 1]

    def at_crlf(self):
        return self.b[self.p : self.p + 2] == b"\r\n"

    def need_sep(self):
        """After a string/list the next octet must be SP, ')' , ']' or CRLF."""
        c = self.peek()
        if c in (b" ", b")", b"]", b"") or self.at_crlf():
            return
        raise Malformed("token.missing-separator", self.p, repr(self.b[self.p - 10 : self.p + 10]))

    def quoted(self):
        assert self.peek() == b'"'
        p = self.p + 1
        out = bytearray()
        b = self.b
        n = len(b)
        while True:
            if p >= n:
                raise Malformed("incomplete", p, "unterminated quoted string")
            c = b[p]
            if c == 0x22:
                p += 1
                break
            if c == 0x5C:  # backslash
                if p + 1 >= n:
                    raise Malformed("incomplete", p, "unterminated quoted string")
                d = b[p + 1]
                if d not in (0x22, 0x5C):
                    raise Malformed("quoted.bad-escape", p, repr(b[p : p + 2]))
                out.append(d)
                p += 2
                continue
            if c in (0x0D, 0x0A):
                raise Malformed("quoted.raw-crlf", p, repr(b[max(0, p - 20) : p + 2]))
            if c == 0:
                raise Malformed("quoted.nul", p)
            out.append(c)
            p += 1
        self.p = p
        self.need_sep()
        return QStr(bytes(out))

    def literal(self):
        m = re.compile(rb"\{(\d+)\}\r\n").match(self.b, self.p)
        if not m:
            raise Malformed("literal.bad-header", self.p, repr(self.b[self.p : self.p + 20]))
        n = int(m.group(1))
        s = m.end()
        if s + n > len(self.b):
            raise Malformed("incomplete", self.p, "literal longer than data")
        self.p = s + n
        self.need_sep()
        return Lit(self.b[s : s + n])

    def atom(self):
        b = self.b
        p = self.p
        n = len(b)
        s = p
        depth = 0
        while p < n:
            c = b[p]
            if depth == 0:
                if c in b' ()"' or c < 0x20 or c == 0x7F:
                    break
                if c == 0x7B:  # '{'
                    break
                if c == 0x5B and b[s:p].upper() in (b"BODY", b"BODY.PEEK", b"BINARY", b"BINARY.PEEK", b"BINARY.SIZE"):
                    # '[' opens a section only after a BODY/BINARY item name;
                    # elsewhere (flag keywords) it is an ordinary atom character
                    depth = 1
                elif c == 0x5D:  # ']' closes a resp-code, not ours
                    break
            else:
                if c in (0x0D, 0x0A):
                    raise Malformed("section.raw-crlf", p)
                if c == 0x5B:
                    depth += 1
                elif c == 0x5D:
                    depth -= 1
            p += 1
        if p == s:
            raise Malformed("token.empty", p, repr(b[p : p + 10]))
        if depth != 0:
            raise Malformed("incomplete", p, "unbalanced [ in atom")
        self.p = p
        a = b[s:p]
        if any(ch >= 0x80 for ch in a):
            raise Malformed("atom.8bit", s, repr(a))
        return a.decode("latin-1")

    def value(self):
        c = self.peek()
        if c == b"(":
            return self.plist()
        if c == b'"':
            return self.quoted()
        if c == b"{":
            return self.literal()
        a = self.atom()
        if a == "NIL":
            return None
        return a

    def plist(self):
        assert self.peek() == b"("
        self.p += 1
        out = []
        if self.peek() == b")":
            self.p += 1
            self.need_sep_list()
            return out
        while True:
            if self.p >= len(self.b):
                raise Malformed("incomplete", self.p, "unterminated list")
            out.append(self.value())
            c = self.peek()
            if c == b" ":
                self.p += 1
                if self.peek() == b")":
                    if self.strict:
                        raise Malformed("list.trailing-space", self.p)
                    continue
                if self.peek() == b" " and self.strict:
                    raise Malformed("list.double-space", self.p)
                continue
            if c == b")":
                self.p += 1
                self.need_sep_list()
                return out
            if c == b"(":
                # RFC allows "(a)(b)" in body structures (no SP between parts)
                continue
            raise Malformed("list.unbalanced", self.p, repr(self.b[self.p - 20 : self.p + 20]))

    def need_sep_list(self):
        c = self.peek()
        if c in (b" ", b")", b"(", b"]", b"") or self.at_crlf():
            return
        raise Malformed("token.missing-separator", self.p, repr(self.b[self.p - 10 : self.p + 10]))

    def values_to_eol(self):
        out = []
        while True:
            if self.at_crlf():
                self.p += 2
                return out
            if self.p >= len(self.b):
                raise Malformed("incomplete", self.p, "no CRLF")
            if self.peek() == b" ":
                if self.strict and (not out or self.b[self.p + 1 : self.p + 2] in (b" ", b"\r")):
                    # a single trailing space before CRLF is tolerated for
                    # "* SEARCH " (empty result) -- RFC: "* SEARCH" [SP nz-number]*
                    if self.b[self.p + 1 : self.p + 3] == b"\r\n":
                        self.p += 1
                        continue
                    raise Malformed("line.double-space", self.p)
                self.p += 1
                continue
            c = self.peek()
            if c in (b"\r", b"\n"):
                raise Malformed("line.bare-cr-or-lf", self.p)
            if c == b")":
                raise Malformed("list.unbalanced", self.p, "stray )")
            out.append(self.value())

    def text_to_eol(self):
        i = self.b.find(b"\r\n", self.p)
        j = self.b.find(b"\n", self.p)
        if i < 0:
            raise Malformed("incomplete", self.p, "no CRLF in text")
        if j >= 0 and j < i:
            raise Malformed("text.bare-lf", j)
        k = self.b.find(b"\r", self.p)
        if 0 <= k < i:
            raise Malformed("text.bare-cr", k)
        t = self.b[self.p : i]
        self.p = i + 2
        return t


_TAG_RE = re.compile(rb"[A-Za-z0-9._:\-]+")


def _parse_one(buf: bytes, pos: int, strict: bool) -> Resp:
    r = Resp()
    r.start = pos
    t = _Tok(buf, pos, strict)
    if buf[pos : pos + 2] == b"+ " or buf[pos : pos + 3] == b"+\r\n":
        r.kind = "cont"
        t.p = pos + (2 if buf[pos : pos + 2] == b"+ " else 1)
        r.text = t.text_to_eol()
        r.name = "+"
    elif buf[pos : pos + 2] == b"* ":
        r.kind = "untagged"
        t.p = pos + 2
        first = t.atom()
        if first.isdigit():
            r.num = int(first)
            if t.peek() != b" ":
                raise Malformed("line.missing-space", t.p)
            t.p += 1
            r.name = t.atom().upper()
            if t.at_crlf():
                t.p += 2
                r.data = []
            else:
                if t.peek() != b" ":
                    raise Malformed("line.missing-space", t.p)
                t.p += 1
                r.data = t.values_to_eol()
        else:
            r.name = first.upper()
            if r.name in STATUS_WORDS:
                _status_rest(t, r)
            else:
                if t.at_crlf():
                    t.p += 2
                    r.data = []
                else:
                    if t.peek() != b" ":
                        raise Malformed("line.missing-space", t.p)
                    t.p += 1
                    r.data = t.values_to_eol()
    else:
        m = _TAG_RE.match(buf, pos)
        if not m or buf[m.end() : m.end() + 1] != b" ":
            raise Malformed("line.bad-start", pos, repr(buf[pos : pos + 30]))
        r.kind = "tagged"
        r.tag = m.group(0).decode()
        t.p = m.end() + 1
        w = t.atom().upper()
        if w not in ("OK", "NO", "BAD"):
            raise Malformed("tagged.bad-status", pos, w)
        r.name = w
        _status_rest(t, r)
    r.end = t.p
    r.raw = buf[r.start : r.end]
    return r


def _status_rest(t: _Tok, r: Resp) -> None:
    if t.at_crlf():
        if t.strict:
            raise Malformed("status.no-text", t.p)
        t.p += 2
        r.text = b""
        return
    if t.peek() != b" ":
        raise Malformed("line.missing-space", t.p)
    t.p += 1
    if t.peek() == b"[":
        # response code: atom [SP values] ']'
        t.p += 1
        code = [t.atom()]
        while t.peek() == b" ":
            t.p += 1
            code.append(t.value())
        if t.peek() != b"]":
            raise Malformed("code.unterminated", t.p)
        t.p += 1
        r.code = code
        if t.peek() == b" ":
            t.p += 1
        elif not t.at_crlf():
            raise Malformed("line.missing-space", t.p)
    r.text = t.text_to_eol()


def parse_stream(buf: bytes, strict: bool = True, tags=()):
    """Parse a whole byte stream.  Returns (responses, errors, consumed).

    strict=True: raises Malformed at the first problem ('incomplete' when the
    stream simply ends inside a response).
    strict=False: on a problem, records it in errors and resynchronises at the
    next CRLF followed by '* ', '+ ' or a known tag."""
    pos = 0
    out = []
    errors = []
    n = len(buf)
    while pos < n:
        try:
            r = _parse_one(buf, pos, strict)
        except Malformed as e:
            if strict:
                raise
            errors.append(e)
            if e.clause == "incomplete" and buf.find(b"\r\n", pos) < 0:
                break
            nxt = _resync(buf, pos, tags)
            if nxt is None:
                break
            pos = nxt
            continue
        out.append(r)
        pos = r.end
    return out, errors, pos


def _resync(buf, pos, tags):
    p = pos
    while True:
        i = buf.find(b"\r\n", p)
        if i < 0:
            return None
        q = i + 2
        if q >= len(buf):
            return None
        if buf[q : q + 2] in (b"* ", b"+ "):
            return q
        for t in tags:
            tb = t.encode() + b" "
            if buf[q : q + len(tb)] == tb:
                return q
        p = q


# ---------------------------------------------------------------- accessors


def num(x):
    return int(x) if isinstance(x, str) and x.isdigit() else None


def fetch_items(r: Resp) -> dict:
    """* n FETCH (att val att val ...) -> {ATT: val}; att upper-cased (section kept)."""
    assert r.name == "FETCH"
    if len(r.data) != 1 or not isinstance(r.data[0], list):
        raise Malformed("fetch.shape", r.start, repr(r.data)[:80])
    lst = r.data[0]
    if len(lst) % 2:
        raise Malformed("fetch.odd-items", r.start, repr(lst)[:120])
    out = {}
    for i in range(0, len(lst), 2):
        k = lst[i]
        if not isinstance(k, str):
            raise Malformed("fetch.att-not-atom", r.start, repr(k)[:60])
        out[_norm_att(k)] = lst[i + 1]
    return out


def _norm_att(k: str) -> str:
    i = k.find("[")
    if i < 0:
        return k.upper()
    return k[:i].upper() + k[i:].upper()


def flags_of(items: dict):
    f = items.get("FLAGS")
    if f is None:
        return None
    return frozenset(f)


def status_items(r: Resp):
    """* STATUS name (k v k v) -> (name bytes, {K: int})."""
    assert r.name == "STATUS"
    if len(r.data) != 2 or not isinstance(r.data[1], list):
        raise Malformed("status.shape", r.start, repr(r.data)[:80])
    name = r.data[0]
    lst = r.data[1]
    d = {}
    for i in range(0, len(lst) - 1, 2):
        d[lst[i].upper()] = int(lst[i + 1])
    return astring(name), d


def astring(x) -> bytes:
    if isinstance(x, bytes):
        return bytes(x)
    if x is None:
        return b"NIL"
    return x.encode("latin-1")


def list_item(r: Resp):
    """* LIST (attrs) delim name [ext] -> (set(attrs), delim, name bytes, ext)."""
    if len(r.data) < 3 or not isinstance(r.data[0], list):
        raise Malformed("list.shape", r.start, repr(r.data)[:80])
    attrs = set(r.data[0])
    delim = r.data[1]
    name = astring(r.data[2])
    ext = r.data[3:] if len(r.data) > 3 else None
    return attrs, delim, name, ext


def search_nums(r: Resp):
    out = []
    for x in r.data:
        if not (isinstance(x, str) and x.isdigit()):
            raise Malformed("search.non-number", r.start, repr(x))
        out.append(int(x))
    return out


def code_of(r: Resp, name: str):
    """Return the args of response code `name` or None."""
    if r.code and r.code[0].upper() == name.upper():
        return r.code[1:]
    return None


def parse_uid_set(s: str):
    """'1:3,5' -> [1,2,3,5] (for APPENDUID/COPYUID)."""
    out = []
    for part in s.split(","):
        if ":" in part:
            a, b = part.split(":")
            a, b = int(a), int(b)
            if a > b:
                a, b = b, a
            out.extend(range(a, b + 1))
        else:
            out.append(int(part))
    return out


# ---------------------------------------------------------------- POP3


class Pop3Reply:
    __slots__ = ("ok", "line", "body", "raw_body")

    def __init__(self, ok, line, body=None, raw_body=None):
        self.ok = ok
        self.line = line
        self.body = body  # unstuffed lines joined with CRLF (bytes) or None
        self.raw_body = raw_body


def pop3_parse(buf: bytes, multiline: bool):
    """Parse one POP3 reply at the start of buf. Returns (Pop3Reply, consumed)
    or raises Malformed('incomplete'...)."""
    i = buf.find(b"\r\n")
    if i < 0:
        raise Malformed("incomplete", 0, "no status line")
    line = buf[:i]
    if line.startswith(b"+OK"):
        ok = True
    elif line.startswith(b"-ERR"):
        ok = False
    else:
        raise Malformed("pop3.bad-status", 0, repr(line[:40]))
    pos = i + 2
    if not ok or not multiline:
        return Pop3Reply(ok, line), pos
    # multi-line: lines until ".\r\n"
    lines = []
    start = pos
    while True:
        j = buf.find(b"\r\n", pos)
        if j < 0:
            raise Malformed("incomplete", pos, "no terminator")
        ln = buf[pos:j]
        if b"\n" in ln or b"\r" in ln:
            raise Malformed("pop3.bare-cr-or-lf", pos)
        pos = j + 2
        if ln == b".":
            break
        if ln.startswith(b"."):
            ln = ln[1:]
        lines.append(ln)
    raw = buf[start : pos - 3]
    body = b"".join(l + b"\r\n" for l in lines)
    return Pop3Reply(ok, line, body, raw), pos

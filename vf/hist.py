"""Shared history interpreter + reference model for the mailbox-history
properties (C01-C05, C12, C13, C20 share it).

A *trace* is JSON: {"rseed", "profile", "steps":[abstract step,...]}.
Abstract steps carry small integers that are resolved against the run-time
state (session view length, live UIDs, mailbox list), so that any sub-list of
steps is still a valid history (needed for ddmin) and a trace replays exactly.

The model is pure Python and never imports asimap.
"""
from __future__ import annotations

import re
from dataclasses import dataclass, field

from . import wire
from .driver import Hang, ImapSession, World, observe_mailbox, quote, tagged_message
from .run import CaseResult, Violation

SYSTEM = {"\\Seen", "\\Answered", "\\Flagged", "\\Deleted", "\\Draft"}
MBOXES = ["inbox", "mb", "other"]  # index space of mailbox choices
# (the last four are pieces of system-flag names: seeded/C04-5 dropped keywords that are substrings of `\\Recent`)
KEYWORDS = ["kw1", "kw2", "$Fwd", "work.later", "a-b+c", "x&y", "it's", "hey!"]
# pieces of system-flag names (seeded/C04-5 dropped keywords that are substrings of `\\Recent`); used by traces with
# "kwx": true, so that the indices of older replay files keep their meaning
KEYWORDS_X = ["e", "Re", "cent", "een"]
ALIAS_KEYWORDS = ["Seen", "replied", "flagged", "Deleted", "Draft", "Recent", "unseen"]
ODD_KEYWORDS = ["a:b", "k:", "$MDN:sent"]
DATES = ['"01-Jan-2020 10:00:00 +0000"', '" 5-Mar-2021 23:59:59 -0800"', '"17-Jul-2019 00:00:01 +0530"', '"31-Dec-2022 12:00:00 +0000"']


# ------------------------------------------------------------------ model


@dataclass
class MMsg:
    tag: str
    flags: set
    arrival: int
    uid: int | None = None
    date: str | None = None  # APPEND date-time text if given
    origin: str = "append"
    recent: bool = True
    alive: bool = True

    def eff_flags(self):
        f = set(self.flags)
        if "\\Seen" not in f:
            f.add("unseen")
        return f


@dataclass
class MBox:
    name: str
    msgs: list = field(default_factory=list)  # live, in order
    history: list = field(default_factory=list)  # everything ever, by arrival
    uidvalidity: int | None = None
    max_uid_seen: int = 0
    uidnext_told: int = 0

    def add(self, m: MMsg):
        m.arrival = len(self.history)
        self.history.append(m)
        self.msgs.append(m)

    def remove(self, m: MMsg):
        m.alive = False
        self.msgs = [x for x in self.msgs if x is not m]


class Model:
    def __init__(self):
        self.boxes: dict[str, MBox] = {}
        self.ntag = 0

    def new_tag(self):
        self.ntag += 1
        return f"t{self.ntag}"


def norm_flags(fl) -> frozenset:
    """Canonical comparison form: drop \\Recent, case-fold system flags."""
    out = set()
    for f in fl:
        if f.lower() == "\\recent":
            continue
        if f.startswith("\\"):
            out.add("\\" + f[1:].capitalize())
        else:
            out.add(f)
    return frozenset(out)


def resolve_set(elts, n_view: int, uid_mode: bool, live_uids: list, view_uids: list, unknown_tail: bool = False):
    """Turn abstract set elements into (text, spec): spec is a list of (lo, hi)
    pairs whose ends are ints or "*" - the RFC 3501 denotation is computed later
    by `History.addressed` against the state at execution time.
    Returns None if nothing can be generated.

    unknown_tail: the mailbox holds messages whose UID the harness does not know
    yet (deliveries); then no 'absent' UID above the highest known one is
    generated, because it might be theirs."""

    def one(e):
        k = e["k"]
        if k == "*":
            return "*", "*"
        if k == "i":
            if uid_mode:
                known = [u for u in view_uids if u is not None] or list(live_uids)
                if not known:
                    return None
                u = known[e["v"] % len(known)]
                return str(u), u
            if not n_view:
                return None
            s = 1 + e["v"] % n_view
            return str(s), s
        if k == "x":  # absent uid (UID mode only)
            mx = max(live_uids) if live_uids else 0
            top = mx if unknown_tail else mx + 3
            cand = [u for u in range(1, top + 1) if u not in live_uids]
            if not cand:
                return None
            u = cand[e["v"] % len(cand)]
            return str(u), u
        return None

    parts = []
    spec = []
    for e in elts:
        if e["k"] == "r":
            a = one(e["a"])
            b = one(e["b"])
            if a is None or b is None:
                continue
            parts.append(f"{a[0]}:{b[0]}")
            spec.append((a[1], b[1]))
        else:
            r = one(e)
            if r is None:
                continue
            parts.append(r[0])
            spec.append((r[1], r[1]))
    if not parts:
        return None
    return ",".join(parts), spec


# --------------------------------------------------------------- sessions


class SessState:
    def __init__(self, name: str, sess: ImapSession):
        self.name = name
        self.sess = sess
        self.sel: str | None = None
        self.examine = False
        self.view: list = []  # MMsg per cell (client's replayed view)
        self.idle = False
        self.parsed_to = 0  # stream offset replayed so far
        self.in_cmd = None  # (kind, uid_mode) of the command in progress
        self.flag_reports = {}  # id(MMsg) -> last reported norm flags (since last clear)
        self.dead = False
        self.hiwater = -1  # highest arrival index ever in this view
        self.broken = False  # a C01 legality clause already failed for this view


class History:
    """Runs abstract steps; keeps the model and the per-session views; reports
    clause violations through `self.v(clause, detail)`."""

    def __init__(self, trace, prop: str, clauses: set, nsess=2, observe_every=True, pack_limit=None,
                 want_body=False, sched=None):
        self.trace = trace
        self.prop = prop
        self.clauses = clauses  # clause-id prefixes this run asserts
        self.res = CaseResult()
        self.viol: list[Violation] = []
        self.blocked = None
        self.model = Model()
        # (a trace may ask for a lowered FOLDER_SIZE_PACK_LIMIT so that the management task packs the folder
        #  during the history: renumbering the files must not be visible through IMAP - seeded/C05-4)
        self.w = World(rseed=trace.get("rseed", 0), pack_limit=pack_limit if pack_limit is not None else trace.get("pack_limit"), sched=sched)
        if trace.get("pack_limit"):
            self.res.labels.append("pack-limit-lowered")
        self.ss: dict[str, SessState] = {}
        self.obs: ImapSession | None = None
        self.transcript = []
        self.want_body = want_body
        self.labels = set()
        self.first_body = {}  # (box, uidvalidity, uid) -> (body, idate)
        self.ledger = {}  # (box, uidvalidity, uid) -> tag
        self.known = {}  # box -> {(uidvalidity, uid): (tag, body)} observer cache
        self.issuer = None
        self.cross = 0  # EXISTS/EXPUNGE received by a session other than the issuer
        self.need_resync = set()  # boxes whose model must adopt reality (ambiguous step)

    # ---- reporting -------------------------------------------------------
    def v(self, clause: str, detail: str, sig: str = ""):
        pid = clause.split(".")[0]
        if pid == self.prop or clause.startswith(tuple(self.clauses)):
            self.viol.append(Violation(self.prop, clause, detail, self.trace, sig))
        elif self.blocked is None:
            self.blocked = pid

    def note(self, **kw):
        self.transcript.append(kw)

    # ---- boot ------------------------------------------------------------
    async def boot(self, boxes=("mb", "other")):
        await self.w.boot()
        self.obs = self.w.session("o")
        for b in boxes:
            r = await self.obs.cmd(b"CREATE " + b.encode())
            if not r.ok:
                raise RuntimeError(f"setup CREATE {b}: {r.raw!r}")
        for b in ("inbox",) + tuple(boxes):
            self.model.boxes[b] = MBox(b)

    def sess(self, name: str) -> SessState:
        st = self.ss.get(name)
        if st is None or st.dead or not st.sess.alive:
            st = SessState(name, self.w.session(name))
            self.ss[name] = st
        return st

    # ---- stream replay (C01 legality + flag reports) -----------------------
    def replay_streams(self):
        for st in list(self.ss.values()):
            self._replay(st)

    def vv(self, st: SessState, clause: str, detail: str, sig: str = ""):
        """Report a view-legality violation once per selected view."""
        if st.broken:
            return
        st.broken = True
        self.v(clause, detail, sig)

    def _replay(self, st: SessState):
        buf = st.sess.stream
        if st.parsed_to >= len(buf):
            return
        resps, errors, used = wire.parse_stream(buf[st.parsed_to :], strict=False, tags=())
        # parse_stream stops at an incomplete tail; only consume what parsed
        base = st.parsed_to
        st.parsed_to = base + used
        if errors:
            self.res.labels.append("unreadable_responses")
        box = self.model.boxes.get(st.sel) if st.sel else None
        for r in resps:
            if r.kind != "untagged":
                continue
            if r.name in ("EXISTS", "EXPUNGE") and box is not None and st.name != self.issuer:
                self.cross += 1
            if r.name == "EXISTS" and box is not None:
                n = r.num
                if n < len(st.view):
                    self.vv(st, "C01.exists.shrinks", f"session {st.name}: '* {n} EXISTS' but its view has {len(st.view)} messages (no EXPUNGE sent)", "")
                    # resynchronise the harness view so later clauses stay meaningful
                    del st.view[n:]
                elif n > len(st.view):
                    last = max([m.arrival for m in st.view] + [st.hiwater])
                    cand = [m for m in box.history if m.arrival > last]
                    need = n - len(st.view)
                    if len(cand) < need:
                        self.vv(st, "C01.exists.phantom", f"session {st.name}: '* {n} EXISTS' announces {need} new message(s) but only {len(cand)} were ever added", "")
                    st.view.extend(cand[:need])
                    st.hiwater = max([st.hiwater] + [m.arrival for m in cand[:need]])
            elif r.name == "EXPUNGE" and box is not None:
                n = r.num
                if st.in_cmd and st.in_cmd[0] in ("FETCH", "STORE", "SEARCH") and not st.in_cmd[1]:
                    self.vv(st, "C01.expunge.during", f"session {st.name}: '* {n} EXPUNGE' sent while its non-UID {st.in_cmd[0]} was in progress", st.in_cmd[0])
                if n < 1 or n > len(st.view):
                    self.vv(st, "C01.expunge.range", f"session {st.name}: '* {n} EXPUNGE' but its view has {len(st.view)} messages", "")
                else:
                    m = st.view.pop(n - 1)
                    if m.alive:
                        self.vv(st, "C01.expunge.live", f"session {st.name}: '* {n} EXPUNGE' removes view cell bound to {m.tag} (uid {m.uid}) which still exists", "")
            elif r.name == "FETCH" and box is not None:
                n = r.num
                try:
                    items = wire.fetch_items(r)
                except wire.Malformed:
                    continue
                if n < 1 or n > len(st.view):
                    self.vv(st, "C01.fetch.range", f"session {st.name}: '* {n} FETCH' but its view has {len(st.view)} messages", "")
                    continue
                m = st.view[n - 1]
                if "UID" in items:
                    u = int(items["UID"])
                    if m.uid is None:
                        m.uid = u
                    elif m.uid != u:
                        self.vv(st, "C01.fetch.uid-mismatch", f"session {st.name}: '* {n} FETCH (UID {u})' but cell {n} of its view is {m.tag} with uid {m.uid}", "")
                if "FLAGS" in items:
                    st.flag_reports[id(m)] = (norm_flags(items["FLAGS"]), m)

    # ---- observer ----------------------------------------------------------
    async def observe(self, name: str, full: bool = False):
        known = None if full else self.known.setdefault(name, {})
        info = await observe_mailbox(self.obs, quote(name) if " " in name else name.encode(), want_body=self.want_body, known=known)
        return info

    async def check_against_model(self, name: str, clause_prefix: str, what: str):
        """Compare the observer's view of mailbox `name` with the model."""
        box = self.model.boxes[name]
        info = await self.observe(name)
        if info is None:
            self.v(f"{clause_prefix}.unobservable", f"{what}: mailbox {name} cannot be examined", "")
            return None
        got = [(x["tag"], x["uid"]) for x in info["msgs"]]
        exp = [(m.tag, m.uid) for m in box.msgs]
        if [g[0] for g in got] != [e[0] for e in exp]:
            self.v(f"{clause_prefix}.messages", f"{what}: mailbox {name} holds {[g[0] for g in got]} expected {[e[0] for e in exp]}", "")
            return info
        for x, m in zip(info["msgs"], box.msgs):
            if m.uid is None:
                m.uid = x["uid"]
            elif m.uid != x["uid"]:
                self.v(f"{clause_prefix}.uid", f"{what}: {m.tag} in {name} has uid {x['uid']}, model bound it to {m.uid}", "")
        return info

    # ---- steps -------------------------------------------------------------
    async def run_cmd(self, st: SessState, line: bytes, kind: str, uid_mode=False):
        # bytes already in the stream belong to earlier commands
        self._replay(st)
        st.in_cmd = (kind, uid_mode)
        self.issuer = st.name
        r = await st.sess.cmd(line)
        self.res.steps += 1
        self.note(s=st.name, c=line[:90].decode("latin-1"), r=r.status, t=round(r.vdur, 2))
        if r.hang or r.watchdog:
            self.v("C06.watchdog", f"{line[:60]!r} answered only by the watchdog", kind)
        if r.closed and not st.sess.alive:
            st.dead = True
            if st.sel and st.name in self.ss:
                pass
        # NB: the streams are replayed by settle_cmd(), after the caller has
        # brought the model up to date with this command's effects.
        return r

    def settle_cmd(self, st: SessState):
        self._replay(st)
        st.in_cmd = None
        self.replay_streams()

    def live_uids(self, box: MBox):
        return [m.uid for m in box.msgs if m.uid is not None]

    def in_sync(self, st: SessState) -> bool:
        """The session's view is the server's list, except for deliveries the
        session has not been told about yet (they sit at the tail)."""
        box = self.model.boxes[st.sel]
        live = box.msgs
        v = st.view
        return len(v) <= len(live) and all(a is b for a, b in zip(v, live)) and all(m.origin == "deliver" for m in live[len(v):])

    async def bind_unknown_uids(self, name: str):
        """Deliveries have no known UID until somebody reveals it.  Before a UID
        set is generated for a mailbox, let the observer reveal them (this also
        makes the server notice the delivery, as any client's command would)."""
        box = self.model.boxes[name]
        if all(m.uid is not None for m in box.msgs):
            return
        info = await self.observe(name)
        self.replay_streams()
        if info is None:
            return
        if [x["tag"] for x in info["msgs"]] == [m.tag for m in box.msgs]:
            for x, m in zip(info["msgs"], box.msgs):
                if m.uid is None:
                    m.uid = x["uid"]

    def resolve(self, st: SessState, elts, uid_mode: bool):
        box = self.model.boxes[st.sel]
        unknown_tail = any(m.uid is None for m in box.msgs)
        return resolve_set(elts, len(st.view), uid_mode, self.live_uids(box), [m.uid for m in st.view], unknown_tail)

    def in_sync_after_flush(self, st: SessState) -> bool:
        """Would the view equal the server's list once its pending EXPUNGEs
        (cells bound to messages that no longer exist) have been delivered?"""
        box = self.model.boxes[st.sel]
        live = box.msgs
        v = [m for m in st.view if m.alive]
        return len(v) <= len(live) and all(a is b for a, b in zip(v, live)) and all(m.origin in ("deliver",) or m.arrival > st.hiwater for m in live[len(v):])

    def addressed(self, st: SessState, spec, uid_mode: bool, flushes: bool = False):
        """Messages the set denotes per RFC 3501 at execution time: by then the
        server has noticed every delivery (it resyncs before running a command),
        so for a session in sync the list is `box.msgs`; `*` is its last message.
        Returns None when the session is not in sync (pending EXPUNGEs): the
        denotation of a sequence number is then ambiguous and nothing is judged."""
        box = self.model.boxes[st.sel]
        lst = list(box.msgs)
        if uid_mode:
            INF = 10**12

            def val(m):
                # unknown uids (deliveries) are larger than every known one and ascend with arrival
                return m.uid if m.uid is not None else INF + m.arrival

            star = val(lst[-1]) if lst else None
            out = []
            for lo, hi in spec:
                lo = star if lo == "*" else lo
                hi = star if hi == "*" else hi
                if lo is None or hi is None:
                    continue
                lo, hi = min(lo, hi), max(lo, hi)
                for m in lst:
                    if lo <= val(m) <= hi and m not in out:
                        out.append(m)
            return sorted(out, key=lambda m: m.arrival)
        if not self.in_sync(st) and not (flushes and self.in_sync_after_flush(st)):
            return None
        n = len(lst)
        seqs = set()
        for lo, hi in spec:
            lo = n if lo == "*" else lo
            hi = n if hi == "*" else hi
            lo, hi = min(lo, hi), max(lo, hi)
            if lo < 1 or hi > n:
                return []  # must be refused; callers check the status
            seqs.update(range(lo, hi + 1))
        return [lst[i - 1] for i in sorted(seqs)]


# =========================================================== step executor


def flag_text(flags) -> str:
    return "(" + " ".join(flags) + ")"


class Runner(History):
    """History + the concrete step implementations and model updates."""

    async def do_step(self, s: dict):
        op = s["op"]
        fn = getattr(self, "op_" + op)
        return await fn(s)

    # -- selection ------------------------------------------------------------
    async def op_select(self, s):
        st = self.sess(s["s"])
        if st.idle:
            await self._done(st)
        name = MBOXES[s["box"] % len(MBOXES)]
        examine = bool(s.get("examine"))
        # replay what arrived before; the old view dies with the new SELECT
        self._replay(st)
        st.sel = None
        st.view = []
        r = await st.sess.cmd((b"EXAMINE " if examine else b"SELECT ") + name.encode())
        self.res.steps += 1
        self.note(s=st.name, c=("EXAMINE " if examine else "SELECT ") + name, r=r.status)
        if r.hang or r.watchdog:
            self.v("C06.watchdog", f"SELECT {name} answered only by the watchdog", "SELECT")
        if not r.ok:
            st.parsed_to = len(st.sess.writer.buf)
            return r
        box = self.model.boxes[name]
        n = None
        for x in r.resps:
            if x.kind == "untagged" and x.name == "EXISTS":
                n = x.num
            if x.kind == "untagged" and x.name == "OK" and x.code:
                c = x.code[0].upper()
                if c == "UIDVALIDITY":
                    uv = int(x.code[1])
                    self.on_uidvalidity(box, uv, "SELECT")
                elif c == "UIDNEXT":
                    self.on_uidnext(box, int(x.code[1]), "SELECT")
        st.parsed_to = len(st.sess.writer.buf)
        st.sel = name
        st.examine = examine
        st.broken = False
        st.flag_reports = {}
        if n is None:
            self.v("C01.select.no-exists", f"SELECT {name}: no EXISTS response", "")
            n = 0
        # the snapshot is the server's message list: the first n live model messages
        # (a delivery not yet noticed by the server sits at the end and is not counted)
        if n > len(box.msgs):
            self.v("C01.select.count", f"SELECT {name}: EXISTS {n} but only {len(box.msgs)} messages exist", "")
            n = len(box.msgs)
        unnoticed = [m for m in box.msgs[n:] if m.origin != "deliver"]
        if unnoticed:
            self.v("C01.select.count", f"SELECT {name}: EXISTS {n} but {len(box.msgs)} messages exist ({[m.tag for m in unnoticed]} not counted)", "")
        st.view = list(box.msgs[:n])
        # everything that arrived before the snapshot is either in it or gone
        st.hiwater = (box.msgs[n].arrival - 1) if n < len(box.msgs) else (len(box.history) - 1)
        self.replay_streams()
        return r

    def on_uidvalidity(self, box: MBox, uv: int, where: str):
        if box.uidvalidity is None:
            box.uidvalidity = uv
        elif box.uidvalidity != uv:
            self.v("C02.uidvalidity.changed", f"{where}: UIDVALIDITY of {box.name} changed {box.uidvalidity} -> {uv}", "")
            box.uidvalidity = uv

    def on_uidnext(self, box: MBox, un: int, where: str):
        mx = max([m.uid for m in box.history if m.uid is not None] or [0])
        if un <= mx:
            self.v("C02.uidnext.low", f"{where}: UIDNEXT {un} of {box.name} is not above uid {mx} already assigned", "")
        if un < box.uidnext_told:
            self.v("C02.uidnext.decreased", f"{where}: UIDNEXT of {box.name} went {box.uidnext_told} -> {un}", "")
        box.uidnext_told = max(box.uidnext_told, un)

    async def op_unselect(self, s):
        st = self.sess(s["s"])
        if st.sel is None:
            return None
        if st.idle:
            await self._done(st)
        close = bool(s.get("close"))
        box = self.model.boxes[st.sel]
        r = await self.run_cmd(st, b"CLOSE" if close else b"UNSELECT", "CLOSE" if close else "UNSELECT")
        if r.ok:
            if close and not st.examine:
                self.model_expunge(box, [m for m in box.msgs if "\\Deleted" in m.flags], by=st, silent=True)
            self._replay(st)
            st.sel = None
            st.view = []
        self.settle_cmd(st)
        return r

    # -- adding -----------------------------------------------------------------
    def gen_flags(self, s, allow_alias=False):
        pool = ["\\Seen", "\\Answered", "\\Flagged", "\\Deleted", "\\Draft"] + KEYWORDS
        if allow_alias:
            pool = pool + ALIAS_KEYWORDS + ODD_KEYWORDS
        if self.trace.get("kwx"):
            pool = pool + KEYWORDS_X
        fl = []
        for i in s.get("flags", []):
            f = pool[i % len(pool)]
            if f not in fl:
                fl.append(f)
        return fl

    async def op_append(self, s):
        st = self.sess(s["s"])
        if st.idle:
            await self._done(st)
        name = MBOXES[s["box"] % len(MBOXES)]
        box = self.model.boxes[name]
        tag = self.model.new_tag()
        fl = self.gen_flags(s, allow_alias=self.trace.get("profile") == "alias")
        date = DATES[s["date"] % len(DATES)] if s.get("date") is not None else None
        raw = tagged_message(tag)
        line = b"APPEND " + name.encode() + b" "
        if fl:
            line += flag_text(fl).encode() + b" "
        if date:
            line += date.encode() + b" "
        line += b"{%d}\r\n" % len(raw) + raw
        r = await self.run_cmd(st, line, "APPEND")
        if r.ok:
            m = MMsg(tag, set(fl), 0, date=date, origin="append")
            box.add(m)
            code = wire.code_of(r.tagged, "APPENDUID") if r.tagged else None
            if code:
                self.on_uidvalidity(box, int(code[0]), "APPENDUID")
                self.assign_uid(box, m, int(code[1]), "APPENDUID")
        self.settle_cmd(st)
        return r

    def assign_uid(self, box: MBox, m: MMsg, uid: int, where: str):
        prev = [x.uid for x in box.history if x is not m and x.uid is not None]
        if uid in prev:
            self.v("C02.uid.reused", f"{where}: uid {uid} in {box.name} given to {m.tag} was already assigned", "")
        before = [x.uid for x in box.history if x.arrival < m.arrival and x.uid is not None]
        if before and uid <= max(before):
            self.v("C02.uid.not-ascending", f"{where}: uid {uid} for {m.tag} in {box.name} is not above earlier uid {max(before)}", "")
        if box.uidnext_told and uid < box.uidnext_told and m.uid is None:
            # a new message must get a uid >= every UIDNEXT told before it appeared
            if m.arrival >= getattr(box, "_uidnext_arrival", 0):
                pass
        m.uid = uid

    async def op_deliver(self, s):
        name = MBOXES[s["box"] % len(MBOXES)]
        box = self.model.boxes[name]
        k = 1 + s.get("n", 0) % 3
        unseen = bool(s.get("unseen", True))
        msgs = []
        for _ in range(k):
            tag = self.model.new_tag()
            msgs.append((tag, tagged_message(tag)))
        self.w.deliver(name, [m for _, m in msgs], unseen=unseen)
        for tag, _ in msgs:
            box.add(MMsg(tag, set() if unseen else {"\\Seen"}, 0, origin="deliver"))
        self.note(op="deliver", box=name, n=k, unseen=unseen)
        self.res.steps += 1
        self.labels.add("deliver")
        return None

    async def op_advance(self, s):
        secs = [0.5, 3, 6, 21][s.get("t", 1) % 4]
        await self.w.settle(secs)
        self.replay_streams()
        self.note(op="advance", t=secs)
        return None

    # -- sync points ----------------------------------------------------------------
    async def op_noop(self, s):
        st = self.sess(s["s"])
        if st.idle:
            await self._done(st)
        cmd = b"CHECK" if s.get("check") and st.sel else b"NOOP"
        r = await self.run_cmd(st, cmd, cmd.decode())
        self.settle_cmd(st)
        if r.ok and st.sel:
            self.at_sync_point(st, cmd.decode())
        return r

    async def op_idle(self, s):
        st = self.sess(s["s"])
        if st.idle:
            return await self._done(st)
        if not st.sess.alive:
            return None
        self._replay(st)
        await st.sess.idle()
        st.idle = True
        self.note(s=st.name, c="IDLE")
        await self.w.settle(0)
        self._replay(st)
        if st.sel:
            self.at_sync_point(st, "IDLE")
        return None

    async def _done(self, st: SessState):
        st.idle = False
        self._replay(st)
        r = await st.sess.done()
        self._replay(st)
        self.note(s=st.name, c="DONE", r=r.status)
        if r.status != "OK" or r.watchdog:
            self.v("C06.idle.done", f"DONE answered {r.status}", "IDLE")
        if not st.sess.alive:
            st.dead = True
        elif st.sel:
            self.at_sync_point(st, "DONE")
        return r

    def at_sync_point(self, st: SessState, what: str):
        """After NOOP/CHECK/IDLE the view must equal the server's list.  The
        server's list = live model messages, except that deliveries the server
        has not noticed yet may be missing at the tail."""
        if hasattr(self, "on_sync"):
            self.on_sync(st, what)
        box = self.model.boxes[st.sel]
        live = box.msgs
        view = st.view
        ok = len(view) <= len(live) and all(a is b for a, b in zip(view, live)) and all(m.origin == "deliver" for m in live[len(view):])
        if not ok:
            self.vv(
                st,
                "C01.sync.view-differs",
                f"after {what} session {st.name}'s replayed view of {st.sel} is {[m.tag for m in view]} but the mailbox holds {[m.tag for m in live]}",
                what,
            )
            # resynchronise so one defect is reported once per history
            st.view = list(live)

    # -- flags ------------------------------------------------------------------------
    async def op_store(self, s):
        st = self.sess(s["s"])
        if st.sel is None or not st.sess.alive:
            return None
        if st.idle:
            await self._done(st)
            if st.sel is None or not st.sess.alive:
                return None
        box = self.model.boxes[st.sel]
        uid_mode = bool(s.get("uid"))
        if uid_mode:
            await self.bind_unknown_uids(st.sel)
        rs = self.resolve(st, s["set"], uid_mode)
        if rs is None:
            return None
        text, den = rs
        action = ["+FLAGS", "-FLAGS", "FLAGS"][s.get("act", 0) % 3]
        silent = bool(s.get("silent"))
        fl = self.gen_flags(s, allow_alias=self.trace.get("profile") == "alias")
        if s.get("recent"):
            fl = fl + ["\\Recent"]
        before = {id(m): (set(m.flags), m) for m in box.msgs}
        targets = self.addressed(st, den, uid_mode)
        ambiguous = targets is None
        targets = targets or []
        line = (b"UID " if uid_mode else b"") + f"STORE {text} {action}{'.SILENT' if silent else ''} {flag_text(fl)}".encode()
        r = await self.run_cmd(st, line, "STORE", uid_mode)
        out = {"r": r, "targets": targets, "action": action, "flags": fl, "silent": silent, "uid_mode": uid_mode, "before": before, "examine": st.examine, "ambiguous": ambiguous, "text": text, "box": st.sel}
        if r.ok and ambiguous:
            self.need_resync.add(st.sel)
        if r.ok and "\\Recent" not in fl and not st.examine:
            for m in targets:
                if not m.alive:
                    continue
                if action == "+FLAGS":
                    m.flags |= set(fl)
                elif action == "-FLAGS":
                    m.flags -= set(fl)
                else:
                    m.flags = set(fl)
        self.settle_cmd(st)
        self.last_store = out
        return r

    async def op_fetch(self, s):
        st = self.sess(s["s"])
        if st.sel is None or not st.sess.alive:
            return None
        if st.idle:
            await self._done(st)
            if st.sel is None or not st.sess.alive:
                return None
        box = self.model.boxes[st.sel]
        uid_mode = bool(s.get("uid"))
        if uid_mode:
            await self.bind_unknown_uids(st.sel)
        rs = self.resolve(st, s["set"], uid_mode)
        if rs is None:
            return None
        text, den = rs
        # (the PEEK forms with a partial, RFC822.HEADER and two attributes in one FETCH were added after seeded/C04-4:
        #  a parser branch that drops `peek` for BODY.PEEK[..]<o.n>)
        WHATS = ["(UID FLAGS)", "(UID BODY.PEEK[HEADER.FIELDS (X-VF-Tag)])", "(UID BODY[HEADER.FIELDS (X-VF-Tag)])", "(UID FLAGS BODY[TEXT])", "(UID RFC822.SIZE)", "(UID BODY.PEEK[])",
                 "(UID BODY.PEEK[TEXT]<0.8>)", "(UID BODY.PEEK[]<0.2048>)", "(UID RFC822.HEADER)", "(UID BODY.PEEK[HEADER]<3.5> FLAGS)", "(UID BODY[]<0.10>)", "(UID RFC822.TEXT)", "(UID RFC822)"]
        what = WHATS[s.get("what", 0) % len(WHATS)]
        nonpeek = "BODY[" in what.replace("BODY.PEEK[", "") or "RFC822.TEXT" in what or "RFC822)" in what
        targets = self.addressed(st, den, uid_mode)
        ambiguous = targets is None
        targets = targets or []
        line = (b"UID " if uid_mode else b"") + f"FETCH {text} {what}".encode()
        r = await self.run_cmd(st, line, "FETCH", uid_mode)
        got = []
        for seq, items in r.fetches():
            if "UID" in items:
                got.append((seq, int(items["UID"]), items))
        out = {"r": r, "targets": targets, "got": got, "nonpeek": nonpeek, "uid_mode": uid_mode, "examine": st.examine, "ambiguous": ambiguous, "box": st.sel}
        if r.ok and ambiguous and nonpeek:
            self.need_resync.add(st.sel)
        out["newly_seen"] = []
        if r.ok and nonpeek and not st.examine:
            for m in targets:
                if m.alive:
                    if "\\Seen" not in m.flags:
                        out["newly_seen"].append(m)
                    m.flags.add("\\Seen")
        self.settle_cmd(st)
        self.last_fetch = out
        return r

    # -- removing ---------------------------------------------------------------------
    def model_expunge(self, box: MBox, victims, by: SessState | None, silent=False):
        for m in victims:
            box.remove(m)

    async def op_expunge(self, s):
        st = self.sess(s["s"])
        if st.sel is None or not st.sess.alive:
            return None
        if st.idle:
            await self._done(st)
            if st.sel is None or not st.sess.alive:
                return None
        box = self.model.boxes[st.sel]
        uid_mode = bool(s.get("uid"))
        if uid_mode:
            await self.bind_unknown_uids(st.sel)
            rs = self.resolve(st, s["set"], True)
            if rs is None:
                return None
            text, den = rs
            named = self.addressed(st, den, True)
            victims = [m for m in box.msgs if "\\Deleted" in m.flags and m in named]
            line = b"UID EXPUNGE " + text.encode()
        else:
            victims = [m for m in box.msgs if "\\Deleted" in m.flags]
            line = b"EXPUNGE"
        r = await self.run_cmd(st, line, "EXPUNGE", uid_mode)
        if r.ok and not st.examine:
            # model first, then replay the EXPUNGE responses against it
            self.model_expunge(box, victims, by=st)
            if victims:
                self.labels.add("expunge")
        self.settle_cmd(st)
        self.last_expunge = {"r": r, "victims": victims, "examine": st.examine}
        return r

    # -- copy / move --------------------------------------------------------------------
    async def op_copy(self, s):
        st = self.sess(s["s"])
        if st.sel is None or not st.sess.alive:
            return None
        if st.idle:
            await self._done(st)
            if st.sel is None or not st.sess.alive:
                return None
        box = self.model.boxes[st.sel]
        move = bool(s.get("move"))
        uid_mode = bool(s.get("uid"))
        if uid_mode:
            await self.bind_unknown_uids(st.sel)
        rs = self.resolve(st, s["set"], uid_mode)
        if rs is None:
            return None
        text, den = rs
        dsti = s["dst"] % (len(MBOXES) + 1)
        dname = MBOXES[dsti] if dsti < len(MBOXES) else "nonexistent"
        # COPY/MOVE deliver the session's pending notifications before they run
        targets = self.addressed(st, den, uid_mode, flushes=True)
        ambiguous = targets is None
        targets = [m for m in (targets or []) if m.alive]
        cmd = "MOVE" if move else "COPY"
        line = (b"UID " if uid_mode else b"") + f"{cmd} {text} {dname}".encode()
        r = await self.run_cmd(st, line, cmd, uid_mode)
        out = {"r": r, "targets": targets, "dst": dname, "move": move, "new": [], "examine": st.examine, "src": st.sel, "ambiguous": ambiguous}
        if r.ok and ambiguous:
            self.need_resync.add(st.sel)
            if dname in self.model.boxes:
                self.need_resync.add(dname)
        if r.ok and dname in self.model.boxes and not ambiguous:
            dbox = self.model.boxes[dname]
            # COPYUID: tagged code for COPY, untagged OK for MOVE
            code = None
            if r.tagged is not None:
                code = wire.code_of(r.tagged, "COPYUID")
            if code is None:
                for x in r.resps:
                    if x.kind == "untagged" and x.name == "OK" and wire.code_of(x, "COPYUID"):
                        code = wire.code_of(x, "COPYUID")
            src_uids = dst_uids = None
            if code and len(code) >= 3:
                try:
                    self.on_uidvalidity(dbox, int(code[0]), "COPYUID")
                    src_uids = wire.parse_uid_set(code[1])
                    dst_uids = wire.parse_uid_set(code[2])
                except Exception:
                    src_uids = dst_uids = None
            out["copyuid"] = (src_uids, dst_uids)
            for i, m in enumerate(targets):
                nm = MMsg(m.tag, set(m.flags), 0, date=m.date, origin="copy")
                dbox.add(nm)
                out["new"].append(nm)
                if dst_uids and len(dst_uids) == len(targets):
                    self.assign_uid(dbox, nm, dst_uids[i], "COPYUID")
            if move and not st.examine:
                self.model_expunge(box, targets, by=st)
            self.labels.add("move" if move else "copy")
        self.settle_cmd(st)
        self.last_copy = out
        return r

    async def op_restart(self, s):
        for st in self.ss.values():
            st.dead = True
        self.ss = {}
        await self.w.restart()
        self.obs = self.w.session("o")
        self.note(op="restart")
        self.labels.add("restart")
        self.res.steps += 1
        return None

    def resync_model(self, name, info):
        """Adopt the observed state of mailbox `name` (after a reported defect or
        an ambiguous step) so that one cause is reported once."""
        box = self.model.boxes[name]
        olds = list(box.msgs)
        byuid = {m.uid: m for m in olds if m.uid is not None}
        for m in olds:
            box.remove(m)
        for x in info["msgs"]:
            m = byuid.get(x["uid"])
            if m is not None and m.tag == x["tag"]:
                m.alive = True
                m.flags = set(f for f in norm_flags(x["flags"]) if f != "unseen")
                box.msgs.append(m)
            else:
                box.add(MMsg(x["tag"], set(f for f in norm_flags(x["flags"]) if f != "unseen"), 0, uid=x["uid"], origin="resync"))
        box.msgs.sort(key=lambda m: (m.uid if m.uid is not None else 10**12))
        for s in self.ss.values():
            if s.sel == name and not self.in_sync(s):
                s.view = list(box.msgs)
        self.need_resync.discard(name)

    # -- whole-case driver ------------------------------------------------------------------
    def finish(self) -> CaseResult:
        res = self.res
        res.violations = self.viol
        res.blocked = self.blocked if not self.viol else None
        res.sample = self.transcript
        res.labels.extend(sorted(self.labels))
        return res

"""C08 coverage-guided campaign (thorough tier only): atheris / libFuzzer on IMAPClientCommand(text).parse().

Run as a module by vf.gen.c08_enum.atheris_campaign():

    python -m vf.gen.c08_atheris <findings.json> <corpus_dir> <runs> <seed> <max_len>

The target never lets an exception reach libFuzzer (it would stop the campaign at the first finding): every
exception type other than BadCommand is recorded as (exception type, innermost parse.py function) -> shortest
input, and written to <findings.json> when the run ends.  Deterministic: single process, fixed -seed, bounded
by -runs (never by time).
"""
from __future__ import annotations

import atexit
import json
import sys
import traceback


def main(argv):
    out, corpus, runs, seed, max_len = argv[1], argv[2], int(argv[3]), int(argv[4]), int(argv[5])
    import atheris

    with atheris.instrument_imports(include=["asimap.parse"]):
        from asimap import parse as P

    found = {}
    stats = {"execs": 0, "ok": 0, "bad": 0, "exc": 0}

    def dump():
        with open(out, "w") as f:
            json.dump({"stats": stats, "found": [{"exc": k[0], "where": k[1], "text": v[0], "msg": v[1]} for k, v in sorted(found.items())]}, f)

    atexit.register(dump)  # libFuzzer usually leaves through _exit: also dump on every finding and every 20000 execs

    def one(data: bytes):
        text = data.decode("latin-1")
        stats["execs"] += 1
        if stats["execs"] % 20000 == 0 or stats["execs"] >= runs - 1:
            dump()
        try:
            P.IMAPClientCommand(text).parse()
            stats["ok"] += 1
        except P.BadCommand:
            stats["bad"] += 1
        except Exception as e:  # noqa: BLE001
            stats["exc"] += 1
            tb = traceback.extract_tb(e.__traceback__)
            where = "?"
            for fr in reversed(tb):
                if fr.filename.endswith("parse.py"):
                    where = fr.name
                    break
            msg = str(e)
            if isinstance(e, ValueError) and "Exceeds the limit" in msg:
                where = "int-digits-limit"
            if isinstance(e, RecursionError):
                where = "nesting-depth"
            k = (type(e).__name__, where)
            if k not in found or len(text) < len(found[k][0]):
                found[k] = (text, msg[:200])
                dump()

    args = [sys.argv[0], f"-runs={runs}", f"-seed={seed}", f"-max_len={max_len}", "-print_final_stats=0", "-verbosity=0", "-close_fd_mask=3"]
    if len(argv) > 6 and argv[6]:
        args.append(f"-dict={argv[6]}")
    if corpus:
        args.append(corpus)
    atheris.Setup(args, one)
    atheris.Fuzz()


if __name__ == "__main__":
    main(sys.argv)

"""Hypothesis strategies for abstract history steps (see vf/hist.py)."""
from hypothesis import strategies as st

SESS = ["a", "b", "c"]


def elt(absent=False):
    base = [st.builds(lambda v: {"k": "i", "v": v}, st.integers(0, 11)), st.just({"k": "*"})]
    if absent:
        base.append(st.builds(lambda v: {"k": "x", "v": v}, st.integers(0, 7)))
    return st.one_of(*base)


def seqset(absent=False, max_parts=3):
    rng = st.builds(lambda a, b: {"k": "r", "a": a, "b": b}, elt(absent), elt(absent))
    return st.lists(st.one_of(elt(absent), elt(absent), rng), min_size=1, max_size=max_parts)


def sess(n):
    return st.sampled_from(SESS[:n])


def flags(max_size=3):
    return st.lists(st.integers(0, 29), min_size=0, max_size=max_size)


def step_select(n):
    return st.builds(lambda s, b, e: {"op": "select", "s": s, "box": b, "examine": e}, sess(n), st.integers(0, 1), st.integers(0, 4).map(lambda x: x == 0))


def step_unselect(n):
    return st.builds(lambda s, c: {"op": "unselect", "s": s, "close": c}, sess(n), st.booleans())


def step_append(n, boxes=2):
    return st.builds(
        lambda s, b, f, d: {"op": "append", "s": s, "box": b, "flags": f, "date": d},
        sess(n), st.integers(0, boxes - 1), flags(), st.one_of(st.none(), st.integers(0, 3)),
    )


def step_store(n, absent=False, recent=False):
    return st.builds(
        lambda s, u, ss, a, sl, f, r: {"op": "store", "s": s, "uid": u, "set": ss, "act": a, "silent": sl, "flags": f, "recent": r},
        sess(n), st.booleans(), seqset(absent), st.integers(0, 2), st.booleans(), flags(), (st.integers(0, 9).map(lambda x: x == 0) if recent else st.just(False)),
    )


def steps_toggle(n):
    """Three STOREs by one session on the same messages that end where they started from the others' point of
    view: +F -F +F, or FLAGS x / FLAGS y / FLAGS x (seeded/C04-3: queued notifications de-duplicated, so the
    last FETCH another session is sent shows the intermediate state)."""
    def build(s, u, ss, f, g, repl, sl):
        mk = lambda act, fl: {"op": "store", "s": s, "uid": u, "set": ss, "act": act, "silent": sl, "flags": fl, "recent": False}  # noqa: E731
        return [mk(2, f), mk(2, g), mk(2, f)] if repl else [mk(0, f), mk(1, f), mk(0, f)]

    return st.builds(build, sess(n), st.booleans(), seqset(False), flags(), flags(), st.booleans(), st.booleans())


NONPEEK_WHATS = [2, 3, 10, 11, 12]  # indices into hist.WHATS of the fetches that set \\Seen in a read-write session


def steps_examine_probe(n):
    """EXAMINE a mailbox and fetch message bodies with one of the forms that set \\Seen in a read-write session
    (seeded/C05-5: the read-only override applied to BODY[..] only, so RFC822 / RFC822.TEXT still set \\Seen)."""
    def build(s, b, u, ss, w, w2):
        return [{"op": "select", "s": s, "box": b, "examine": True},
                {"op": "fetch", "s": s, "uid": u, "set": ss, "what": w},
                {"op": "fetch", "s": s, "uid": not u, "set": ss, "what": w2}]

    return st.builds(build, sess(n), st.integers(0, 1), st.booleans(), seqset(False), st.sampled_from(NONPEEK_WHATS), st.sampled_from(NONPEEK_WHATS))


def flatten(steps):
    out = []
    for x in steps:
        out.extend(x if isinstance(x, list) else [x])
    return out


def step_delete_flag(n, absent=False):
    """STORE +FLAGS (\\Deleted) on a generated set (index 3 of the flag pool)."""
    return st.builds(
        lambda s, u, ss: {"op": "store", "s": s, "uid": u, "set": ss, "act": 0, "silent": False, "flags": [3]},
        sess(n), st.booleans(), seqset(absent),
    )


def step_fetch(n, absent=False):
    return st.builds(
        lambda s, u, ss, w: {"op": "fetch", "s": s, "uid": u, "set": ss, "what": w},
        sess(n), st.booleans(), seqset(absent), st.integers(0, 12),
    )


def step_expunge(n, absent=False):
    return st.builds(
        lambda s, u, ss: {"op": "expunge", "s": s, "uid": u, "set": ss},
        sess(n), st.integers(0, 2).map(lambda x: x == 0), seqset(absent),
    )


def step_copy(n, absent=False):
    return st.builds(
        lambda s, u, ss, d, m: {"op": "copy", "s": s, "uid": u, "set": ss, "dst": d, "move": m},
        sess(n), st.booleans(), seqset(absent), st.integers(0, 3), st.booleans(),
    )


def step_noop(n):
    return st.builds(lambda s, c: {"op": "noop", "s": s, "check": c}, sess(n), st.booleans())


def step_idle(n):
    return st.builds(lambda s: {"op": "idle", "s": s}, sess(n))


def step_deliver(boxes=2):
    return st.builds(lambda b, k, u: {"op": "deliver", "box": b, "n": k, "unseen": u}, st.integers(0, boxes - 1), st.integers(0, 2), st.booleans())


def step_advance():
    return st.builds(lambda t: {"op": "advance", "t": t}, st.integers(0, 3))


def step_restart():
    return st.just({"op": "restart"})

"""C16 message generator: raw RFC 5322 / MIME messages built byte by byte
(never through the stdlib email generator, so nothing is normalised before the
server sees it).  Every strategy returns JSON-able data: a message is
{"raw": <latin-1 str of the octets>, "kind": <generator class>}.

Canonical construction is with CRLF; `eol="lf"` converts the finished message.
"""
from __future__ import annotations

import base64

from hypothesis import strategies as st

CRLF = b"\r\n"

WORDS = ["alpha", "beta", "gamma", "delta", "lorem", "ipsum", "dolor", "sit", "amet", "x", "yz", "The", "quick",
         "brown", "fox", "jumps", "over", "lazy", "dog", "42", "a-b", "c_d", "re:", "(note)", "1.5", "e=mc2", "tok"]
WORDS8 = ["café", "naïve", "Grüße", "àéîõü", "mañana", "£100", "¿qué?"]
WORDSU = WORDS8 + ["日本語", "€uro", "Жук", "☃"]

KINDS = ["plain", "plain", "headers", "headers", "encoded", "eightbit", "eightbit", "multipart", "multipart", "nested",
         "rfc822top", "rfc822top", "rfc822nested", "edge", "edge"]


# ------------------------------------------------------------------ text


@st.composite
def ascii_line(draw, maxwords=9):
    k = draw(st.integers(0, 24))
    ws = draw(st.lists(st.sampled_from(WORDS), min_size=1, max_size=maxwords))
    s = " ".join(ws)
    if k == 0:
        return "." + s
    if k == 1:
        return "."
    if k == 2:
        return "From " + s
    if k == 3:
        return ""
    if k == 4:
        return s + "   "
    if k == 5:
        return "\t" + s
    if k == 6:
        return "--" + s.replace(" ", "")
    if k == 7:
        return ">From the start " + s
    if k == 8:
        return "=" + s + "=3D="
    if k == 9:
        return ".." + s
    return s


@st.composite
def ascii_lines(draw, maxlines=6):
    lines = draw(st.lists(ascii_line(), min_size=1, max_size=maxlines))
    if draw(st.integers(0, 14)) == 0:
        # a very long CRLF-free line (beyond the 998 octet limit)
        n = draw(st.sampled_from([200, 999, 1200, 2500]))
        lines.insert(draw(st.integers(0, len(lines))), ("longline" + "x" * n)[:n])
    return lines


@st.composite
def uni_lines(draw, pool, maxlines=5):
    out = []
    for _ in range(draw(st.integers(1, maxlines))):
        ws = draw(st.lists(st.sampled_from(WORDS + pool + pool), min_size=1, max_size=7))
        out.append(" ".join(ws))
    if not any(ord(c) > 127 for ln in out for c in ln):
        out.append(draw(st.sampled_from(pool)))
    return out


def qp_encode(data: bytes) -> bytes:
    """Own quoted-printable encoder (text mode: CRLF are hard breaks)."""
    out_lines = []
    for line in data.split(b"\r\n"):
        cur = b""
        res = []
        for i, c in enumerate(line):
            last = i == len(line) - 1
            if c == 0x3D or c < 0x20 and c != 0x09 or c > 0x7E or (c in (0x20, 0x09) and last):
                tok = b"=%02X" % c
            else:
                tok = bytes([c])
            if len(cur) + len(tok) > 72:
                res.append(cur + b"=")
                cur = b""
            cur += tok
        res.append(cur)
        out_lines.append(b"\r\n".join(res))
    return b"\r\n".join(out_lines)


def b64_encode(data: bytes, width: int = 76) -> bytes:
    enc = base64.b64encode(data)
    return b"\r\n".join(enc[i : i + width] for i in range(0, len(enc), width)) + (CRLF if enc else b"")


# --------------------------------------------------------------- headers


def _encword(text: str, charset: str, mode: str) -> str:
    raw = text.encode(charset, "replace")
    if mode == "B":
        return f"=?{charset}?B?{base64.b64encode(raw).decode()}?="
    q = "".join(chr(c) if (48 <= c <= 57 or 65 <= c <= 90 or 97 <= c <= 122) else ("_" if c == 32 else "=%02X" % c) for c in raw)
    return f"=?{charset}?Q?{q}?="


@st.composite
def phrase(draw, profile):
    """Display-name / subject text as octets-in-latin-1 str."""
    k = draw(st.integers(0, 14))
    ws = " ".join(draw(st.lists(st.sampled_from(WORDS), min_size=1, max_size=5)))
    if profile == "simple" or k <= 3:
        return ws
    if k == 14:
        # an encoded word that decodes to text with a line break / control character in it
        # (seeded/C07-5: only line breaks followed by white space were removed from quoted strings)
        brk = draw(st.sampled_from(["\r\n", "\n", "\r", "\r\n\r\n", "\n* BYE ", "\t", "\r\n "]))
        return _encword(ws + brk + draw(st.sampled_from(WORDS)), draw(st.sampled_from(["utf-8", "us-ascii", "iso-8859-1"])), draw(st.sampled_from("BQ")))
    if k == 12:
        # a character outside latin-1 AND quoted-specials in one value (seeded/C07-2: escaping applied
        # before RFC 2047 encoding ends up inside the encoded word)
        return _encword(draw(st.sampled_from(WORDSU)) + ' "q" \\ ' + ws, "utf-8", draw(st.sampled_from("BQ")))
    if k == 13:
        return _encword(draw(st.sampled_from(WORDSU)), "utf-8", "Q") + ' said "hi" \\ back ' + ws
    if k == 4:
        return _encword(draw(st.sampled_from(WORDSU)) + " " + ws, "utf-8", draw(st.sampled_from("BQ")))
    if k == 5:
        return _encword(draw(st.sampled_from(WORDS8)), "iso-8859-1", "Q") + " " + ws
    if k == 6:
        return _encword(draw(st.sampled_from(WORDSU)), "utf-8", "B") + " " + _encword(draw(st.sampled_from(WORDSU)), "utf-8", "Q")
    if k == 7 and profile == "wild":
        return (ws + " " + draw(st.sampled_from(WORDSU))).encode("utf-8").decode("latin-1")  # raw utf-8 octets
    if k == 8 and profile == "wild":
        return ws + " " + draw(st.sampled_from(WORDS8))  # raw latin-1 octets
    if k == 9:
        return ws + ' said "hi" \\ back'
    if k == 10:
        return " ".join(draw(st.lists(st.sampled_from(WORDS), min_size=14, max_size=40)))  # long
    if k == 11:
        # a multi-octet character split over two adjacent encoded words (seen in the wild)
        raw = (draw(st.sampled_from(WORDSU)) + " " + ws + " " + draw(st.sampled_from(WORDSU))).encode("utf-8")
        cut = [i for i in range(1, len(raw)) if raw[i] & 0xC0 == 0x80]
        c = cut[draw(st.integers(0, len(cut) - 1))] if cut else len(raw) // 2

        def q(bs):
            return "".join("=%02X" % x for x in bs)

        return f"=?utf-8?Q?{q(raw[:c])}?=\r\n\t=?utf-8?Q?{q(raw[c:])}?="
    return ws


@st.composite
def address(draw, profile):
    k = draw(st.integers(0, 9))
    # (quoted local parts carry quoted-specials into the ENVELOPE's mailbox string: seeded/C07)
    local = draw(st.sampled_from(["alice", "bob", "john.doe", "x+tag", "o'neil", "a_b", "info", '"john doe"', '"a\\"b"', '"back\\\\slash"']))
    dom = draw(st.sampled_from(["example.com", "vf.example", "mail.example.org", "x.y.z.example"]))
    spec = f"{local}@{dom}"
    if k <= 2:
        return spec
    if k == 3:
        return f"<{spec}>"
    if k == 4:
        return f'"Doe, John" <{spec}>'
    if k == 5:
        return f'"he said \\"hi\\"" <{spec}>'
    if k == 6:
        return f"{spec} (a comment)"
    if k == 7:
        return "undisclosed-recipients:;"
    p = draw(phrase("simple" if profile == "simple" else "enc"))
    if "=?" in p:
        # an encoded word may not sit inside a quoted string and specials may not stand outside one:
        # a display name cannot legally mix the two (phrase kinds 12/13 are for unstructured fields)
        p = "".join(ch for ch in p if ch not in '"\\')
    if any(ch in p for ch in '",\\()<>:;@'):
        p = '"' + p.replace("\\", "\\\\").replace('"', '\\"') + '"'
    return f"{p} <{spec}>"


@st.composite
def addr_list(draw, profile):
    n = draw(st.sampled_from([1, 1, 1, 2, 3, 7]))
    items = [draw(address(profile)) for _ in range(n)]
    sep = draw(st.sampled_from([", ", ",", ",\r\n ", ",\r\n\t"]))
    return sep.join(items)


def fold(value: str, at: int, ws: str) -> str:
    """Fold at the at-th space (modulo), replacing it by CRLF + ws."""
    idx = [i for i, c in enumerate(value) if c == " " and i > 0 and value[i - 1] not in " \r\n\t" and i + 1 < len(value)]
    if not idx:
        return value
    i = idx[at % len(idx)]
    return value[:i] + "\r\n" + ws + value[i + 1 :]


DATES = ["Mon, 02 Jan 2023 10:00:00 +0000", "Tue, 3 Jan 2023 23:59:59 -0800", "02 Jan 2023 10:00 +0100",
         "Sun, 31 Dec 1999 00:00:00 GMT", "Mon, 02 Jan 2023 10:00:00 +0000 (UTC)", "not a date", ""]


@st.composite
def header_fields(draw, profile, tag):
    """Top-level RFC 5322 fields (no MIME fields).  profile: simple|enc|wild."""
    hs = []
    have = draw(st.lists(st.sampled_from(["From", "To", "Cc", "Subject", "Date", "Message-ID", "Reply-To", "In-Reply-To",
                                           "References", "Received", "Received", "X-Custom", "X-Mailer", "Sender", "Bcc",
                                           "Comments", "Keywords", "X-Empty", "List-Id"]),
                         min_size=0 if profile != "simple" else 2, max_size=10))
    if profile == "simple":
        have = ["From", "Subject"] + [h for h in have if h not in ("From", "Subject")]
    for name in have:
        if name in ("From", "Sender"):
            v = draw(address(profile))
        elif name in ("To", "Cc", "Bcc", "Reply-To"):
            v = draw(addr_list(profile))
        elif name in ("Subject", "Comments", "Keywords", "X-Custom"):
            v = draw(phrase(profile))
        elif name == "Date":
            v = draw(st.sampled_from(DATES if profile != "simple" else DATES[:3]))
        elif name == "Message-ID":
            v = f"<{tag}.{draw(st.integers(0, 999))}@vf.example>"
        elif name in ("In-Reply-To", "References"):
            v = " ".join(f"<ref{i}.{tag}@vf.example>" for i in range(draw(st.sampled_from([1, 1, 2, 6]))))
        elif name == "Received":
            v = (f"from mx{draw(st.integers(0, 9))}.example.net (mx.example.net [192.0.2.{draw(st.integers(1, 250))}])\r\n"
                 f"\tby mail.vf.example (Postfix) with ESMTP id {tag.upper()}\r\n\tfor <rcpt@example.com>; Mon, 2 Jan 2023 10:00:00 +0000 (UTC)")
        elif name == "X-Mailer":
            v = draw(st.sampled_from(["vf 1.0", "Mailer (v2; \"quoted\")", "x" * 90]))
        elif name == "X-Empty":
            v = ""
        else:
            v = f"<list.{tag}.example.org>"
        # optional folding of otherwise unfolded values
        if "\r\n" not in v and draw(st.integers(0, 5)) == 0:
            v = fold(v, draw(st.integers(0, 20)), draw(st.sampled_from([" ", "\t", "  "])))
        if profile != "simple":
            cs = draw(st.integers(0, 9))
            if cs == 0:
                name = name.lower()
            elif cs == 1:
                name = name.upper()
        hs.append([name, v])
    hs.append(["X-VF-Tag", tag])
    if draw(st.integers(0, 7)) == 0 and hs:
        # duplicate a field
        i = draw(st.integers(0, len(hs) - 1))
        hs.insert(draw(st.integers(0, len(hs))), list(hs[i]))
    return hs


def render_fields(hs, style: int = 0) -> bytes:
    out = []
    for n, v in hs:
        if v == "":
            out.append(f"{n}:" + ("" if style == 1 else " "))
        elif style == 2:
            out.append(f"{n}:{v}")
        else:
            out.append(f"{n}: {v}")
    return b"".join(x.encode("latin-1") + CRLF for x in out)


# --------------------------------------------------------------- entities
# An entity is rendered to (mime_fields:list[[name,value]], body:bytes, labels:set)


@st.composite
def leaf(draw, allow8: bool, tag: str, kinds=None):
    kinds = kinds or ["7bit", "7bit", "implicit", "html", "qp", "b64text", "b64bin", "empty", "binary"] + (["8utf8", "8latin1", "8raw"] if allow8 else [])
    k = draw(st.sampled_from(kinds))
    labels = {"leaf:" + k}
    mf = []
    tok = f"tok{tag}tok"
    if k in ("7bit", "implicit", "html"):
        lines = draw(ascii_lines()) + [tok]
        body = "\r\n".join(lines).encode("ascii") + CRLF
        if k == "7bit":
            mf.append(["Content-Type", draw(st.sampled_from(["text/plain", 'text/plain; charset="us-ascii"', "text/plain; charset=us-ascii; format=flowed", "TEXT/PLAIN; CHARSET=US-ASCII"]))])
            if draw(st.booleans()):
                mf.append(["Content-Transfer-Encoding", draw(st.sampled_from(["7bit", "7BIT"]))])
        elif k == "html":
            body = b"<html><body>\r\n" + b"".join(b"<p>" + ln.encode() + b"</p>\r\n" for ln in lines) + b"</body></html>\r\n"
            mf.append(["Content-Type", "text/html; charset=us-ascii"])
    elif k == "binary":
        # `Content-Transfer-Encoding: binary` on line-structured content (seeded/C16-5: such parts written without
        # line-end conversion)
        lines = draw(ascii_lines()) + [tok] + draw(ascii_lines(3))
        body = "\r\n".join(lines).encode("ascii") + CRLF
        mf.append(["Content-Type", draw(st.sampled_from(["text/plain; charset=us-ascii", "application/octet-stream", "text/x-log", "application/x-vf"]))])
        mf.append(["Content-Transfer-Encoding", draw(st.sampled_from(["binary", "BINARY", "Binary"]))])
    elif k in ("8utf8", "8latin1", "8raw"):
        cs = "utf-8" if k != "8latin1" else "iso-8859-1"
        lines = draw(uni_lines(WORDSU if cs == "utf-8" else WORDS8)) + [tok]
        body = "\r\n".join(lines).encode(cs) + CRLF
        if k != "8raw":
            mf.append(["Content-Type", f"text/plain; charset={cs}"])
            mf.append(["Content-Transfer-Encoding", "8bit"])
        labels.add("8bit-body")
    elif k == "qp":
        cs = draw(st.sampled_from(["utf-8", "iso-8859-1"]))
        lines = draw(uni_lines(WORDSU if cs == "utf-8" else WORDS8)) + [tok + "   "]
        body = qp_encode("\r\n".join(lines).encode(cs) + CRLF)
        mf.append(["Content-Type", f'text/plain; charset="{cs}"'])
        mf.append(["Content-Transfer-Encoding", "quoted-printable"])
    elif k == "b64text":
        lines = draw(uni_lines(WORDSU)) + [tok]
        body = b64_encode("\r\n".join(lines).encode("utf-8") + CRLF, draw(st.sampled_from([76, 76, 60, 4])))
        mf.append(["Content-Type", "text/plain; charset=utf-8"])
        mf.append(["Content-Transfer-Encoding", "base64"])
    elif k == "b64bin":
        data = draw(st.binary(min_size=0, max_size=120))
        body = b64_encode(data)
        fn = draw(st.sampled_from(['attachment; filename="a.bin"', "attachment; filename=plain.dat", "attachment; filename*=utf-8''caf%C3%A9.bin", "attachment; filename*=utf-8''notes%0Afinal.txt", "attachment; filename*=us-ascii''a%0D%0Ab%22c.txt", 'inline; filename="with space.bin"; size=12']))
        mf.append(["Content-Type", draw(st.sampled_from(["application/octet-stream", 'application/octet-stream; name="a.bin"', "image/png", "application-x-gzip; name=\"doc.gz\""]))])
        mf.append(["Content-Transfer-Encoding", "base64"])
        mf.append(["Content-Disposition", fn])
    else:  # empty
        body = b""
        if draw(st.booleans()):
            mf.append(["Content-Type", "text/plain"])
        labels.add("empty-part")
    x = draw(st.integers(0, 11))
    if x == 0:
        mf.append(["Content-Description", draw(phrase("enc"))])
    elif x == 1:
        mf.append(["Content-ID", f"<cid.{tag}@vf.example>"])
    elif x == 2:
        mf.append(["Content-Language", "en, de"])
    if k != "empty" and draw(st.integers(0, 9)) == 0 and body.endswith(CRLF):
        body = body[:-2]  # part body without its own final line break
    return mf, body, labels


@st.composite
def inner_message(draw, depth: int, allow8: bool, tag: str):
    """A complete message to be encapsulated (always has a header)."""
    hs = draw(header_fields(draw(st.sampled_from(["simple", "simple", "enc"])), tag + "i"))
    mf, body, labels = draw(entity(depth, allow8, tag + "i", top=False))
    if mf and draw(st.booleans()):
        hs = hs + [["MIME-Version", "1.0"]]
    return render_fields(hs + mf) + CRLF + body, labels


@st.composite
def multipart(draw, depth: int, allow8: bool, tag: str):
    sub = draw(st.sampled_from(["mixed", "mixed", "alternative", "related", "digest", "report", "x-unknown"]))
    bnd = draw(st.sampled_from([f"=_vf{depth}_{tag}", f"bnd{depth}x{tag}", f"----=_Part_{depth}_{tag}.1", f"{depth}{tag}'()+_,-./:=?"]))
    quoted = draw(st.booleans()) or any(c in bnd for c in "()<>@,;:\\\"/[]?=")
    n = draw(st.sampled_from([1, 2, 2, 2, 3, 3, 4]))
    labels = {"multipart"}
    if depth > 0:
        labels.add("multipart-nested")
    chunks = []
    pre = draw(st.sampled_from([b"", b"", b"This is a multi-part message in MIME format.\r\n", b"pre\r\n\r\n"]))
    for i in range(n):
        sel = draw(st.integers(0, 9))
        ptag = f"{tag}p{i}"
        if depth < 2 and sel == 0:
            mf, body, lb = draw(multipart(depth + 1, allow8, ptag))
        elif depth < 2 and sel == 1:
            mf, body, lb = draw(rfc822_entity(depth + 1, allow8, ptag))
            lb = set(lb) | {"rfc822-nested"}
        else:
            mf, body, lb = draw(leaf(allow8, ptag))
        labels |= lb
        if not mf:
            labels.add("part-no-header")
        # NB: the CRLF that precedes a delimiter belongs to the delimiter.  A body
        # ending in CRLF is used as it is (its last line break then serves as the
        # delimiter's); sometimes another CRLF is added so that the part really
        # ends in a line break.  An empty body mostly gets the delimiter's CRLF.
        tail = b"" if body.endswith(CRLF) else CRLF
        if not body and draw(st.integers(0, 3)) == 0:
            tail = b""
        if body.endswith(CRLF) and draw(st.integers(0, 5)) == 0:
            tail = CRLF
        chunks.append(b"--" + bnd.encode() + CRLF + render_fields(mf) + CRLF + body + tail)
    close = draw(st.integers(0, 11))
    epi = draw(st.sampled_from([b"", b"", b"", b"epilogue\r\n", b"\r\n"]))
    body = pre + b"".join(chunks)
    if close == 0:
        labels.add("no-closing-delimiter")
    else:
        body += b"--" + bnd.encode() + b"--" + CRLF + epi
    ct = f"multipart/{sub}; boundary=" + (f'"{bnd}"' if quoted else bnd)
    if sub == "report":
        ct += "; report-type=delivery-status"
    if draw(st.integers(0, 4)) == 0:
        ct = ct.replace("; ", ";\r\n\t", 1)
    if draw(st.integers(0, 9)) == 0:
        ct = ct.replace("multipart", "MULTIPART").replace("boundary", "BOUNDARY")
    return [["Content-Type", ct]], body, labels


@st.composite
def rfc822_entity(draw, depth: int, allow8: bool, tag: str):
    inner, labels = draw(inner_message(depth, allow8, tag))
    mf = [["Content-Type", draw(st.sampled_from(["message/rfc822", "message/rfc822", "Message/RFC822", 'message/rfc822; name="fwd.eml"']))]]
    x = draw(st.integers(0, 5))
    if x == 0:
        mf.append(["Content-Transfer-Encoding", "8bit" if "8bit-body" in labels else "7bit"])
    elif x == 1:
        mf.append(["Content-Disposition", 'attachment; filename="fwd.eml"'])
    return mf, inner, set(labels) | {"rfc822"}


@st.composite
def entity(draw, depth: int, allow8: bool, tag: str, top: bool, want: str | None = None):
    if want == "multipart" or (want is None and depth < 2 and draw(st.integers(0, 5)) == 0):
        return draw(multipart(depth, allow8, tag))
    if want == "rfc822" or (want is None and depth < 2 and draw(st.integers(0, 9)) == 0):
        return draw(rfc822_entity(depth, allow8, tag))
    return draw(leaf(allow8, tag))


# --------------------------------------------------------------- messages


@st.composite
def message(draw, kind: str | None = None):
    kind = kind or draw(st.sampled_from(KINDS))
    tag = "m%03d" % draw(st.integers(0, 999))
    labels = {"kind:" + kind}
    allow8 = kind in ("eightbit", "edge", "nested", "rfc822nested")
    profile = {"plain": "simple", "headers": "wild", "encoded": "enc", "eightbit": "wild", "edge": "wild"}.get(kind, draw(st.sampled_from(["simple", "enc"])))
    hs = draw(header_fields(profile, tag))
    if kind == "plain":
        mf, body, lb = draw(leaf(False, tag, ["7bit", "7bit", "implicit", "html"]))
    elif kind == "headers":
        mf, body, lb = draw(leaf(False, tag, ["7bit", "implicit"]))
    elif kind == "encoded":
        mf, body, lb = draw(leaf(False, tag, ["qp", "b64text", "b64bin"]))
    elif kind == "eightbit":
        mf, body, lb = draw(leaf(True, tag, ["8utf8", "8latin1", "8raw"]))
    elif kind == "multipart":
        mf, body, lb = draw(multipart(0, draw(st.integers(0, 3)) == 0, tag))
    elif kind == "nested":
        mf, body, lb = draw(multipart(0, draw(st.integers(0, 3)) == 0, tag))
    elif kind == "rfc822top":
        mf, body, lb = draw(rfc822_entity(0, draw(st.integers(0, 3)) == 0, tag))
        lb = set(lb) | {"rfc822-top"}
    elif kind == "rfc822nested":
        mf, body, lb = draw(multipart(0, draw(st.integers(0, 3)) == 0, tag))
    else:  # edge
        mf, body, lb = draw(leaf(True, tag, ["7bit", "implicit", "empty", "empty", "8raw", "qp"]))
    labels |= lb
    if kind == "rfc822nested" and "rfc822-nested" not in labels:
        # make sure the class is reached by construction
        mf2, inner, lb2 = draw(rfc822_entity(1, False, tag + "f"))
        bnd = f"=_force_{tag}"
        body = (b"--" + bnd.encode() + CRLF + render_fields([["Content-Type", "text/plain"]]) + CRLF + b"see attached\r\n"
                + b"--" + bnd.encode() + CRLF + render_fields(mf2) + CRLF + inner + (b"" if inner.endswith(CRLF) else CRLF)
                + b"--" + bnd.encode() + b"--" + CRLF)
        mf = [["Content-Type", f'multipart/mixed; boundary="{bnd}"']]
        labels |= set(lb2) | {"multipart", "rfc822-nested"}
    mime = []
    if mf and draw(st.integers(0, 4)) != 0:
        mime.append(["MIME-Version", "1.0"])
    pos = draw(st.integers(0, len(hs)))
    if draw(st.booleans()):
        fields = hs + mime + mf
    else:
        fields = hs[:pos] + mime + mf + hs[pos:]
    style = 0 if kind in ("plain", "multipart") else draw(st.sampled_from([0, 0, 0, 1, 2]))
    head = render_fields(fields, style)
    raw = head + CRLF + body
    if kind == "edge":
        e = draw(st.integers(0, 7))
        if e == 0:
            raw = head  # header only: no blank line, no body
            labels.add("no-blank-line")
        elif e == 1:
            raw = head + CRLF  # blank line, empty body
        elif e == 2:
            raw = head + CRLF + CRLF  # body is one empty line
        elif e == 3:
            raw = head + CRLF + body + CRLF + CRLF  # trailing blank lines
    # missing final newline
    if draw(st.integers(0, 5 if kind != "edge" else 2)) == 0 and raw.endswith(CRLF) and len(raw) > 2:
        raw = raw[:-2]
        labels.add("no-final-newline")
    if draw(st.integers(0, 4)) == 0:
        raw = raw.replace(CRLF, b"\n")
        labels.add("lf-endings")
    return {"raw": raw.decode("latin-1"), "kind": kind, "glabels": sorted(labels)}


FIXTURES = ["one/%d" % i for i in range(1, 23)] + ["problems/%d" % i for i in range(1, 6)]
SMALL_FIXTURES = [f for f in FIXTURES if f not in ("one/22", "one/10", "problems/3")]


@st.composite
def partial_spec(draw):
    """Partial range resolved at run time against the item's real length L:
    sec = index into the message's section list; mode 'abs' -> o=k,
    'end' -> o=max(0,L-k), 'beyond' -> o=L+k."""
    return {
        "sec": draw(st.integers(0, 40)),
        "mode": draw(st.sampled_from(["abs", "abs", "end", "end", "beyond"])),
        "k": draw(st.sampled_from([0, 0, 1, 2, 3, 7, 10, 64, 77, 78, 79, 200, 1000])),
        "n": draw(st.sampled_from([1, 1, 2, 3, 5, 10, 64, 100, 1000, 65536, 4294967295])),
    }


@st.composite
def step(draw, tier: str = "quick"):
    sel = draw(st.integers(0, 19))
    if sel == 0:
        msg = {"fixture": draw(st.sampled_from(SMALL_FIXTURES if tier == "quick" else FIXTURES))}
        has8 = False
    else:
        msg = draw(message())
        has8 = any(ord(c) > 127 for c in msg["raw"])
    # storage path; 8-bit content mostly avoids APPEND (it is refused today, see C16 notes)
    hows = ["deliver", "deliver", "deliver", "copy-d", "copy-d", "append", "copy-a"] if has8 else ["append", "append", "copy-a", "copy-a", "copy-d", "deliver", "deliver"]
    how = draw(st.sampled_from(hows))
    stp = dict(msg)
    stp["how"] = how
    stp["disk"] = draw(st.sampled_from(["lf", "lf", "mh", "crlf"]))
    stp["partials"] = draw(st.lists(partial_spec(), min_size=1, max_size=4))
    return stp

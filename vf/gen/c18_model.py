"""C18 helper: reference automaton of the login throttle, written from the
property text only (no asimap imports), plus the bounded-exhaustive walkers.

Per key (a user name, a client address) the automaton keeps (count, last):
the number of recorded failures forming a chain in which each failure lies
within PURGE seconds of the previous one, and the time of the last one.  At an
attempt at time t a key whose last failure is more than PURGE seconds old
counts as forgotten.  The attempt is *locked* when the user's count exceeds
USER_MAX or the address's count exceeds ADDR_MAX; a locked attempt is refused
and records nothing; an attempt that is not locked is never refused by the
throttle, and records a failure (count+1, last=t) on both keys when it fails.

A gap of exactly PURGE seconds may count either way, so the automaton is
non-deterministic: `Nfa` keeps the set of states compatible with the verdicts
observed so far and reports a violation only when that set becomes empty.
"""
from __future__ import annotations

PURGE = 60.0
USER_MAX = 4
ADDR_MAX = 5
EPS = 1e-6


def _options(entry, t):
    """Possible views of one key's entry at time t: list of entry-or-None."""
    if entry is None:
        return (None,)
    gap = t - entry[1]
    if gap > PURGE + EPS:
        return (None,)
    if gap < PURGE - EPS:
        return (entry,)
    return (None, entry)


class Nfa:
    __slots__ = ("states",)

    def __init__(self, states=None):
        # a state = (users, addrs), each a tuple of sorted (key, count, last)
        self.states = states if states is not None else [((), ())]

    def copy(self):
        return Nfa(list(self.states))

    @staticmethod
    def _get(tab, key):
        for k, c, l in tab:
            if k == key:
                return (c, l)
        return None

    @staticmethod
    def _set(tab, key, entry):
        out = [x for x in tab if x[0] != key]
        if entry is not None:
            out.append((key, entry[0], entry[1]))
            out.sort()
        return tuple(out)

    def expected(self, user, addr, t):
        """Set of possible 'locked' verdicts ({True}, {False} or both) and who locks."""
        verdicts = set()
        why = set()
        for users, addrs in self.states:
            for eu in _options(self._get(users, user), t):
                for ea in _options(self._get(addrs, addr), t):
                    lu = eu is not None and eu[0] > USER_MAX
                    la = ea is not None and ea[0] > ADDR_MAX
                    verdicts.add(lu or la)
                    if lu:
                        why.add("user")
                    if la:
                        why.add("addr")
        return verdicts, why

    def step(self, user, addr, t, refused: bool, outcome: str, t_record=None):
        """Advance with the observed verdict.  outcome (only meaningful when
        not refused): 'fail' (a failed attempt), 'ok' (not a failure) or
        'either' (the property does not say whether this counts as a failed
        attempt).  Returns None, or a (kind, who) tuple when no state of the
        automaton is compatible with the observation."""
        tr = t if t_record is None else t_record
        new = set()
        for users, addrs in self.states:
            for eu in _options(self._get(users, user), t):
                for ea in _options(self._get(addrs, addr), t):
                    locked = (eu is not None and eu[0] > USER_MAX) or (ea is not None and ea[0] > ADDR_MAX)
                    if locked != refused:
                        continue
                    u2 = self._set(users, user, eu)
                    a2 = self._set(addrs, addr, ea)
                    if locked or outcome in ("ok", "either"):
                        new.add((u2, a2))
                    if not locked and outcome in ("fail", "either"):
                        nu = ((eu[0] if eu else 0) + 1, tr)
                        na = ((ea[0] if ea else 0) + 1, tr)
                        new.add((self._set(u2, user, nu), self._set(a2, addr, na)))
        if not new:
            verdicts, why = self.expected(user, addr, t)
            if refused:
                return ("unlocked-refused", "none")
            return ("locked-admitted", "+".join(sorted(why)) or "?")
        self.states = sorted(new)
        return None


# ----------------------------------------------------------------- walkers
#
# An enumeration = (alphabet of events, depth).  An event = (user, addr,
# right_password?, dt).  The walker does a depth-first walk over all event
# sequences up to the depth, sharing prefixes: the implementation state (the
# two throttle tables + the clock) is saved before and restored after each
# child, and so is the automaton.


def alphabet(users, addrs, pws, dts, known=("u1", "u2")):
    out = []
    for u in users:
        for a in addrs:
            for right in pws:
                if right and u not in known:
                    continue  # an unknown user has no right password
                for dt in dts:
                    out.append((u, a, right, dt))
    return out


def count_nodes(nalpha: int, depth: int) -> int:
    return sum(nalpha**k for k in range(1, depth + 1))

"""C14 helpers: tagged messages with planted tokens, search programs as JSON
ASTs, Hypothesis strategies, a renderer to RFC 3501 text and an independent
three-valued evaluator (True / False / None = "not judged").

Nothing in here imports asimap.

AST (all JSON):
  leaf      ["ALL"] ["SEEN"] ... ["KEYWORD", k] ["LARGER", numspec] ["ON", datespec]
            ["FROM", strspec] ["HEADER", fieldidx, fcase, strspec] ["SEQ", [elt..]] ["UID", [elt..]]
  composite ["NOT", p]  ["OR", p, q]  ["AND", [p, ...]]   (AND renders as a parenthesised list)
  program   [p, ...]    (top level juxtaposition)

Everything that names a message does it by an index that is resolved modulo
the run-time mailbox size, so any shrunk trace is still a valid trace.
"""
from __future__ import annotations

import datetime as _dt
import functools

from hypothesis import strategies as st

# ----------------------------------------------------------------- constants

MONTHS = ["Jan", "Feb", "Mar", "Apr", "May", "Jun", "Jul", "Aug", "Sep", "Oct", "Nov", "Dec"]
DOW = ["Mon", "Tue", "Wed", "Thu", "Fri", "Sat", "Sun"]

NPOOL = 16  # plantable tokens 0..15
ABSENT = [80, 81, 82, 83]  # never planted anywhere


def tok(k: int) -> str:
    return f"qk{k:02d}vj"


FLAGPOOL = ["\\Seen", "\\Answered", "\\Flagged", "\\Deleted", "\\Draft", "kw1", "kw2", "$Fwd", "KwMix"]
KEYWORDS = ["kw1", "kw2", "$Fwd", "KwMix", "kwnever"]  # kwnever is never set
SYSKEY = {"SEEN": "\\seen", "ANSWERED": "\\answered", "FLAGGED": "\\flagged", "DELETED": "\\deleted", "DRAFT": "\\draft", "RECENT": "\\recent"}
UNKEY = {"UNSEEN": "SEEN", "UNANSWERED": "ANSWERED", "UNFLAGGED": "FLAGGED", "UNDELETED": "DELETED", "UNDRAFT": "DRAFT"}
NOARG_FLAG_KEYS = ["ALL", "SEEN", "ANSWERED", "FLAGGED", "DELETED", "DRAFT", "RECENT", "NEW", "OLD",
                   "UNSEEN", "UNANSWERED", "UNFLAGGED", "UNDELETED", "UNDRAFT"]
ADDR_KEYS = ["FROM", "TO", "CC", "BCC", "SUBJECT"]
HFIELDS = ["From", "To", "Cc", "Bcc", "Subject", "Comments", "X-VF-Tag", "Message-ID", "X-Absent"]
ZONES = {"+0000": 0, "-0000": 0, "+0100": 60, "-0500": -300, "+0530": 330, "-0800": -480, "+1300": 780,
         "-1100": -660, "GMT": 0, "EST": -300, "PDT": -420, "+1400": 840, "-1200": -720}
ZONE_NAMES = sorted(ZONES)
ITZ = [0, 0, 60, -300, 330, -480, 780, -660, 840, -720]
BASES = [(2019, 12, 31), (2020, 2, 28), (2021, 6, 15), (2023, 12, 31)]
HOURS = [0, 0, 1, 11, 12, 13, 22, 23, 23]

KEYCLASS = {}
for _k in NOARG_FLAG_KEYS + ["KEYWORD", "UNKEYWORD"]:
    KEYCLASS[_k] = "flag"
for _k in ("LARGER", "SMALLER"):
    KEYCLASS[_k] = "size"
for _k in ("BEFORE", "ON", "SINCE"):
    KEYCLASS[_k] = "idate"
for _k in ("SENTBEFORE", "SENTON", "SENTSINCE"):
    KEYCLASS[_k] = "sent"
for _k in ADDR_KEYS + ["HEADER"]:
    KEYCLASS[_k] = "header"
KEYCLASS["BODY"] = "body"
KEYCLASS["TEXT"] = "text"
KEYCLASS["SEQ"] = "seqset"
KEYCLASS["UID"] = "uidset"


# ------------------------------------------------------------------ messages


def _words(tl):
    return " ".join(tok(k).upper() if up else tok(k) for k, up in tl)


def hdate_text(h) -> str:
    y, mo, d, hh, mi, ss, zone, dow = h
    wd = DOW[_dt.date(y, mo, d).weekday()] + ", " if dow else ""
    return f"{wd}{d:02d} {MONTHS[mo - 1]} {y} {hh:02d}:{mi:02d}:{ss:02d} {zone}"


def idate_text(i, pad_space=False) -> str:
    y, mo, d, hh, mi, ss, tzmin = i
    sign = "+" if tzmin >= 0 else "-"
    a = abs(tzmin)
    day = f"{d:2d}" if pad_space else f"{d:02d}"
    return f"{day}-{MONTHS[mo - 1]}-{y} {hh:02d}:{mi:02d}:{ss:02d} {sign}{a // 60:02d}{a % 60:02d}"


def idate_epoch(i) -> int:
    y, mo, d, hh, mi, ss, tzmin = i
    t = _dt.datetime(y, mo, d, hh, mi, ss, tzinfo=_dt.timezone.utc)
    return int(t.timestamp()) - tzmin * 60


class MsgInfo:
    """What the harness knows about one message it composed."""

    __slots__ = ("spec", "tag", "raw", "fields", "parts", "nonheader", "whole", "unfolded", "hdates", "orig_idate", "repeated")


def build_message(spec) -> MsgInfo:
    """Compose the RFC 5322 text (CRLF) of a message spec; return text + knowledge."""
    mi = MsgInfo()
    mi.spec = spec
    tag = spec["tag"]
    mi.tag = tag
    fields = []  # (name, unfolded value, wire value)

    def add(name, value, wire=None):
        fields.append((name, value, wire if wire is not None else value))

    f = spec["from"]
    add("From", f"{_words(f[:1])} <{_words(f[1:2]) or 'nobody'}@example.com>")
    add("To", ", ".join(f"{_words([t])} <{_words([t]).lower()}@example.org>" for t in spec["to"]) or "undisclosed <nobody@example.org>")
    if spec["cc"]:
        add("Cc", ", ".join(f"{_words([t])}@example.net" for t in spec["cc"]))
    if spec["bcc"]:
        add("Bcc", ", ".join(f"{_words([t])}@example.net" for t in spec["bcc"]))
    subj = spec["subj"]
    if spec.get("fold") and len(subj) >= 2:
        add("Subject", "re " + _words(subj), "re " + _words(subj[:1]) + "\r\n " + _words(subj[1:]))
    else:
        add("Subject", "re " + _words(subj))
    dm = spec.get("datemode", "ok")
    if dm == "ok":
        add("Date", hdate_text(spec["hdate"]))
    elif dm == "bad":
        add("Date", "not a date at all")
    add("Message-ID", f"<{tag}@vf.example>")
    add("X-VF-Tag", tag)
    for c in spec["comments"]:
        add("Comments", "note " + _words(c))
    add("MIME-Version", "1.0")
    pad = spec["pad"]
    padding = "".join("-" * min(60, pad - o) + "\r\n" for o in range(0, pad, 60))
    if spec["kind"] == "multi":
        bnd = f"=-vfbnd-{tag}-="
        add("Content-Type", f'multipart/mixed; boundary="{bnd}"')
        p1 = "first part " + _words(spec["body"]) + "\r\n" + padding
        p2 = "second part " + _words(spec["body2"]) + "\r\n"
        ph = 'Content-Type: text/plain; charset="us-ascii"\r\nContent-Transfer-Encoding: 7bit\r\n\r\n'
        body = f"--{bnd}\r\n{ph}{p1}--{bnd}\r\n{ph}{p2}--{bnd}--\r\n"
        mi.parts = [p1.lower(), p2.lower()]
    else:
        add("Content-Type", 'text/plain; charset="us-ascii"')
        add("Content-Transfer-Encoding", "7bit")
        body = "body line " + _words(spec["body"]) + "\r\n" + padding
        mi.parts = [body.lower()]
    head = "".join(f"{n}: {w}\r\n" for n, _, w in fields)
    mi.raw = (head + "\r\n" + body).encode("ascii")
    mi.fields = {}
    for n, v, _ in fields:
        mi.fields.setdefault(n.lower(), []).append(v.lower())
    mi.repeated = {n for n, vs in mi.fields.items() if len(vs) > 1}
    mi.nonheader = body.lower()
    unfolded = "".join(f"{n}: {v}\r\n" for n, v, _ in fields)
    mi.whole = (head + "\r\n" + body).lower()
    mi.unfolded = unfolded.lower()
    if dm == "ok":
        y, mo, d, hh, mn, ss, zone, _ = spec["hdate"]
        written = _dt.date(y, mo, d)
        utc = (_dt.datetime(y, mo, d, hh, mn, ss) - _dt.timedelta(minutes=ZONES[zone])).date()
        mi.hdates = (written, utc)
    else:
        mi.hdates = None
    y, mo, d, hh, mn, ss, tzmin = spec["idate"]
    mi.orig_idate = _dt.date(y, mo, d)
    return mi


# ---------------------------------------------------------------- strategies

_toklist = lambda mn, mx: st.lists(st.tuples(st.integers(0, NPOOL - 1), st.integers(0, 3).map(lambda x: int(x == 0))).map(list), min_size=mn, max_size=mx)  # noqa: E731


def _shift(base, off):
    d = _dt.date(*base) + _dt.timedelta(days=off)
    return [d.year, d.month, d.day]


@functools.lru_cache(maxsize=None)
def message_spec(allow_bad_date):
    """One message (dates as day offsets from the mailbox's base date; see mailbox_spec)."""
    dm_choices = ["ok"] * 12 + ["none"] + (["bad"] * 3 if allow_bad_date else [])
    hms = [st.sampled_from(HOURS), st.sampled_from([0, 30, 59]), st.integers(0, 59)]
    return st.fixed_dictionaries(
        {
            "kind": st.sampled_from(["plain", "plain", "plain", "multi", "multi"]),
            "via": st.sampled_from(["append"] * 4 + ["deliver"]),
            "doomed": st.just(False),
            "datemode": st.sampled_from(dm_choices),
            "from": _toklist(2, 2),
            "to": _toklist(0, 2),
            "cc": _toklist(0, 2),
            "bcc": _toklist(0, 1),
            "subj": _toklist(1, 3),
            "fold": st.integers(0, 3).map(lambda x: x == 0),
            "comments": st.lists(_toklist(1, 2), min_size=0, max_size=2),
            "body": _toklist(1, 3),
            "body2": _toklist(1, 2),
            "pad": st.integers(0, 40).map(lambda x: x * 7),
            "flags": st.lists(st.integers(0, len(FLAGPOOL) - 1), min_size=0, max_size=4).map(lambda f: sorted(set(f))),
            "idate": st.tuples(st.integers(-2, 2), *hms, st.sampled_from(ITZ)).map(list),
            "idpad": st.booleans(),
            "hdate": st.tuples(st.integers(-2, 2), *hms, st.sampled_from(ZONE_NAMES), st.booleans()).map(list),
        }
    )


def _finish(m, base):
    m = dict(m)
    if m["kind"] != "multi":
        m["body2"] = []
    m["idate"] = _shift(base, m["idate"][0]) + m["idate"][1:]
    m["hdate"] = _shift(base, m["hdate"][0]) + m["hdate"][1:]
    return m


@st.composite
def mailbox_spec(draw, tier, allow_bad_date=True):
    base = draw(st.sampled_from(BASES))
    bad = allow_bad_date and draw(st.integers(0, 24)) == 0
    msgs = [_finish(m, base) for m in draw(st.lists(message_spec(bad), min_size=3, max_size=8 if tier == "quick" else 12))]
    # holes in the UID space: doomed messages are appended \Deleted and removed by UID EXPUNGE
    nd = draw(st.sampled_from([0, 1, 1, 2, 3]))
    for d in draw(st.lists(message_spec(False), min_size=nd, max_size=nd)):
        pos = draw(st.integers(0, len(msgs)))
        d = _finish(d, base)
        d["doomed"] = True
        d["via"] = "append"
        d["datemode"] = "ok"
        msgs.insert(pos, d)
    for i, m in enumerate(msgs):
        m["tag"] = f"m{i}"
    return msgs


def strspec():
    k = st.one_of(st.integers(0, NPOOL - 1), st.integers(0, NPOOL - 1), st.integers(0, NPOOL - 1), st.sampled_from(ABSENT))
    sl = st.sampled_from([None, None, None, [0, 5], [1, 7], [2, 6], [3, 7]])
    up = st.sampled_from([0, 0, 1, 2])
    enc = st.sampled_from([0, 0, 1, 2])
    return st.one_of(
        # a pool token (planted somewhere or nowhere)
        st.builds(lambda k, up, sl, enc: {"t": k, "up": up, "sl": sl, "enc": enc}, k, up, sl, enc),
        # the j-th token planted in the field the key looks at, of message m (run-time lookup; absent token if none)
        st.builds(lambda m, j, up, sl, enc: {"tm": m, "j": j, "up": up, "sl": sl, "enc": enc}, st.integers(0, 11), st.integers(0, 5), up, sl, enc),
        # two adjacent subject words of message m as one phrase
        st.builds(lambda i, enc: {"phm": i, "enc": enc}, st.integers(0, 11), st.sampled_from([1, 1, 2])),
    )


def hstrspec():
    return st.one_of(strspec(), strspec(), st.just({"empty": 1}), st.builds(lambda i: {"tagof": i}, st.integers(0, 11)))


def numspec():
    return st.one_of(
        st.builds(lambda i, d: {"m": i, "d": d}, st.integers(0, 11), st.sampled_from([-1, 0, 0, 1])),
        st.builds(lambda n: {"n": n}, st.sampled_from([0, 1, 100000, 4294967295])),
    )


def datespec():
    fmt = st.builds(lambda pad, q, mc: {"pad": pad, "q": q, "mc": mc}, st.booleans(), st.integers(0, 3).map(lambda x: int(x == 0)), st.sampled_from([0, 0, 0, 1, 2]))
    return st.one_of(
        st.builds(lambda i, d, f: {"m": i, "d": d, "f": f}, st.integers(0, 11), st.sampled_from([-2, -1, 0, 0, 0, 1, 2]), fmt),
        st.builds(lambda i, d, f: {"m": i, "d": d, "f": f}, st.integers(0, 11), st.sampled_from([-2, -1, 0, 0, 0, 1, 2]), fmt),
        st.builds(lambda a, f: {"abs": a, "f": f}, st.sampled_from([[1990, 1, 1], [2035, 12, 31], [2020, 2, 29], [2020, 1, 1]]), fmt),
    )


def seq_elt():
    return st.one_of(st.builds(lambda k: ["i", k], st.integers(0, 11)), st.builds(lambda k: ["i", k], st.integers(0, 11)), st.just(["*"]))


def uid_elt():
    return st.one_of(
        st.builds(lambda k, o: ["u", k, o], st.integers(0, 11), st.sampled_from([0, 0, 0, 1, -1])),
        st.builds(lambda k, o: ["u", k, o], st.integers(0, 11), st.sampled_from([0, 0, 0, 1, -1])),
        st.just(["*"]),
        st.builds(lambda n: ["a", n], st.sampled_from([1, 1000, 4294967295])),
    )


def msgset(elt):
    rng = st.builds(lambda a, b: ["r", a, b], elt, elt)
    return st.lists(st.one_of(elt, elt, rng), min_size=1, max_size=3)


def leaf(excl=frozenset()):
    noarg = [k for k in NOARG_FLAG_KEYS if k not in excl]
    hf = list(range(len(HFIELDS)))
    if "HEADER:repeated" in excl:
        hf.remove(HFIELDS.index("Comments"))
    fl = st.one_of(
        st.sampled_from(noarg).map(lambda k: [k]),
        st.sampled_from(noarg).map(lambda k: [k]),
        st.builds(lambda u, k: ["UNKEYWORD" if u else "KEYWORD", k], st.booleans(), st.integers(0, len(KEYWORDS) - 1)),
    )
    size = st.builds(lambda k, n: [k, n], st.sampled_from(["LARGER", "SMALLER"]), numspec())
    idate = st.builds(lambda k, d: [k, d], st.sampled_from(["BEFORE", "ON", "SINCE"]), datespec())
    sent = st.builds(lambda k, d: [k, d], st.sampled_from(["SENTBEFORE", "SENTON", "SENTSINCE"]), datespec())
    addr = st.builds(lambda k, s: [k, s], st.sampled_from(ADDR_KEYS), strspec())
    if HFIELDS.index("Comments") in hf:
        hf = hf + [HFIELDS.index("Comments")] * 4  # the only field the messages repeat
    hdr = st.builds(lambda f, c, s: ["HEADER", f, c, s], st.sampled_from(hf), st.sampled_from([0, 0, 1, 2, 3, 4]), hstrspec())
    body = st.builds(lambda k, s: [k, s], st.sampled_from(["BODY", "TEXT"]), strspec())
    seq = msgset(seq_elt()).map(lambda s: ["SEQ", s])
    uid = msgset(uid_elt()).map(lambda s: ["UID", s])
    return st.one_of(fl, fl, size, idate, sent, addr, hdr, body, body, seq, uid)


@functools.lru_cache(maxsize=None)
def node(depth, excl=frozenset()):
    """Strategy for one search key of nesting depth <= depth+1 (built once, bottom-up)."""
    lf = leaf(excl)
    cur = lf
    for _ in range(depth):
        prev = cur
        cur = st.one_of(
            lf, lf, lf,
            st.builds(lambda p: ["NOT", p], prev),
            st.builds(lambda p: ["NOT", p], prev),
            st.builds(lambda p, q: ["OR", p, q], prev, prev),
            st.builds(lambda p, q: ["OR", p, q], prev, prev),
            st.lists(prev, min_size=1, max_size=3).map(lambda c: ["AND", c]),
        )
    return cur


@functools.lru_cache(maxsize=None)
def program(depth, excl=frozenset()):
    nd = node(depth, excl)
    return st.one_of(st.lists(nd, min_size=1, max_size=1), st.lists(nd, min_size=1, max_size=1), st.lists(nd, min_size=1, max_size=3))


@functools.lru_cache(maxsize=None)
def step(tier, excl=frozenset()):
    depth = 3 if tier == "quick" else 4
    p = program(depth, excl)
    small = program(depth - 1, excl)
    kc = st.sampled_from([0, 0, 0, 1, 2])
    cs = st.sampled_from([None, None, None, None, None, "US-ASCII", "us-ascii", "UTF-8"])
    search = st.builds(lambda u, c, k, pp: {"op": "search", "uid": u, "cs": c, "kc": k, "p": pp}, st.booleans(), cs, kc, p)
    l_not = st.builds(lambda u, pp: {"op": "law", "law": "not", "uid": u, "p": pp}, st.booleans(), small)
    l_or = st.builds(lambda u, pp, q: {"op": "law", "law": "or", "uid": u, "p": pp, "q": q}, st.booleans(), small, small)
    l_and = st.builds(lambda u, pp, q: {"op": "law", "law": "and", "uid": u, "p": pp, "q": q}, st.booleans(), small, small)
    l_uid = st.builds(lambda pp: {"op": "law", "law": "uid", "p": pp}, p)
    named_keys = [k for k in ["UNSEEN", "UNANSWERED", "UNFLAGGED", "UNDELETED", "UNDRAFT", "UNKEYWORD", "NEW", "OLD"] if k not in excl]
    l_named = st.builds(lambda u, k, kw: {"op": "law", "law": "named", "uid": u, "key": k, "kw": kw}, st.booleans(), st.sampled_from(named_keys), st.integers(0, len(KEYWORDS) - 1))
    store = st.builds(
        lambda u, s, how, fl, sil: {"op": "store", "uid": u, "set": s, "how": how, "flags": fl, "silent": sil},
        st.booleans(), st.lists(st.integers(0, 11), min_size=1, max_size=3), st.sampled_from(["+", "+", "-", ""]),
        st.lists(st.integers(0, len(FLAGPOOL) - 1), min_size=1, max_size=3), st.booleans(),
    )
    return st.one_of(search, search, search, search, l_not, l_or, l_and, l_uid, l_named, l_named, store)


# ----------------------------------------------------------------- structure


def leaves(nodes):
    """All leaf nodes of a program (list of nodes), in order."""
    out = []

    def walk(n):
        k = n[0]
        if k == "NOT":
            walk(n[1])
        elif k == "OR":
            walk(n[1])
            walk(n[2])
        elif k == "AND":
            for c in n[1]:
                walk(c)
        else:
            out.append(n)

    for n in nodes:
        walk(n)
    return out


def depth_of(nodes) -> int:
    def d(n):
        k = n[0]
        if k == "NOT":
            return 1 + d(n[1])
        if k == "OR":
            return 1 + max(d(n[1]), d(n[2]))
        if k == "AND":
            inner = max((d(c) for c in n[1]), default=0)
            return inner + (1 if len(n[1]) > 1 else 0)
        return 1

    inner = max((d(n) for n in nodes), default=0)
    return inner + (1 if len(nodes) > 1 else 0)


def ops_of(nodes):
    out = set()

    def walk(n):
        k = n[0]
        if k == "NOT":
            out.add("NOT")
            walk(n[1])
        elif k == "OR":
            out.add("OR")
            walk(n[1])
            walk(n[2])
        elif k == "AND":
            out.add("LIST")
            for c in n[1]:
                walk(c)

    for n in nodes:
        walk(n)
    if len(nodes) > 1:
        out.add("JUXT")
    return out


def group(nodes):
    """A program as ONE search key (parenthesised when it has several keys)."""
    return nodes[0] if len(nodes) == 1 else ["AND", list(nodes)]


# ------------------------------------------------------------------- context


class Ctx:
    """Run-time knowledge about the selected mailbox (filled from FETCH)."""

    def __init__(self):
        self.infos: list[MsgInfo] = []  # in mailbox order
        self.uids: list[int] = []
        self.sizes: list[int] = []
        self.idates: list[tuple] = []  # (reported date, utc date) per message
        self.flags: list[frozenset] | None = None  # lower-cased system flags, keywords verbatim

    @property
    def n(self):
        return len(self.infos)

    def idate_candidates(self, i):
        rep, utc = self.idates[i]
        return {rep, utc, self.infos[i].orig_idate}


# ------------------------------------------------------------------ renderer


def _case(word: str, kc: int) -> str:
    if kc == 1:
        return word.lower()
    if kc == 2:
        return word.capitalize()
    return word


_FIELD_TOKS = {"from": ("from",), "to": ("to",), "cc": ("cc",), "bcc": ("bcc",), "subject": ("subj",), "body": ("body", "body2"),
               "text": ("subj", "body", "from", "cc", "body2", "to", "bcc")}


def _planted(spec, field):
    """Token ids planted in `field` of a message spec, in order."""
    if field == "comments":
        return [k for c in spec["comments"] for k, _ in c]
    out = []
    for name in _FIELD_TOKS.get(field, ()):
        out.extend(k for k, _ in spec[name])
    if field == "text":
        out.extend(k for c in spec["comments"] for k, _ in c)
    return out


def str_text(s, ctx: Ctx, field: str = "text") -> str:
    """The string a strspec denotes (field = what the key looks at: a lower-case header name, 'body' or 'text')."""
    if "empty" in s:
        return ""
    if "tagof" in s:
        return ctx.infos[s["tagof"] % ctx.n].tag
    if "phm" in s:
        subj = ctx.infos[s["phm"] % ctx.n].spec["subj"]
        return " ".join(tok(k) for k, _ in subj[:2])
    if "tm" in s:
        have = _planted(ctx.infos[s["tm"] % ctx.n].spec, field)
        t = tok(have[s["j"] % len(have)]) if have else tok(ABSENT[s["j"] % len(ABSENT)])
    else:
        t = tok(s["t"])
    if s.get("sl"):
        a, b = s["sl"]
        t = t[a:b]
    up = s.get("up", 0)
    if up == 1:
        t = t.upper()
    elif up == 2:
        t = "".join(c.upper() if i % 2 else c for i, c in enumerate(t))
    return t


def _astring(text: str, enc: int) -> bytes:
    b = text.encode("ascii")
    safe_atom = bool(b) and all(c not in b'(){ %*"\\]' and 0x20 < c < 0x7F for c in b)
    if enc == 0 and safe_atom:
        return b
    if enc == 2:
        return b"{%d}\r\n%s" % (len(b), b)
    return b'"' + b.replace(b"\\", b"\\\\").replace(b'"', b'\\"') + b'"'


def date_value(d, ctx: Ctx, sent: bool):
    if "abs" in d:
        return _dt.date(*d["abs"])
    i = d["m"] % ctx.n
    if sent:
        hd = ctx.infos[i].hdates
        base = hd[0] if hd else ctx.idates[i][0]
    else:
        base = ctx.idates[i][0]
    return base + _dt.timedelta(days=d["d"])


def _date_text(dv: _dt.date, f) -> bytes:
    mon = MONTHS[dv.month - 1]
    mon = mon.lower() if f["mc"] == 1 else mon.upper() if f["mc"] == 2 else mon
    day = f"{dv.day:02d}" if f["pad"] else str(dv.day)
    t = f"{day}-{mon}-{dv.year:04d}"
    return (f'"{t}"' if f["q"] else t).encode()


def num_value(n, ctx: Ctx) -> int:
    if "n" in n:
        return n["n"]
    return max(0, ctx.sizes[n["m"] % ctx.n] + n["d"])


def _elt_value(e, ctx: Ctx, uid: bool):
    """-> int or '*'"""
    if e[0] == "*":
        return "*"
    if e[0] == "i":
        return (e[1] % ctx.n) + 1
    if e[0] == "u":
        return max(1, ctx.uids[e[1] % ctx.n] + e[2])
    if e[0] == "a":
        return e[1]
    raise ValueError(e)


def set_text(elts, ctx: Ctx, uid: bool) -> str:
    parts = []
    for e in elts:
        if e[0] == "r":
            parts.append(f"{_elt_value(e[1], ctx, uid)}:{_elt_value(e[2], ctx, uid)}")
        else:
            parts.append(str(_elt_value(e, ctx, uid)))
    return ",".join(parts)


def set_members(elts, ctx: Ctx, uid: bool):
    """Positions (0-based) of the messages the set denotes (own reading of RFC 3501 sequence-set)."""
    universe = ctx.uids if uid else list(range(1, ctx.n + 1))
    last = universe[-1]
    out = set()
    for e in elts:
        if e[0] == "r":
            a = _elt_value(e[1], ctx, uid)
            b = _elt_value(e[2], ctx, uid)
            a = last if a == "*" else a
            b = last if b == "*" else b
            lo, hi = min(a, b), max(a, b)
            out.update(i for i, v in enumerate(universe) if lo <= v <= hi)
        else:
            a = _elt_value(e, ctx, uid)
            a = last if a == "*" else a
            out.update(i for i, v in enumerate(universe) if v == a)
    return out


def render_node(n, ctx: Ctx, kc: int = 0) -> bytes:
    k = n[0]
    K = _case(k, kc).encode()
    if k == "NOT":
        return K + b" " + render_node(n[1], ctx, kc)
    if k == "OR":
        return K + b" " + render_node(n[1], ctx, kc) + b" " + render_node(n[2], ctx, kc)
    if k == "AND":
        return b"(" + b" ".join(render_node(c, ctx, kc) for c in n[1]) + b")"
    if k in ("KEYWORD", "UNKEYWORD"):
        return K + b" " + KEYWORDS[n[1]].encode()
    if k in ("LARGER", "SMALLER"):
        return K + b" %d" % num_value(n[1], ctx)
    if k in ("BEFORE", "ON", "SINCE"):
        return K + b" " + _date_text(date_value(n[1], ctx, False), n[1]["f"])
    if k in ("SENTBEFORE", "SENTON", "SENTSINCE"):
        return K + b" " + _date_text(date_value(n[1], ctx, True), n[1]["f"])
    if k in ADDR_KEYS or k in ("BODY", "TEXT"):
        return K + b" " + _astring(str_text(n[1], ctx, k.lower()), n[1].get("enc", 1))
    if k == "HEADER":
        fname = HFIELDS[n[1]]
        text = str_text(n[3], ctx, fname.lower())
        fname = fname.lower() if n[2] == 1 else fname.upper() if n[2] == 2 else fname
        fenc = {3: 1, 4: 2}.get(n[2], 0)  # header-fld-name is an astring: atom / quoted / literal
        return K + b" " + _astring(fname, fenc) + b" " + _astring(text, n[3].get("enc", 1))
    if k == "SEQ":
        return set_text(n[1], ctx, False).encode()
    if k == "UID":
        return K + b" " + set_text(n[1], ctx, True).encode()
    return K  # no-argument keys


def render(nodes, ctx: Ctx, kc: int = 0) -> bytes:
    return b" ".join(render_node(n, ctx, kc) for n in nodes)


# ----------------------------------------------------------------- evaluator


def k_not(a):
    return None if a is None else (not a)


def k_and(vals):
    vals = list(vals)
    if any(v is False for v in vals):
        return False
    if any(v is None for v in vals):
        return None
    return True


def k_or(vals):
    vals = list(vals)
    if any(v is True for v in vals):
        return True
    if any(v is None for v in vals):
        return None
    return False


def _agree(bools):
    s = set(bools)
    return s.pop() if len(s) == 1 else None


def eval_leaf(n, i: int, ctx: Ctx):
    """Truth of leaf n for the message at position i; None = not judged."""
    k = n[0]
    info = ctx.infos[i]
    if k == "ALL":
        return True
    if k in SYSKEY or k in UNKEY or k in ("NEW", "OLD", "KEYWORD", "UNKEYWORD"):
        if ctx.flags is None:
            return None
        fl = ctx.flags[i]
        if k in SYSKEY:
            return SYSKEY[k] in fl
        if k in UNKEY:
            return SYSKEY[UNKEY[k]] not in fl
        if k == "NEW":
            return ("\\recent" in fl) and ("\\seen" not in fl)
        if k == "OLD":
            return "\\recent" not in fl
        has = KEYWORDS[n[1]] in fl
        return has if k == "KEYWORD" else not has
    if k == "LARGER":
        return ctx.sizes[i] > num_value(n[1], ctx)
    if k == "SMALLER":
        return ctx.sizes[i] < num_value(n[1], ctx)
    if k in ("BEFORE", "ON", "SINCE"):
        d = date_value(n[1], ctx, False)
        c = ctx.idate_candidates(i)
        if k == "BEFORE":
            return _agree(x < d for x in c)
        if k == "ON":
            return _agree(x == d for x in c)
        return _agree(x >= d for x in c)
    if k in ("SENTBEFORE", "SENTON", "SENTSINCE"):
        if info.hdates is None:
            return None  # no (parsable) Date header: RFC 3501 does not say
        d = date_value(n[1], ctx, True)
        # RFC 3501 6.4.4: the Date: header "disregarding time and timezone", i.e. the date as written
        # (the first version accepted the UTC date as well; seeded/C14-3 - parsedate() converting to
        # UTC - showed that this made the oracle indifferent to exactly the clause it is about)
        c = {info.hdates[0]}
        if k == "SENTBEFORE":
            return _agree(x < d for x in c)
        if k == "SENTON":
            return _agree(x == d for x in c)
        return _agree(x >= d for x in c)
    if k in ADDR_KEYS or k == "HEADER":
        if k == "HEADER":
            fname = HFIELDS[n[1]].lower()
            s = str_text(n[3], ctx, fname).lower()
        else:
            fname, s = k.lower(), str_text(n[1], ctx, k.lower()).lower()
        vals = info.fields.get(fname)
        if not vals:
            return False
        return any(s in v for v in vals)
    if k == "BODY":
        s = str_text(n[1], ctx, "body").lower()
        if any(s in p for p in info.parts):
            return True
        if s not in info.nonheader:
            return False
        return None  # only in MIME part headers / boundaries
    if k == "TEXT":
        s = str_text(n[1], ctx, "text").lower()
        if s in info.whole:
            return True
        if s in info.unfolded:
            return None  # only across a folding point of a header: RFC 3501 does not say
        return False
    if k == "SEQ":
        return i in set_members(n[1], ctx, False)
    if k == "UID":
        return i in set_members(n[1], ctx, True)
    raise ValueError(f"unknown key {k}")


def eval_node(n, i: int, ctx: Ctx):
    k = n[0]
    if k == "NOT":
        return k_not(eval_node(n[1], i, ctx))
    if k == "OR":
        return k_or([eval_node(n[1], i, ctx), eval_node(n[2], i, ctx)])
    if k == "AND":
        return k_and(eval_node(c, i, ctx) for c in n[1])
    return eval_leaf(n, i, ctx)


def eval_program(nodes, ctx: Ctx):
    """-> list of True/False/None per message position."""
    return [k_and(eval_node(n, i, ctx) for n in nodes) for i in range(ctx.n)]

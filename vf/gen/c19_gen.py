"""Hypothesis strategies for C19 (front-end framing): client byte streams made
of commands with (non-)synchronising literals, empty lines, over-limit items;
segmentations; server->client response streams with long CRLF-free runs.

Everything produced is plain JSON (strings are latin-1 images of bytes).
The *meaning* of a trace is defined by vf/props/c19.py (`normalize_*`), so
hand-written replays and ddmin sub-lists are interpreted the same way.
"""
from __future__ import annotations

from hypothesis import strategies as st

REAL_MAX = 10 * 1024 * 1024  # asimap.constants.MAX_INPUT_SIZE (only used to size the real-limit slice)

# ----------------------------------------------------------------- client side

VERBS = [
    "NOOP", "CAPABILITY", "LOGIN", "LOGIN u", "APPEND inbox", "APPEND inbox (\\Seen)", "SEARCH TEXT", "SEARCH CHARSET utf-8 SUBJECT",
    "UID FETCH 1:* (FLAGS)", "STORE 1 +FLAGS (\\Deleted)", 'LIST "" *', 'ID ("name"', "CREATE", "SELECT", "IDLE", "DONE", "LOGOUT",
    "STATUS", "RENAME a", "UID SEARCH HEADER X-A",
]
# characters for free text inside lines: no "\n" so a CRLF pair can never arise by accident
LINE_ALPHA = "abcXYZ019 {}+()[]\"\\*%<>.-:,/\t\r\x00\x7f\x80\xff"
TEXT = st.text(alphabet=LINE_ALPHA, min_size=0, max_size=10)

# endings that look like a literal header but are not one (a tail must not denote a literal)
LOOKALIKE = ["{3} x", "{+}", "{}", "{3+", "3}", "{-1}", "{3 }", "{ 3}", "{3}+", "{3}}", "{3+}.", "{ }", "{3++}", "{+3}", "{3}\x00", "{0x3}", "{3.0}"]
# text before a real header (the header is appended directly)
PRE_HDR = ["", " ", "{2}", "{", "{1", "+", "}", "{3+} ", "x{4}{", "\"", "("]
TAILS = ["", "", "", " ", " (\\Seen)", " x", ")", " {", " \"q\"", "\t", " \r", " \n"]
EMPTY_WS = ["", "", "", " ", "\t", "  ", " \r", "\n", "\x0b", "\r"]

BODIES = [
    "", "abc", "\r\n", "x\r\ny", "a1 NOOP\r\n", "zz LOGOUT\r\nzz2 NOOP\r\n", "{3}\r\nabc", "{5+}\r\n", "\r\n\r\n", "}\r\n{", "\x00\xff",
    "{1}", "\r", "\n", "q\r", "\nq", "* BAD x\r\n", "From: a@b\r\nSubject: s\r\n\r\nbody\r\n", "t9 LOGIN {3}\r\nabc {3+}\r\nxyz\r\n",
]
BODY_ALPHA = "ab{}+ 1\r\n\x00\xff"


def _line(tag: str):
    verb = st.sampled_from(VERBS)
    return st.builds(lambda v, t: f"{tag} {v}" + ((" " + t) if t else ""), verb, TEXT)


def _body(maxlen: int):
    return st.one_of(
        st.sampled_from(BODIES),
        st.text(alphabet=BODY_ALPHA, min_size=0, max_size=12),
    ).filter(lambda s: len(s) <= maxlen)


@st.composite
def _lit(draw, maxlen=40, plus=None):
    d = draw(_body(maxlen))
    rep = draw(st.sampled_from([1, 1, 1, 1, 2, 3]))
    if len(d) * rep > maxlen:
        rep = 1
    p = draw(st.booleans()) if plus is None else plus
    return {"plus": p, "d": d, "rep": rep}


def _fill_lit(n: int, plus: bool, d: str):
    """literal of exactly n octets built from pattern d"""
    if not d:
        d = "x"
    rep, rest = divmod(n, len(d))
    out = {"plus": plus, "d": d, "rep": rep}
    if rest:
        out["cut"] = rest  # + d[:rest]
    return out


@st.composite
def client_item(draw, idx: int, m: int, heavy: bool, clean: bool = False):
    """One client item. `m` = the limit in force; `heavy` allows real-size bodies;
    `clean` = no announced over-limit literal, no accumulated over-limit, no >64 KiB line."""
    tag = f"a{idx}"
    k = draw(st.integers(0, 99))
    if clean and (66 <= k < 90 or k >= 99):
        k = 30 + (k % 36)
    small = m <= 8192
    if k < 8:
        return {"t": "empty", "ws": draw(st.sampled_from(EMPTY_WS))}
    if k < 30:  # plain line
        tail = draw(st.sampled_from(["", "", " " + draw(st.sampled_from(LOOKALIKE)), " ", "\t "]))
        return {"t": "cmd", "lines": [draw(_line(tag)) + tail], "lits": []}
    if k < 66:  # 1..3 in-limit literals
        n = draw(st.sampled_from([1, 1, 1, 2, 2, 3]))
        lines = [draw(_line(tag)) + " " + draw(st.sampled_from(PRE_HDR))]
        lits = []
        for j in range(n):
            lits.append(draw(_lit(maxlen=max(4, min(40, m // 5)))))
            if j < n - 1:
                lines.append(draw(st.sampled_from([" ", " x ", "", " (", ") "])) + draw(st.sampled_from(PRE_HDR)))
        lines.append(draw(st.sampled_from(TAILS)))
        return {"t": "cmd", "lines": lines, "lits": lits}
    if k < 74:  # announced over-limit, synchronising: the body is never sent by a well-behaved exchange
        big = draw(st.sampled_from([m + 1, m + 1, m + 2, 2 * m, m + 1000, 4294967296, 10**20]))
        pre = []
        lines = [draw(_line(tag)) + " "]
        if draw(st.integers(0, 3)) == 0 and small:
            pre = [draw(_lit(maxlen=8))]
            lines.append(" ")
        lines.append(draw(st.sampled_from(TAILS)))
        return {"t": "cmd", "lines": lines, "lits": pre + [{"plus": False, "big": big}]}
    if k < 82:  # announced over-limit, non-synchronising: the octets are already on the wire
        if not small and not heavy:
            return {"t": "cmd", "lines": [draw(_line(tag))], "lits": []}
        n = draw(st.sampled_from([m + 1, m + 1, m + 2, m + 17, 2 * m]))
        d = draw(st.sampled_from(["x", "abcdefg", "ab\r\n", "zz1 NOOP\r\n", "q\r\nzz2 LOGIN {2}\r\nab", "\r\n", "0123456789{3}\r\n"]))
        lines = [draw(_line(tag)) + " ", draw(st.sampled_from(TAILS))]
        return {"t": "cmd", "lines": lines, "lits": [_fill_lit(n, True, d)]}
    if k < 90:  # accumulated size over the limit, each literal within it
        if not small and not heavy:
            return {"t": "cmd", "lines": [draw(_line(tag))], "lits": []}
        cnt = draw(st.sampled_from([2, 2, 3]))
        each = m // cnt + draw(st.sampled_from([3, 8, 20]))
        if cnt == 2 and draw(st.booleans()):
            each = m - draw(st.sampled_from([0, 1, 5]))  # already the first literal does it
        lines = [draw(_line(tag)) + " "]
        lits = []
        for j in range(cnt):
            lits.append(_fill_lit(min(each, m), draw(st.booleans()), draw(st.sampled_from(["x", "y\r\n", "abc"]))))
            if j < cnt - 1:
                lines.append(" ")
        lines.append(draw(st.sampled_from(["", "", " tail", " (\\Seen)", " zz3 NOOP"])))
        return {"t": "cmd", "lines": lines, "lits": lits}
    if k < 95:  # line(s) alone over the limit / around the limit
        if not small:
            return {"t": "cmd", "lines": [draw(_line(tag))], "lits": [], "pad": draw(st.sampled_from([300, 5000]))}
        base = draw(_line(tag)) + " "
        delta = draw(st.sampled_from([-9, -4, -3, -2, -1, 0, 1, 2, 3, 4, 9, 40, m]))
        pad = max(0, m + delta - len(base))
        if draw(st.integers(0, 2)) == 0:
            return {"t": "cmd", "lines": [base, ""], "lits": [_lit_small(draw)], "pad": max(0, pad - 12)}
        return {"t": "cmd", "lines": [base], "lits": [], "pad": pad}
    if k < 99:  # literal exactly at / next to the limit
        if not small and not heavy:
            return {"t": "cmd", "lines": [draw(_line(tag))], "lits": []}
        n = max(0, m + draw(st.sampled_from([-40, -30, -1, 0])))
        return {"t": "cmd", "lines": ["%s X " % tag, ""], "lits": [_fill_lit(n, draw(st.booleans()), "z")]}
    # a line longer than the 64 KiB stream-reader limit of the listening socket
    return {"t": "cmd", "lines": [draw(_line(tag)) + " "], "lits": [], "pad": draw(st.sampled_from([65536, 65600, 70000]))}


def _lit_small(draw):
    return {"plus": draw(st.booleans()), "d": draw(st.sampled_from(["ab", "\r\n", "xyz"])), "rep": 1}


def seg():
    """One segmentation of the wire bytes into feed_data chunks."""
    sizes = st.lists(st.sampled_from([1, 1, 2, 2, 3, 4, 5, 7, 11, 16, 30, 64, 200, 1000, 5000, 66000]), min_size=1, max_size=8)
    return st.one_of(
        st.just({"m": "whole"}),
        st.just({"m": "bytes"}),
        st.just({"m": "marks"}),
        st.just({"m": "marks"}),
        st.builds(lambda s: {"m": "sizes", "sz": s}, sizes),
        st.builds(lambda s: {"m": "sizes", "sz": s}, sizes),
        st.builds(lambda s: {"m": "sizes", "sz": s}, st.lists(st.integers(1, 6), min_size=1, max_size=6)),
        st.builds(lambda s: {"m": "marks", "sz": s}, st.lists(st.integers(1, 4), min_size=1, max_size=4)),
    )


@st.composite
def c2s_trace(draw, tier: str):
    r = draw(st.integers(0, 99))
    heavy = False
    if r < 90:
        m = draw(st.sampled_from([64, 64, 65, 100, 128, 255, 256, 1000, 1024, 4096]))
        mx = m
    else:
        m = REAL_MAX
        mx = None
        heavy = tier != "quick" and draw(st.integers(0, 9)) == 0
    n = draw(st.integers(1, 7 if tier == "quick" else 10))
    clean = draw(st.integers(0, 9)) < 4
    steps = [draw(client_item(i + 1, m, heavy, clean)) for i in range(n)]
    # most streams end with a plain command, so "the next command is still relayed" is observable
    if draw(st.integers(0, 9)) < 8:
        steps.append({"t": "cmd", "lines": [f"z{n + 1} NOOP"], "lits": []})
    segs = draw(st.lists(seg(), min_size=1, max_size=4))
    return {"kind": "c2s", "rseed": 0, "max": mx, "steps": steps, "segs": segs}


# ----------------------------------------------------------------- server side

RESP_LINES = [
    "* 1 EXISTS", "* 0 RECENT", "a1 OK done", "* OK [UNSEEN 1] x", "+ idling", "* BAD x", "* BYE bye", "", " ", "* SEARCH 1 2 3",
    "* LIST () \"/\" inbox", "a2 NO [TRYCREATE] nope", "* 2 FETCH (FLAGS (\\Seen))", "{3}", "* 1 FETCH (BODY[] {0}", "+OK 2 320", "-ERR no", ".", "..x",
]
RUN_PAT = ["x", "ab", "0123456789abcdef", "a\rb", "\r", "\x00\xff\x80", "{3}", "=\t"]
SMALL_N = st.integers(0, 120)
MID_N = st.sampled_from([998, 1000, 4096, 8192, 20000, 65535, 65536, 65537, 70000])
BIG_N = st.sampled_from([131070, 131071, 131072, 131073, 131080, 140000, 200000])


@st.composite
def resp_item(draw, size_class: int):
    """size_class 0 = small runs only, 1 = up to 70 kB runs, 2 = runs beyond 128 KiB possible"""
    if draw(st.integers(0, 9)) < 4:
        return {"t": "line", "d": draw(st.one_of(st.sampled_from(RESP_LINES), TEXT))}
    nruns = draw(st.integers(1, 4))
    runs = []
    for _ in range(nruns):
        c = draw(st.integers(0, 9))
        if size_class == 2 and c < 3:
            n = draw(BIG_N)
        elif size_class >= 1 and c < 6:
            n = draw(MID_N)
        else:
            n = draw(SMALL_N)
        runs.append({"d": draw(st.sampled_from(RUN_PAT)), "n": n, "sep": draw(st.sampled_from(["\r\n", "\r\n", "\r\n", "\n", "", "\r\n\r\n"]))})
    pre = draw(st.sampled_from(["* 1 FETCH (BODY[] ", "* 7 FETCH (UID 9 BODY[TEXT]<0> ", "* 2 FETCH (RFC822 ", "+OK octets follow "]))
    return {"t": "lit", "pre": pre, "runs": runs, "post": draw(st.sampled_from([")", " FLAGS (\\Seen))", "", "."]))}


def s2c_seg():
    sizes = st.lists(st.sampled_from([1, 2, 3, 5, 17, 100, 1000, 1460, 4096, 16384, 65536, 70000, 131072, 131073, 262144]), min_size=1, max_size=6)
    return st.one_of(
        st.just({"m": "whole"}),
        st.just({"m": "marks"}),
        st.just({"m": "bytes"}),
        st.builds(lambda s: {"m": "sizes", "sz": s}, sizes),
        st.builds(lambda s: {"m": "sizes", "sz": s}, sizes),
        st.builds(lambda s: {"m": "sizes", "sz": s}, st.lists(st.integers(1, 5), min_size=1, max_size=5)),
    )


@st.composite
def s2c_trace(draw, tier: str, kind: str = "s2c"):
    size_class = draw(st.sampled_from([0, 0, 0, 1, 1, 1, 1, 2]))
    n = draw(st.integers(1, 6))
    steps = [draw(resp_item(size_class)) for _ in range(n)]
    cmds = draw(st.lists(st.sampled_from(["c1 NOOP", "c2 FETCH 1 BODY[]", "c3 IDLE", "DONE", "c4 LOGIN {3+}\r\nabc x"]), min_size=0, max_size=3))
    segs = draw(st.lists(s2c_seg(), min_size=1, max_size=3))
    return {"kind": kind, "rseed": 0, "steps": steps, "cmds": cmds, "segs": segs}


# ------------------------------------------------------------------------ POP3

P3_LINES = ["STAT", "LIST", "LIST 1", "UIDL", "RETR 1", "TOP 1 0", "DELE 2", "NOOP", "RSET", "QUIT", "USER x", "PASS y z", "CAPA", "retr 1 ", "  STAT", "{3}", "XYZZY {3+}"]


@st.composite
def p3c_trace(draw, tier: str):
    n = draw(st.integers(1, 8))
    steps = []
    for _ in range(n):
        if draw(st.integers(0, 9)) < 2:
            steps.append({"t": "empty", "ws": draw(st.sampled_from(EMPTY_WS))})
        else:
            steps.append({"t": "line", "d": draw(st.one_of(st.sampled_from(P3_LINES), TEXT)) + draw(st.sampled_from(["", "", " ", "\t"]))})
    segs = draw(st.lists(seg(), min_size=1, max_size=4))
    return {"kind": "p3c", "rseed": 0, "steps": steps, "segs": segs}


def trace(tier: str):
    return st.one_of(
        c2s_trace(tier), c2s_trace(tier), c2s_trace(tier), c2s_trace(tier), c2s_trace(tier), c2s_trace(tier), c2s_trace(tier),
        s2c_trace(tier, "s2c"), s2c_trace(tier, "s2c"),
        p3c_trace(tier),
        s2c_trace(tier, "p3s"),
    )

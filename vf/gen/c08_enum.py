"""C08 bounded exhaustive enumerations (no randomness at all): called from vf.props.c08.extra().

E1 every mailbox-taking command form x every name spelling (INBOX variants, inbox-prefixed names, escapes,
   literals, literal+, 8-bit, empty) with the denoted AST;
E2 every fetch attribute x section x partial (and the three macros), single and parenthesised;
E3 every search key with fixed arguments, alone and combined to depth 2 (NOT k, OR k1 k2, (k1 k2), k1 k2);
E4 STORE: sign x SILENT x flag-list form; E5 dates: 12 months x days {1,28..31} x 6 years, valid and impossible,
   in SEARCH date, quoted date and APPEND date-time form;
E6 totality: every prefix, every single-character deletion and every single-character substitution (alphabet of
   16 structural characters) of a sentence corpus; E7 resource probes: every digit run of the corpus inflated to
   4301 digits, search keys nested 100 / 1000 / 5000 deep.
"""
from __future__ import annotations

import calendar
import re

from ..run import case_hash
from . import c08_grammar as GR

MONTHS = GR.MONTHS


def q(s):
    return GR.quote(s)


def lit(s, plus=False):
    return "{%d%s}\r\n%s" % (len(s), "+" if plus else "", s)


# (text, denoted value, cause or None)
NAME_SPELLINGS = [
    ("INBOX", "inbox", None), ("inbox", "inbox", None), ("InBoX", "inbox", None), ("iNBOx", "inbox", None),
    ('"INBOX"', "inbox", "inbox-encoded"), ('"inbox"', "inbox", None), ('"Inbox"', "inbox", "inbox-encoded"),
    (lit("INBOX"), "inbox", "inbox-encoded"), (lit("iNbOx", True), "inbox", "inbox-encoded"), (lit("inbox"), "inbox", None),
    ("inboxfoo", "inboxfoo", "inbox-prefix"), ("INBOX/sub", "INBOX/sub", "inbox-prefix"), ("inbox/a/b", "inbox/a/b", "inbox-prefix"),
    ("Inbox.old", "Inbox.old", "inbox-prefix"), ("INBOXES", "INBOXES", "inbox-prefix"), ("inbox2", "inbox2", "inbox-prefix"),
    ("inbox-x", "inbox-x", "inbox-prefix"), ("inboxinbox", "inboxinbox", "inbox-prefix"), ("INBOX_", "INBOX_", "inbox-prefix"),
    ('"inboxfoo"', "inboxfoo", None), ('"INBOX x"', "INBOX x", None), (lit("inbox2"), "inbox2", None), (lit("inbox\r\n"), "inbox\r\n", None),
    ("inbo", "inbo", None), ("nbox", "nbox", None), ("xinbox", "xinbox", None), ("in", "in", None),
    ("mb", "mb", None), ("par/child", "par/child", None), ("Sent", "Sent", None), ("123", "123", None), ("a.b", "a.b", None),
    ("a]b", "a]b", None), ("[x]", "[x]", None), ("~x", "~x", None), ("a+b", "a+b", None), ("a}b", "a}b", "brace-atom"), ("}", "}", "brace-atom"),
    ('"mb"', "mb", None), ('"x y"', "x y", None), ('"(a)"', "(a)", None), ('"{3}"', "{3}", None), ('"%*"', "%*", None),
    ('"a\\"b"', 'a"b', "quoted-escape"), ('"a\\\\b"', "a\\b", "quoted-escape"), ('"\\\\"', "\\", "quoted-escape"), ('"\\""', '"', "quoted-escape"),
    ('"\\"quoted\\""', '"quoted"', "quoted-escape"), ('"x\\\\\\"y"', 'x\\"y', "quoted-escape"),
    (lit("a b"), "a b", None), (lit("a\r\nb"), "a\r\nb", None), (lit("()"), "()", None), (lit('"'), '"', None), (lit("\\"), "\\", None),
    (lit('a"b', True), 'a"b', None), (lit("{1}\r\nx"), "{1}\r\nx", None), (lit("caf\xe9"), "caf\xe9", None), (lit("\xff\x01", True), "\xff\x01", None),
    (lit(""), "", None), ('""', "", None), (lit(" "), " ", None), (lit("mb)"), "mb)", None),
]


def mailbox_forms():
    """(text after 'a ', ast, cause) for every mailbox-taking command form."""
    for text, val, cause in NAME_SPELLINGS:
        for c in GR.MBOX1:
            yield f"{c} {text}", {"command": c.lower(), "uid": False, "mailbox_name": val}, cause
        yield f"RENAME {text} other", {"command": "rename", "uid": False, "mailbox_src_name": val, "mailbox_dst_name": "other"}, cause
        yield f"RENAME other {text}", {"command": "rename", "uid": False, "mailbox_src_name": "other", "mailbox_dst_name": val}, cause
        for c in ("COPY", "MOVE"):
            yield f"{c} 1:2 {text}", {"command": c.lower(), "uid": False, "msg_set": [[1, 2]], "mailbox_name": val}, cause
            yield f"UID {c} 7 {text}", {"command": c.lower(), "uid": True, "msg_set": [7], "mailbox_name": val}, cause
        yield f"STATUS {text} (MESSAGES UNSEEN)", {"command": "status", "uid": False, "mailbox_name": val, "status_att_list": ["messages", "unseen"]}, cause
        yield (
            f"APPEND {text} {{1}}\r\nx",
            {"command": "append", "uid": False, "mailbox_name": val, "flag_list": [], "date_time": None, "message": "x"},
            cause,
        )
        yield (
            f"APPEND {text} (\\Seen) {{3+}}\r\na\r\n",
            {"command": "append", "uid": False, "mailbox_name": val, "flag_list": ["\\Seen"], "date_time": None, "message": "a\r\n"},
            cause,
        )
        base = {"uid": False, "list_select_opts": [], "list_return_opts": [], "list_status_atts": [], "list_patterns": None}
        yield f"LIST {text} *", dict(base, command="list", mailbox_name=val, list_mailbox="*"), cause
        yield f"LSUB {text} %", dict(base, command="lsub", mailbox_name=val, list_mailbox="%"), cause


SECTIONS = [
    ("[]", []), ("[1]", [1]), ("[1.2]", [1, 2]), ("[10.2.3]", [10, 2, 3]), ("[HEADER]", ["header"]), ("[TEXT]", ["text"]), ("[header]", ["header"]),
    ("[1.HEADER]", [1, "header"]), ("[1.TEXT]", [1, "text"]), ("[1.MIME]", [1, "mime"]), ("[2.3.mime]", [2, 3, "mime"]), ("[1.2.Text]", [1, 2, "text"]),
    ("[HEADER.FIELDS (From)]", [["header.fields", ["From"]]]), ("[HEADER.FIELDS (From To)]", [["header.fields", ["From", "To"]]]),
    ("[HEADER.FIELDS.NOT (X-A)]", [["header.fields.not", ["X-A"]]]), ("[1.HEADER.FIELDS (a)]", [1, ["header.fields", ["a"]]]),
    ("[2.1.HEADER.FIELDS.NOT (a b c)]", [2, 1, ["header.fields.not", ["a", "b", "c"]]]), ('[header.fields ("From" {2}\r\nTo)]', [["header.fields", ["From", "To"]]]),
    ('[HEADER.FIELDS ("x y")]', [["header.fields", ["x y"]]]), ("[HEADER.FIELDS ({3+}\r\na)b)]", [["header.fields", ["a)b"]]]),
]
PARTIALS = [("", None), ("<0.1>", [0, 1]), ("<5.1024>", [5, 1024]), ("<4294967295.4294967295>", [4294967295, 4294967295])]
SIMPLE_ATTS = {
    "ENVELOPE": {"a": "envelope"}, "FLAGS": {"a": "flags"}, "INTERNALDATE": {"a": "internaldate"}, "RFC822.SIZE": {"a": "rfc822.size"}, "UID": {"a": "uid"},
    "BODYSTRUCTURE": {"a": "bodystructure", "ext": True}, "BODY": {"a": "bodystructure", "ext": False},
    "RFC822": {"a": "body", "section": [], "partial": None, "peek": False},
    "RFC822.HEADER": {"a": "body", "section": ["header"], "partial": None, "peek": True},
    "RFC822.TEXT": {"a": "body", "section": ["text"], "partial": None, "peek": False},
    "rfc822.size": {"a": "rfc822.size"}, "Envelope": {"a": "envelope"}, "body": {"a": "bodystructure", "ext": False},
}
MACROS = {
    "ALL": [{"a": "flags"}, {"a": "internaldate"}, {"a": "rfc822.size"}, {"a": "envelope"}],
    "FAST": [{"a": "flags"}, {"a": "internaldate"}, {"a": "rfc822.size"}],
    "FULL": [{"a": "flags"}, {"a": "internaldate"}, {"a": "rfc822.size"}, {"a": "envelope"}, {"a": "bodystructure", "ext": False}],
}


def fetch_atts():
    """(text, expected att) for every single attribute form."""
    for t, e in SIMPLE_ATTS.items():
        yield t, e
    for head, peek in (("BODY", False), ("BODY.PEEK", True), ("body.peek", True), ("Body", False)):
        for st, sv in SECTIONS:
            for pt, pv in PARTIALS:
                yield head + st + pt, {"a": "body", "section": sv, "partial": pv, "peek": peek}


def fetch_forms():
    atts = list(fetch_atts())
    for i, (t, e) in enumerate(atts):
        uid = i % 3 == 0
        pre = "UID " if uid else ""
        yield f"{pre}FETCH 1:* {t}", {"command": "fetch", "uid": uid, "msg_set": [[1, "*"]], "fetch_atts": [e]}, None
        t2, e2 = atts[(i * 7 + 3) % len(atts)]
        yield f"{pre}FETCH 2,4 ({t} {t2})", {"command": "fetch", "uid": uid, "msg_set": [2, 4], "fetch_atts": [e, e2]}, None
    for m, e in MACROS.items():
        for t in (m, m.lower(), m.capitalize()):
            yield f"FETCH * {t}", {"command": "fetch", "uid": False, "msg_set": ["*"], "fetch_atts": e}, None


def search_atoms():
    """(text, tree, cause)"""
    for k, f in sorted(GR.FLAG_SEARCH_KEYS.items()):
        yield k, ["keyword", f], None
    for k, f in sorted(GR.UNFLAG_SEARCH_KEYS.items()):
        yield k, ["not", ["keyword", f]], ("search-undraft" if k == "UNDRAFT" else None)
    yield "ALL", ["all"], None
    yield "NEW", ["and", [["keyword", "\\recent"], ["not", ["keyword", "\\seen"]]]], None
    yield "OLD", ["not", ["keyword", "\\recent"]], None
    for k in GR.STRING_KEYS:
        yield f"{k} foo", ["header", k.lower(), "foo"], None
    yield 'SUBJECT "Hello World"', ["header", "subject", "Hello World"], None
    yield "FROM {3}\r\na b", ["header", "from", "a b"], None
    yield 'TO "a\\"b"', ["header", "to", 'a"b'], "quoted-escape"
    yield "BODY tok", ["body", "tok"], None
    yield 'TEXT "x y"', ["text", "x y"], None
    yield "TEXT {2+}\r\n\xe9)", ["text", "\xe9)"], None
    yield "HEADER X-VF-Tag m1", ["header", "X-VF-Tag", "m1"], None
    yield 'HEADER "Message-ID" ""', ["header", "Message-ID", ""], None
    for k in GR.DATE_KEYS:
        yield f"{k} 1-Jan-2020", [k.lower(), [2020, 1, 1]], None
    yield 'SINCE "29-feb-2024"', ["since", [2024, 2, 29]], None
    yield "BEFORE 01-DEC-1999", ["before", [1999, 12, 1]], None
    yield "LARGER 0", ["larger", 0], None
    yield "SMALLER 4294967295", ["smaller", 4294967295], None
    yield "LARGER 0042", ["larger", 42], None
    yield "KEYWORD kw1", ["keyword", "kw1"], None
    yield "UNKEYWORD $Forwarded", ["not", ["keyword", "$Forwarded"]], None
    yield "1", ["seq", [1]], None
    yield "2:4,7,9:*", ["seq", [[2, 4], 7, [9, "*"]]], None
    yield "*", ["seq", ["*"]], None
    yield "*:3", ["seq", [["*", 3]]], None
    yield "UID 1:*", ["uid", [[1, "*"]]], None
    yield "UID 4294967295", ["uid", [4294967295]], None


def search_forms():
    atoms = list(search_atoms())
    for t, v, c in atoms:
        yield f"SEARCH {t}", {"command": "search", "uid": False, "charset": None, "search_key": ["and", [v]]}, c
        yield f"UID SEARCH NOT {t}", {"command": "search", "uid": True, "charset": None, "search_key": ["and", [["not", v]]]}, c
        yield f"SEARCH ({t})", {"command": "search", "uid": False, "charset": None, "search_key": ["and", [["and", [v]]]]}, c
        yield f"SEARCH CHARSET UTF-8 {t}", {"command": "search", "uid": False, "charset": "utf-8", "search_key": ["and", [v]]}, c
    for t1, v1, c1 in atoms:
        for t2, v2, c2 in atoms:
            if c1 and c2 and c1 != c2:
                continue
            c = c1 or c2
            yield f"SEARCH OR {t1} {t2}", {"command": "search", "uid": False, "charset": None, "search_key": ["and", [["or", v1, v2]]]}, c
            yield f"SEARCH {t1} {t2}", {"command": "search", "uid": False, "charset": None, "search_key": ["and", [v1, v2]]}, c
            yield f"SEARCH ({t1} {t2}) NOT ({t2})", {"command": "search", "uid": False, "charset": None, "search_key": ["and", [["and", [v1, v2]], ["not", ["and", [v2]]]]]}, c


def store_forms():
    flagforms = [
        ("()", [], None), ("(\\Seen)", ["\\Seen"], None), ("(\\Seen \\Deleted kw1)", ["\\Seen", "\\Deleted", "kw1"], None), ("\\Flagged", ["\\Flagged"], None),
        ("kw1", ["kw1"], None), ("\\Seen \\Deleted", ["\\Seen", "\\Deleted"], "store-bare-flags"), ("a b c", ["a", "b", "c"], "store-bare-flags"),
        ("(\\seen $Forwarded)", ["\\seen", "$Forwarded"], None), ("(\\X-ext)", ["\\X-ext"], None),
    ]
    for sign, act in (("", "REPLACE_FLAGS"), ("+", "ADD_FLAGS"), ("-", "REMOVE_FLAGS")):
        for sil in ("", ".SILENT", ".silent"):
            for word in ("FLAGS", "flags", "Flags"):
                for ft, fv, c in flagforms:
                    for uid in (False, True):
                        yield (
                            f"{'UID ' if uid else ''}STORE 1,3:5 {sign}{word}{sil} {ft}",
                            {"command": "store", "uid": uid, "msg_set": [1, [3, 5]], "store_action": act, "silent": bool(sil), "flag_list": fv},
                            c,
                        )


def date_forms():
    """valid -> ('valid', text, ast) ; impossible -> ('invalid', text, cls)"""
    for y in (1900, 1999, 2000, 2023, 2024, 2100):
        for mo in range(1, 13):
            dim = calendar.monthrange(y, mo)[1]
            for d in (0, 1, 9, 28, 29, 30, 31, 32):
                ok = 1 <= d <= dim
                for form in (f"{d}-{MONTHS[mo - 1]}-{y}", f'"{d:02d}-{MONTHS[mo - 1].upper()}-{y}"'):
                    text = f"SEARCH SENTSINCE {form}"
                    if ok:
                        yield "valid", text, {"command": "search", "uid": False, "charset": None, "search_key": ["and", [["sentsince", [y, mo, d]]]]}
                    else:
                        yield "invalid", text, "impossible-date"
                dd = f"{d:02d}" if d >= 10 or mo % 2 else f" {d}"
                text = f'APPEND mb "{dd}-{MONTHS[mo - 1]}-{y} 23:59:58 -0130" {{2}}\r\nhi'
                if ok:
                    epoch = calendar.timegm((y, mo, d, 23, 59, 58)) + 5400
                    yield "valid", text, {"command": "append", "uid": False, "mailbox_name": "mb", "flag_list": [], "date_time": [epoch, -5400], "message": "hi"}
                else:
                    yield "invalid", text, "impossible-datetime"
    for hh, mi, ss in ((24, 0, 0), (25, 0, 0), (0, 60, 0), (99, 99, 99)):
        yield "invalid", f'APPEND mb "01-Jan-2020 {hh:02d}:{mi:02d}:{ss:02d} +0000" {{2}}\r\nhi', "impossible-datetime"


MISC = [
    ("NOOP", {"command": "noop", "uid": False}), ("capability", {"command": "capability", "uid": False}), ("LOGOUT", {"command": "logout", "uid": False}),
    ("IDLE", {"command": "idle", "uid": False}), ("Check", {"command": "check", "uid": False}), ("CLOSE", {"command": "close", "uid": False}),
    ("UNSELECT", {"command": "unselect", "uid": False}), ("NAMESPACE", {"command": "namespace", "uid": False}), ("EXPUNGE", {"command": "expunge", "uid": False}),
    ("UID EXPUNGE 1:3,9", {"command": "expunge", "uid": True, "msg_set": [[1, 3], 9]}),
    ("LOGIN user pass", {"command": "login", "uid": False, "user_name": "user", "password": "pass"}),
    ('LOGIN "a b" {3}\r\np w', {"command": "login", "uid": False, "user_name": "a b", "password": "p w"}),
    ("LOGIN {4+}\r\nu\r\nx {0}\r\n", {"command": "login", "uid": False, "user_name": "u\r\nx", "password": ""}),
    ("AUTHENTICATE PLAIN", {"command": "authenticate", "uid": False, "auth_mechanism_name": "PLAIN"}),
    ("ID NIL", {"command": "id", "uid": False, "id_dict": {}}), ("ID ()", {"command": "id", "uid": False, "id_dict": {}}),
    ('ID ("name" "x" "os" NIL)', {"command": "id", "uid": False, "id_dict": {"name": "x", "os": None}}),
    ('id ("name" {3}\r\na"b "v" nil)', {"command": "id", "uid": False, "id_dict": {"name": 'a"b', "v": None}}),
    ("STATUS mb (MESSAGES RECENT UIDNEXT UIDVALIDITY UNSEEN)", {"command": "status", "uid": False, "mailbox_name": "mb", "status_att_list": ["messages", "recent", "uidnext", "uidvalidity", "unseen"]}),
    ('LIST "" *', {"command": "list", "uid": False, "mailbox_name": "", "list_mailbox": "*", "list_patterns": None, "list_select_opts": [], "list_return_opts": [], "list_status_atts": []}),
    ('LIST (SUBSCRIBED RECURSIVEMATCH) "" (a% "b c") RETURN (CHILDREN STATUS (MESSAGES UNSEEN) SPECIAL-USE)', {"command": "list", "uid": False, "mailbox_name": "", "list_mailbox": None, "list_patterns": ["a%", "b c"], "list_select_opts": ["recursivematch", "subscribed"], "list_return_opts": ["children", "special-use", "status"], "list_status_atts": ["messages", "unseen"]}),
    ('LIST () "" "" RETURN ()', {"command": "list", "uid": False, "mailbox_name": "", "list_mailbox": "", "list_patterns": None, "list_select_opts": [], "list_return_opts": [], "list_status_atts": []}),
    ('LIST (SPECIAL-USE REMOTE) par/ % RETURN (SUBSCRIBED)', {"command": "list", "uid": False, "mailbox_name": "par/", "list_mailbox": "%", "list_patterns": None, "list_select_opts": ["remote", "special-use"], "list_return_opts": ["subscribed"], "list_status_atts": []}),
    ('LSUB "" {3}\r\na*b', {"command": "lsub", "uid": False, "mailbox_name": "", "list_mailbox": "a*b", "list_patterns": None, "list_select_opts": [], "list_return_opts": [], "list_status_atts": []}),
    ('APPEND mb (\\Seen kw1) " 5-Mar-2021 01:02:03 +0545" {14+}\r\nSubject: s\r\n\r\n', {"command": "append", "uid": False, "mailbox_name": "mb", "flag_list": ["\\Seen", "kw1"], "date_time": [calendar.timegm((2021, 3, 5, 1, 2, 3)) - 20700, 20700], "message": "Subject: s\r\n\r\n"}),
]


def all_valid():
    """Yield traces (kind valid) of E1-E5."""
    tags = ["a", "A001", "z]", "7.x"]
    i = 0
    for group, forms in (("mailbox", mailbox_forms()), ("fetch", fetch_forms()), ("search", search_forms()), ("store", store_forms())):
        for text, ast, cause in forms:
            i += 1
            tag = tags[i % len(tags)]
            ast = dict(ast, tag=tag)
            labels = []
            if "{" in text and "}\r\n" in text:
                labels.append("lit")
            if cause == "quoted-escape":
                labels.append("qesc")
            if group == "search" and ("OR " in text or "NOT " in text or "(" in text):
                labels.append("search:nested")
            if group == "fetch" and "[" in text:
                labels.append("fetch:section")
            yield group, {"kind": "valid", "text": f"{tag} {text}", "ast": ast, "cause": cause, "labels": labels}
    for text, ast in MISC:
        yield "misc", {"kind": "valid", "text": f"a {text}", "ast": dict(ast, tag="a"), "cause": None, "labels": ["lit"] if "}\r\n" in text else []}
    for kind, text, x in date_forms():
        if kind == "valid":
            yield "date", {"kind": "valid", "text": f"a {text}", "ast": dict(x, tag="a"), "cause": None, "labels": ["lit"] if "}\r\n" in text else []}
        else:
            yield "date", {"kind": "invalid", "text": f"a {text}", "cls": x, "labels": []}


SUBST = list(' ()[]{}<>"\\*\r\n\x00') + ["0"]


def corpus(valid_traces, per_group):
    """A deterministic sub-sample of the enumerated sentences (every k-th of each group) for E6/E7."""
    by = {}
    for grp, tr in valid_traces:
        if tr["kind"] == "valid":
            by.setdefault(grp, []).append(tr["text"])
    out = []
    for grp in sorted(by):
        lst = by[grp]
        step = max(1, len(lst) // per_group)
        out.extend(lst[::step][:per_group])
    return out


ATHERIS_RUNS = 1500000  # per campaign; 8 campaigns
FUZZ_DICT = [
    "UID ", "FETCH ", "SEARCH ", "STORE ", "APPEND ", "LIST ", "STATUS ", "LOGIN ", "RENAME ", "COPY ", "MOVE ", "SELECT ", "ID ", "FLAGS", "+FLAGS.SILENT ",
    "BODY[", "BODY.PEEK[", "HEADER.FIELDS (", "HEADER.FIELDS.NOT (", ".MIME]", "TEXT]", "<0.1>", "RETURN (", "STATUS (", "CHARSET ", "NOT ", "OR ", "KEYWORD ",
    "BEFORE ", "1-Jan-2020", '"01-Jan-2020 10:00:00 +0000"', "{1}\r\nx", "{0+}\r\n", "NIL", "inbox", "1:*", "\\Seen", "(", ")", '""', "RECURSIVEMATCH",
    "SUBSCRIBED", "MESSAGES", "LARGER ", "HEADER ", "ALL", "FULL", "RFC822.SIZE", "ENVELOPE",
]


def _dict_escape(tok):
    out = []
    for ch in tok:
        if ch == "\\":
            out.append("\\\\")
        elif ch == '"':
            out.append('\\"')
        elif 32 <= ord(ch) < 127:
            out.append(ch)
        else:
            out.append("\\x%02x" % ord(ch))
    return '"' + "".join(out) + '"'


def atheris_campaign(seed, judge, feed_finding):
    """Thorough tier: 8 single-process libFuzzer campaigns (4 seeded with the enumerated corpus, 4 from an
    empty corpus), each bounded by -runs, with per-campaign scratch corpus directories."""
    import json
    import os
    import subprocess
    import sys

    from ..world import rmtree, scratch_root

    root = scratch_root() / "c08-atheris"
    rmtree(root)
    os.makedirs(root, exist_ok=True)
    try:
        chk = subprocess.run([sys.executable, "-c", "import atheris"], capture_output=True)
        if chk.returncode != 0:
            return {"atheris": "unavailable"}
        dict_path = str(root / "tokens.dict")
        with open(dict_path, "w") as f:
            for tok in FUZZ_DICT:
                f.write(_dict_escape(tok) + "\n")
        seeds = corpus(list(all_valid()), 40)
        procs = []
        for i in range(8):
            cdir = root / f"corpus{i}"
            os.makedirs(cdir, exist_ok=True)
            if i < 4:
                for n, text in enumerate(seeds):
                    with open(cdir / f"s{n:04d}", "wb") as f:
                        f.write(text.encode("latin-1"))
            out = str(root / f"found{i}.json")
            max_len = 6000 if i % 4 == 3 else 400
            cmd = [sys.executable, "-m", "vf.gen.c08_atheris", out, str(cdir), str(ATHERIS_RUNS), str(seed * 100 + i), str(max_len), dict_path]
            procs.append((out, subprocess.Popen(cmd, stdout=subprocess.DEVNULL, stderr=subprocess.DEVNULL)))
        execs = 0
        summary = []
        for out, pr in procs:
            pr.wait()
            try:
                rj = json.load(open(out))
            except Exception:
                summary.append({"error": f"no result file, exit {pr.returncode}"})
                continue
            execs += rj["stats"]["execs"]
            summary.append(rj["stats"])
            for fnd in rj["found"]:
                feed_finding({"kind": "mutant", "text": fnd["text"], "ops": ["atheris"], "labels": []})
        return {"atheris": {"campaigns": summary, "execs": execs}}
    finally:
        rmtree(root)


def run(tier, judge, ID, seed=1):
    evaluations = 0
    nontrivial = []
    buckets = {}
    counts = {}
    samples = []
    enumerated = {}
    NT = {"lit", "qesc", "search:nested", "fetch:section"}

    def feed(tr, grp):
        nonlocal evaluations
        out, outcome, _obs = judge(tr)
        evaluations += 1
        enumerated[grp] = enumerated.get(grp, 0) + 1
        for clause, sig, detail in out:
            k = (clause, sig)
            counts[k] = counts.get(k, 0) + 1
            cur = buckets.get(k)
            if cur is None or len(tr["text"]) < len(cur["trace"]["text"]):
                buckets[k] = {"property": ID, "clause": clause, "sig": sig, "detail": detail, "trace": tr}
        return outcome

    valid = list(all_valid())
    for grp, tr in valid:
        feed(tr, "E1-5:" + grp)
        if tr["kind"] == "valid" and NT & set(tr["labels"]):
            nontrivial.append(case_hash(tr))
    if valid:
        samples.append([{"enumeration": "E1-E5", "sentences": len(valid), "first": valid[0][1]["text"], "last": valid[-1][1]["text"][:120]}])

    # E6: totality under every prefix / single deletion / single substitution
    texts = corpus(valid, 14 if tier == "quick" else 120)
    for text in texts:
        n = len(text)
        for i in range(n + 1):
            feed({"kind": "mutant", "text": text[:i], "ops": ["truncate"], "labels": []}, "E6:prefix")
        for i in range(n):
            feed({"kind": "mutant", "text": text[:i] + text[i + 1 :], "ops": ["delete"], "labels": []}, "E6:delete")
            for ch in SUBST:
                if ch != text[i]:
                    feed({"kind": "mutant", "text": text[:i] + ch + text[i + 1 :], "ops": ["replace"], "labels": []}, "E6:substitute")

    # E7: resource probes
    big = texts if tier != "quick" else texts[:: max(1, len(texts) // 30)]
    for text in big:
        for m in re.finditer(r"\d+", text):
            feed({"kind": "mutant", "text": text[: m.start()] + "1" * 4301 + text[m.end() :], "ops": ["digits"], "labels": []}, "E7:digits")
    for depth in (100, 1000, 5000):
        for opener, closer in (("(", ")"), ("NOT ", ""), ("OR ALL ", ""), ("NOT (", ")")):
            feed({"kind": "mutant", "text": "a SEARCH " + opener * depth + "ALL" + closer * depth, "ops": ["nest"], "labels": []}, "E7:nest")
            feed({"kind": "mutant", "text": "a UID SEARCH " + opener * depth, "ops": ["nest"], "labels": []}, "E7:nest")

    fuzz_cov = {}
    if tier == "thorough":
        fuzz_cov = atheris_campaign(seed, judge, lambda tr: feed(tr, "E8:atheris-findings"))
        evaluations += fuzz_cov.get("atheris", {}).get("execs", 0) if isinstance(fuzz_cov.get("atheris"), dict) else 0

    violations = []
    for k in sorted(buckets):
        violations.append(buckets[k])
    return {
        "evaluations": evaluations,
        "nontrivial": nontrivial,
        "violations": violations,
        "samples": samples,
        "coverage": dict({"exhaustive": True, "enumerated": dict(sorted(enumerated.items())), "enumeration_bucket_counts": {f"{c}|{s}": n for (c, s), n in sorted(counts.items())}}, **fuzz_cov),
    }

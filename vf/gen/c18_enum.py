"""C18 helper: bounded-exhaustive walks of timed login-attempt sequences
through the real throttle (`check_allow`/`login_failed`), the real
`PreAuthenticated.do_login` and the real `POP3SubprocessInterface._do_pass`,
compared event by event with the reference automaton (`c18_model.Nfa`).

An event is [user, addr, right_password(0/1), dt]: `dt` virtual seconds after
the END of the previous attempt (a refusal by `do_login` itself takes 10 s).
Users u1/u2 are real accounts, `ghost` is not in the password file.
"""
from __future__ import annotations

from .c18_front import ACCOUNTS, FrontWorld
from .c18_model import Nfa

USERMAP = {"u1": "alice", "u2": "bob", "u3": "carol", "u4": "Dan@Example.COM", "ghost": "ghost"}
ADDRMAP = {"a1": "10.1.0.1", "a2": "10.1.0.2", "a3": "10.1.0.3"}
LEVELS = ("fn", "imap", "pop")


class _W:
    def __init__(self):
        self.closed = False

    def get_extra_info(self, k, default=None):
        return ("10.9.9.9", 999)

    def is_closing(self):
        return self.closed

    def write(self, d):
        pass

    async def drain(self):
        pass

    def close(self):
        self.closed = True

    async def wait_closed(self):
        pass


class _ClientStub:
    """What PreAuthenticated / POP3SubprocessInterface need from their client."""

    debug = False

    def __init__(self, addr):
        self.name = f"{addr}:999"
        self.rem_addr = addr
        self.writer = _W()
        self.out = []

    async def push(self, *data):
        self.out.extend(data)

    async def close(self):
        pass


class Driver:
    """Performs single attempts at one of the three levels inside a FrontWorld."""

    def __init__(self, world: FrontWorld, level: str):
        import asimap.throttle as th

        self.w = world
        self.level = level
        self.th = th
        self.cmds = {}
        self.accessed = 0

    def save(self):
        return (dict(self.th.BAD_USER_AUTHS), dict(self.th.BAD_IP_AUTHS), self.w.loop._vtime)

    def restore(self, s):
        self.th.BAD_USER_AUTHS.clear()
        self.th.BAD_USER_AUTHS.update(s[0])
        self.th.BAD_IP_AUTHS.clear()
        self.th.BAD_IP_AUTHS.update(s[1])
        self.w.loop._vtime = s[2]

    def creds(self, u, right):
        user = USERMAP.get(u, u)
        if right and user in ACCOUNTS:
            return user, ACCOUNTS[user][0]
        return user, "wr0ng"

    async def attempt(self, u, a, right):
        """-> (refused_by_throttle, succeeded)"""
        user, pw = self.creds(u, right)
        addr = ADDRMAP.get(a, a)
        w = self.w
        if self.level == "fn":
            allowed = self.th.check_allow(user, addr)
            ok = bool(right) and user in ACCOUNTS
            if allowed and not ok:
                self.th.login_failed(user, addr)
            return (not allowed), (allowed and ok)
        n0 = len(w.auth_calls)
        if self.level == "imap":
            from asimap.client import ClientState, PreAuthenticated
            from asimap.exceptions import Bad, No
            from asimap.parse import parse_cmd_from_msg

            key = (user, pw)
            cmd = self.cmds.get(key)
            if cmd is None:
                cmd = parse_cmd_from_msg(b'x LOGIN "%s" "%s"' % (user.encode(), pw.encode()))
                self.cmds[key] = cmd
            h = PreAuthenticated(_ClientStub(addr))
            okd = False
            try:
                await h.do_login(cmd)
                okd = h.state == ClientState.AUTHENTICATED
            except (No, Bad):
                okd = False
            return len(w.auth_calls) == n0, okd
        # pop
        from asimap.pop3_server import POP3SubprocessInterface

        cl = _ClientStub(addr)
        intf = POP3SubprocessInterface(cl)
        got = []

        async def light(userobj):
            got.append(userobj.username)

        intf.get_and_connect_subprocess = light
        intf.username = user
        await intf._do_pass(pw)
        self.accessed += len(got)
        return len(w.auth_calls) == n0, intf.state == "transaction"


def outcome_of(u, right, okd=True):
    user = USERMAP.get(u, u)
    if right and user in ACCOUNTS:
        return "ok" if okd else "either"
    return "fail"


async def run_sequence(world: FrontWorld, level: str, events, transcript=None):
    """Run one sequence; -> list of (kind, who, index)."""
    d = Driver(world, level)
    nfa = Nfa()
    loop = world.loop
    out = []
    for i, (u, a, right, dt) in enumerate(events):
        loop._vtime += dt
        t = loop._vtime
        exp, _ = nfa.expected(USERMAP.get(u, u), ADDRMAP.get(a, a), t)
        refused, okd = await d.attempt(u, a, right)
        bad = nfa.step(USERMAP.get(u, u), ADDRMAP.get(a, a), t, refused, outcome_of(u, right, okd))
        if transcript is not None:
            transcript.append({"i": i, "t": t - 1000.0, "u": u, "a": a, "right": right, "dt": dt,
                               "model_locked": sorted(exp), "refused": refused, "ok": okd})
        if bad:
            out.append((bad[0], bad[1], i))
            break
        if refused and okd:
            out.append(("locked-admitted", "ok-after-refusal", i))
            break
    return out


def walk_task(args):
    """One unit of an enumeration: execute `prefix`, then every extension of it
    up to `depth` events in total.  Runs in a pool worker."""
    level, alpha, depth, prefix = args
    stats = {"nodes": 0, "refused": 0, "right_refused": 0, "unlocked_after_lock": 0, "ambiguous60": 0,
             "addr_only_lock": 0, "violations": [], "lock_paths": []}
    w = FrontWorld(0)
    try:
        d = Driver(w, level)
        loop = w.loop

        async def one(ev, nfa, path, locked_before):
            u, a, right, dt = ev
            user, addr = USERMAP.get(u, u), ADDRMAP.get(a, a)
            loop._vtime += dt
            t = loop._vtime
            exp, why = nfa.expected(user, addr, t)
            refused, okd = await d.attempt(u, a, right)
            stats["nodes"] += 1
            if len(exp) == 2:
                stats["ambiguous60"] += 1
            if refused:
                stats["refused"] += 1
                if right:
                    stats["right_refused"] += 1
                if why == {"addr"}:
                    stats["addr_only_lock"] += 1
                if not locked_before and len(stats["lock_paths"]) < 8:
                    stats["lock_paths"].append(path + [list(ev)])
            elif locked_before:
                stats["unlocked_after_lock"] += 1
            bad = nfa.step(user, addr, t, refused, outcome_of(u, right, okd))
            if bad is None and refused and okd:
                bad = ("locked-admitted", "ok-after-refusal")
            if bad is not None:
                if len(stats["violations"]) < 40:
                    stats["violations"].append({"kind": bad[0], "who": bad[1], "events": path + [list(ev)]})
                return False, refused
            return True, refused

        async def dfs(nfa, path, locked_before):
            for ev in alpha:
                s = d.save()
                n2 = nfa.copy()
                p2 = path + [list(ev)]
                good, refused = await one(ev, n2, path, locked_before)
                if good and len(p2) < depth:
                    await dfs(n2, p2, locked_before or refused)
                d.restore(s)

        async def main():
            nfa = Nfa()
            path = []
            locked = False
            for ev in prefix:
                # the prefix's own nodes (and any violation there) are counted /
                # reported by the head task that walks the first levels
                snap = {k: (list(v) if isinstance(v, list) else v) for k, v in stats.items()}
                good, refused = await one(tuple(ev), nfa, path, locked)
                path = path + [list(ev)]
                locked = locked or refused
                stats.update(snap)
                if not good:
                    return
            if len(path) < depth:
                await dfs(nfa, path, locked)

        w.run(main(), budget=2_000_000_000)
    finally:
        w.close()
    return stats


def make_tasks(level, alpha, depth, split=2):
    """Prefix-partition of the full tree: one task per prefix of length `split`
    explores all its proper extensions; shorter prefixes are covered by tasks
    with depth-limited walks."""
    tasks = []
    # the first `split` levels of the tree, walked once
    tasks.append((level, alpha, min(split, depth), []))
    if depth > split:
        def rec(prefix):
            if len(prefix) == split:
                tasks.append((level, alpha, depth, prefix))
                return
            for ev in alpha:
                rec(prefix + [list(ev)])
        rec([])
    return tasks

"""C18 helper: the *front-end* (root server) driven in-process.

`FrontWorld` = a password file with a few accounts (hashed with asimap's own
hashers at low work factors), one mail root per account, and IMAP / POP3
connections that run the real `IMAPClient.start()` / `POP3Client.start()` on a
virtual-time loop with fed StreamReaders and capturing writers.

Seams (all monkey-patching from outside, restored by `FrontWorld.close()`):
  * `IMAPSubprocessInterface.get_and_connect_subprocess` and the POP3 twin are
    replaced by a recording stub: it *is* the access gate (nothing else sets
    the subprocess-side writer, so nothing can be relayed without it).
  * `asimap.client.authenticate` / `asimap.pop3_server.authenticate` are
    wrapped by a recorder that calls through to the real function: an attempt
    was refused *by the throttle* iff the recorder was not reached.
  * a `sys.addaudithook` hook notes every audited file-system event whose path
    lies under a mail root while asimap code is running.
"""
from __future__ import annotations

import asyncio
import hashlib
import os
import random
import sys
import tempfile
from pathlib import Path

from ..driver import FakeWriter
from ..world import EPOCH, Quiescent, ScheduleSource, Spin, close_loop, new_loop, reset_globals, rmtree, scratch_root

LOW_PBKDF2_ITERATIONS = 16

# ------------------------------------------------------------------ accounts

# name -> (initial password, hasher kind, disabled?, has a mail directory?)
ACCOUNTS = {
    "alice": ("s3cret", "pbkdf2_sha256", False, True),
    "bob": ("hunter2 x", "scrypt", False, True),
    "carol": ('a\\"b', "pbkdf2_sha1", False, True),  # the 4 characters  a \ " b
    "dis": ("disabled1", "pbkdf2_sha256", True, True),
    "nodir": ("nodirpw", "pbkdf2_sha256", False, False),
    # an account whose name is not all lower case (the throttle's tables are keyed by the name as sent)
    "Dan@Example.COM": ("Mixed1", "pbkdf2_sha256", False, True),
}
GHOSTS = ["ghost", "root", "alice2", "Alice", "ali"]

_HASH_CACHE: dict = {}
_ORIG: dict = {}
_CUR: dict = {"w": None}


def _lower_work_factors():
    import asimap.hashers as H

    if "iters" not in _ORIG:
        _ORIG["iters"] = (H.PBKDF2PasswordHasher.iterations, H.PBKDF2SHA1PasswordHasher.iterations)
    H.PBKDF2PasswordHasher.iterations = LOW_PBKDF2_ITERATIONS
    H.PBKDF2SHA1PasswordHasher.iterations = LOW_PBKDF2_ITERATIONS


def _restore_work_factors():
    import asimap.hashers as H

    if "iters" in _ORIG:
        H.PBKDF2PasswordHasher.iterations, H.PBKDF2SHA1PasswordHasher.iterations = _ORIG.pop("iters")


def make_hash(password: str, kind: str, disabled: bool = False) -> str:
    """Hash with asimap's own hashers (deterministic salt, low work factor)."""
    import asimap.hashers as H

    key = (password, kind, disabled)
    h = _HASH_CACHE.get(key)
    if h is None:
        salt = "vf" + hashlib.sha1((kind + "/" + password).encode()).hexdigest()[:20]
        if kind == "scrypt":
            h = H.get_hasher("scrypt").encode(password, salt, n=2, r=1, p=1)
        else:
            h = H.make_password(password, salt=salt, hasher=kind)
        if disabled:
            h = H.UNUSABLE_PASSWORD_PREFIX + h
        _HASH_CACHE[key] = h
    return h


# -------------------------------------------------------------- audit hook

_AUDIT = {"installed": False, "on": False, "roots": (), "hits": []}
_FS_EVENTS = {
    "open", "os.listdir", "os.scandir", "os.mkdir", "os.rmdir", "os.remove", "os.rename", "os.chmod", "os.chown",
    "os.utime", "os.truncate", "os.link", "os.symlink", "shutil.copyfile", "shutil.move", "shutil.rmtree",
    "os.chdir", "sqlite3.connect",
}


def _audit(event, args):
    if not _AUDIT["on"] or event not in _FS_EVENTS:
        return
    roots = _AUDIT["roots"]
    for a in args[:2]:
        if isinstance(a, bytes):
            try:
                a = a.decode()
            except Exception:
                continue
        elif isinstance(a, os.PathLike):
            a = os.fspath(a)
        if isinstance(a, str):
            for r in roots:
                if a.startswith(r):
                    _AUDIT["hits"].append((event, a[len(r):]))
                    return


def _install_audit():
    if not _AUDIT["installed"]:
        _AUDIT["installed"] = True
        sys.addaudithook(_audit)


# ------------------------------------------------------------------ stubs


class _ServerStub:
    debug = False
    log_config = None
    trace = False
    trace_dir = None


async def _imap_stub(self, user):
    w = _CUR["w"]
    conn = w.by_intf.get(id(self))
    w.note_access(conn, user)
    loop = asyncio.get_running_loop()
    self.reader = asyncio.StreamReader(limit=131_072, loop=loop)
    self.writer = FakeWriter(loop)
    if conn is not None:
        conn.sub_reader, conn.sub_writer = self.reader, self.writer
    self.wait_task = asyncio.create_task(self.msgs_to_client())
    self.wait_task.add_done_callback(self.msgs_to_client_done)


async def _pop_stub(self, user):
    w = _CUR["w"]
    conn = w.by_intf.get(id(self))
    w.note_access(conn, user)
    loop = asyncio.get_running_loop()
    self.reader = asyncio.StreamReader(limit=65536, loop=loop)
    self.writer = FakeWriter(loop)
    if conn is not None:
        conn.sub_reader, conn.sub_writer = self.reader, self.writer
    self.wait_task = asyncio.create_task(self.msgs_to_client())
    self.wait_task.add_done_callback(self.msgs_to_client_done)


def _make_auth_wrap(real):
    async def auth_wrap(username, password):
        w = _CUR["w"]
        if w is not None:
            w.auth_calls.append((username, password, w.loop.time()))
        return await real(username, password)

    auth_wrap._vf_real = real
    return auth_wrap


def _patch():
    import asimap.client as C
    import asimap.pop3_server as P
    import asimap.server as S

    if "imap_gacs" in _ORIG:
        return
    _ORIG["imap_gacs"] = S.IMAPSubprocessInterface.get_and_connect_subprocess
    _ORIG["pop_gacs"] = P.POP3SubprocessInterface.get_and_connect_subprocess
    _ORIG["c_auth"] = C.authenticate
    _ORIG["p_auth"] = P.authenticate
    S.IMAPSubprocessInterface.get_and_connect_subprocess = _imap_stub
    P.POP3SubprocessInterface.get_and_connect_subprocess = _pop_stub
    C.authenticate = _make_auth_wrap(_ORIG["c_auth"])
    P.authenticate = _make_auth_wrap(_ORIG["p_auth"])


def _unpatch():
    import asimap.client as C
    import asimap.pop3_server as P
    import asimap.server as S

    if "imap_gacs" not in _ORIG:
        return
    S.IMAPSubprocessInterface.get_and_connect_subprocess = _ORIG.pop("imap_gacs")
    P.POP3SubprocessInterface.get_and_connect_subprocess = _ORIG.pop("pop_gacs")
    C.authenticate = _ORIG.pop("c_auth")
    P.authenticate = _ORIG.pop("p_auth")


# ------------------------------------------------------------- connections


class Conn:
    """One client connection to the front-end (IMAP or POP3)."""

    def __init__(self, world: "FrontWorld", name: str, proto: str, addr: str):
        self.world = world
        self.name = name
        self.proto = proto
        self.addr = addr
        loop = world.loop
        self.reader = asyncio.StreamReader(loop=loop)
        self.writer = FakeWriter(loop)
        self.sub_reader = None
        self.sub_writer = None
        world.nport += 1
        port = 40000 + world.nport
        if proto == "imap":
            from asimap.server import IMAPClient

            self.client = IMAPClient(_ServerStub(), f"{addr}:{port}", addr, port, self.reader, self.writer)
        else:
            from asimap.pop3_server import POP3Client

            self.client = POP3Client(_ServerStub(), f"{addr}:{port}", addr, port, self.reader, self.writer)
        world.by_intf[id(self.client.subprocess_intf)] = self
        self.task = loop.create_task(self.client.start(), name=f"front-{name}")
        self.ncmd = 0
        self.cur = None  # description of the command in progress
        self.accessed = False  # the gate stub was called for this connection
        self.dead = False
        self.pop_user = None  # model: last USER argument (POP3)

    @property
    def alive(self):
        return not (self.dead or self.task.done() or self.writer.closed)

    async def pump(self, limit: float = 400.0):
        """Run until the connection has consumed everything fed to it and is
        waiting for more input (or is finished).  Virtual time only."""
        loop = self.world.loop
        t0 = loop.time()
        spins = 0
        while True:
            for _ in range(4):
                await asyncio.sleep(0)
            if self.task.done():
                return True
            if not self.reader._buffer and self.reader._waiter is not None:
                return True
            spins += 1
            if spins > 6:
                if loop.time() - t0 > limit:
                    return False
                await asyncio.sleep(0.5)

    async def send(self, data: bytes, desc=None):
        """Feed bytes (a whole command incl. literals, CRLF appended); returns
        the bytes the client received meanwhile."""
        self.ncmd += 1
        self.cur = desc
        start = len(self.writer.buf)
        self.reader.feed_data(data + b"\r\n")
        ok = await self.pump()
        self.cur = None
        return bytes(self.writer.buf[start:]), ok

    async def drop(self):
        self.dead = True
        try:
            self.reader.feed_eof()
        except Exception:
            pass
        await self.pump(50)

    async def subprocess_gone(self):
        """The user process closes its side of the connection."""
        if self.sub_reader is not None:
            self.sub_reader.feed_eof()
            for _ in range(10):
                await asyncio.sleep(0)


# ------------------------------------------------------------------- world


class FrontWorld:
    def __init__(self, rseed: int = 0):
        import asimap.auth as A
        import asimap.server as S

        reset_globals()
        random.seed(rseed)
        self.loop = new_loop(ScheduleSource(rseed))
        self.dir = Path(tempfile.mkdtemp(dir=str(scratch_root()), prefix="f"))
        self.mail = self.dir / "mail"
        self.mail.mkdir()
        self.pwfile = self.dir / "pw" / "asimap_pwfile.txt"
        self.pwfile.parent.mkdir()
        self.fsclock = int(EPOCH) + 5000
        self.nport = 0
        self.by_intf: dict = {}
        self.conns: list[Conn] = []
        self.access: list[dict] = []
        self.auth_calls: list = []
        self.closed = False
        # model of the password file: user -> {"pw", "kind", "disabled", "dir"}
        self.accounts = {}
        _lower_work_factors()
        for name, (pw, kind, disabled, has_dir) in ACCOUNTS.items():
            self.accounts[name] = {"pw": pw, "kind": kind, "disabled": disabled, "dir": has_dir}
            if has_dir:
                inbox = self.mail / name / "inbox"
                inbox.mkdir(parents=True)
                (inbox / ".mh_sequences").write_text("unseen: 1\n")
                (inbox / "1").write_text(f"From: x@example.com\nSubject: private mail of {name}\n\nsecret-{name}\n")
        self._orig_pw = (A.PW_FILE_LOCATION, A.PW_FILE_LAST_TIMESTAMP)
        A.PW_FILE_LOCATION = str(self.pwfile)
        A.PW_FILE_LAST_TIMESTAMP = 0.0
        A.USERS.clear()
        S.USER_IMAP_SUBPROCESSES.clear()
        self.write_pwfile()
        _patch()
        _install_audit()
        _AUDIT["roots"] = (str(self.mail),)
        _AUDIT["hits"] = []
        _CUR["w"] = self

    # -- password file ---------------------------------------------------
    def write_pwfile(self):
        lines = ["# asimap password file (vf C18)"]
        for name in sorted(self.accounts):
            acc = self.accounts[name]
            lines.append(f"{name}:{make_hash(acc['pw'], acc['kind'], acc['disabled'])}:{self.mail / name}")
        tmp = self.pwfile.with_suffix(".new")
        tmp.write_text("\n".join(lines) + "\n")
        tmp.rename(self.pwfile)
        self.fsclock += 7
        os.utime(self.pwfile, (self.fsclock, self.fsclock))

    def right(self, user: str, password: str) -> bool:
        acc = self.accounts.get(user)
        return acc is not None and not acc["disabled"] and acc["pw"] == password

    # -- gate --------------------------------------------------------------
    def note_access(self, conn, user):
        self.access.append({
            "conn": conn.name if conn is not None else None,
            "cmd": conn.cur if conn is not None else None,
            "ncmd": conn.ncmd if conn is not None else None,
            "user": getattr(user, "username", str(user)),
            "t": self.loop.time(),
        })
        if conn is not None:
            conn.accessed = True

    def connect(self, name: str, proto: str, addr: str) -> Conn:
        c = Conn(self, name, proto, addr)
        self.conns.append(c)
        return c

    def snapshot(self):
        was = _AUDIT["on"]
        _AUDIT["on"] = False
        try:
            out = []
            for root, dirs, files in os.walk(self.mail):
                dirs.sort()
                rel = os.path.relpath(root, self.mail)
                st = os.stat(root)
                out.append((rel + "/", st.st_mtime_ns, 0, ""))
                for fn in sorted(files):
                    p = os.path.join(root, fn)
                    st = os.stat(p)
                    with open(p, "rb") as f:
                        out.append((os.path.join(rel, fn), st.st_mtime_ns, st.st_size, hashlib.sha1(f.read()).hexdigest()))
            return out
        finally:
            _AUDIT["on"] = was

    # -- running -----------------------------------------------------------
    def run(self, coro, budget: int = 400_000):
        from ..driver import Hang

        lp = self.loop
        lp.max_iterations = lp.iterations + budget
        _AUDIT["on"] = True
        try:
            return lp.run_until_complete(coro)
        except Quiescent as e:
            raise Hang(f"quiescent: {e}") from None
        except Spin as e:
            raise Hang(f"spin: {e}") from None
        finally:
            _AUDIT["on"] = False
            lp.max_iterations = None

    def audit_hits(self):
        return list(_AUDIT["hits"])

    def close(self):
        import asimap.auth as A
        import asimap.server as S

        if self.closed:
            return
        self.closed = True
        _AUDIT["on"] = False
        try:
            for c in self.conns:
                try:
                    c.reader.feed_eof()
                except Exception:
                    pass
                if c.sub_reader is not None:
                    try:
                        c.sub_reader.feed_eof()
                    except Exception:
                        pass
        finally:
            close_loop(self.loop)
            _CUR["w"] = None
            _AUDIT["roots"] = ()
            _unpatch()
            _restore_work_factors()
            A.PW_FILE_LOCATION, A.PW_FILE_LAST_TIMESTAMP = self._orig_pw
            A.USERS.clear()
            S.USER_IMAP_SUBPROCESSES.clear()
            reset_globals()
            rmtree(self.dir)


# ------------------------------------------------------------ IMAP encoding


ATOM_SPECIALS = set('(){ %*"\\]') | {chr(i) for i in range(0, 32)} | {"\x7f"}


def enc_astring(s: str, how: str) -> bytes:
    """Encode a string as an IMAP astring so that the *stream denotes* s
    (RFC 3501): atom when possible, quoted with \\-escapes, or a literal."""
    b = s.encode("latin-1")
    if how == "atom" and s and not (set(s) & ATOM_SPECIALS) and all(ord(ch) < 127 for ch in s):
        return b
    if how in ("atom", "quoted") and "\r" not in s and "\n" not in s:
        return b'"' + b.replace(b"\\", b"\\\\").replace(b'"', b'\\"') + b'"'
    if how == "literal+":
        return b"{%d+}\r\n%s" % (len(b), b)
    return b"{%d}\r\n%s" % (len(b), b)

"""C08 grammar generator: RFC 3501 (+ IDLE, ID, MOVE, UNSELECT, UIDPLUS, LITERAL+, LIST-EXTENDED,
LIST-STATUS, SPECIAL-USE, NAMESPACE) command sentences together with the AST they denote.

Everything is driven by Hypothesis draws (class G wraps `draw`).  A sentence is a latin-1 `str` exactly as
IMAPClientProxy.run() hands it to IMAPClientCommand (literals already assembled: "{n}\\r\\n<n octets>", no
trailing CRLF).  The expected AST is plain JSON (lists / dicts / str / int / None / bool) written down from
the RFC text, independently of asimap.parse; the oracle (vf/props/c08.py) canonicalises the parsed object
into the same shape.

"Risky" features are grammar corners for which a deviation is already suspected (or was found).  At most one
risky feature is put into a sentence so that a failing sentence is attributed to one cause, and a risky
feature whose name is the id of an *open* known finding is not generated at all (counted in `excluded`).
"""
from __future__ import annotations

import calendar
import re

from hypothesis import strategies as st

# ----------------------------------------------------------------- alphabets

# ATOM-CHAR of RFC 3501 = CHAR except atom-specials "(" ")" "{" SP CTL "%" "*" DQUOTE "\" "]".
ATOM_SAFE = "abcdefghijklmnopqrstuvwxyzABCDEFGHIJKLMNOPQRSTUVWXYZ0123456789!#$&'+,-./:;<=>?@[^_`|~"
ATOM_SET = frozenset(ATOM_SAFE + "}")  # "}" is an ATOM-CHAR (risky class 'brace-atom')
ASTRING_ATOM_SET = frozenset(ATOM_SAFE + "}]")  # ASTRING-CHAR = ATOM-CHAR / resp-specials
TAG_CHARS = "abcdefghijklmnopqrstuvwxyzABCDEFGHIJKLMNOPQRSTUVWXYZ0123456789.-_:/!#$&'<=>?@[]^`|~,;"
LIST_EXTRA = "%*"

WORDS = [
    "a", "b", "x", "foo", "Bar", "BAZ", "mail", "Sent", "Drafts", "tok", "X-VF-Tag", "Subject", "from", "To", "0", "1",
    "42", "nil", "NIL", "all", "inbox", "INBOX", "Inbox", "body", "flags", "utf-8", "hello world", "a b", "m1", "kw1",
    "$Forwarded", "Junk", "e.g.", "caf\xe9", "\xff\xfe", "na\xefve", 'say "hi"', "back\\slash", 'a"b', '"', "\\", 'x\\"y',
]
SPECIAL_PIECES = [
    '"', "\\", '\\"', "\\\\", " ", "  ", "(", ")", "()", "{", "}", "{3}", "{3}\r\n", "{3+}\r\n", "\r", "\n", "\r\n", "%", "*",
    "[", "]", "<", ">", "\t", "\x01", "\x7f", "\x80", "\xff", "'", "+", "-", "=", "~",
]
ESCAPY = ['say "hi"', "back\\slash", 'a"b', '"', "\\", 'x\\"y', '""', "\\\\", 'C:\\dir\\f', '\\"', 'end\\', '"q" and \\', "tab\there"]
MONTHS = ["Jan", "Feb", "Mar", "Apr", "May", "Jun", "Jul", "Aug", "Sep", "Oct", "Nov", "Dec"]

NOARG = ["CAPABILITY", "NOOP", "LOGOUT", "NAMESPACE", "IDLE", "CHECK", "CLOSE", "UNSELECT", "EXPUNGE"]
MBOX1 = ["SELECT", "EXAMINE", "CREATE", "DELETE", "SUBSCRIBE", "UNSUBSCRIBE"]
UIDABLE = ["COPY", "FETCH", "MOVE", "SEARCH", "STORE", "EXPUNGE"]
ALL_COMMANDS = NOARG + MBOX1 + [
    "RENAME", "LIST", "LSUB", "STATUS", "ID", "APPEND", "SEARCH", "FETCH", "STORE", "COPY", "MOVE", "LOGIN", "AUTHENTICATE",
]
STATUS_ATTS = ["MESSAGES", "RECENT", "UIDNEXT", "UIDVALIDITY", "UNSEEN"]
SYSTEM_FLAGS = ["\\Answered", "\\Flagged", "\\Deleted", "\\Seen", "\\Draft"]
KEYWORDS = ["kw1", "$Forwarded", "Junk", "NonJunk", "$MDNSent", "a", "Work", "todo-1", "x.y", "\\Custom", "\\X1"]
FLAG_SEARCH_KEYS = {
    "ANSWERED": "\\answered", "DELETED": "\\deleted", "FLAGGED": "\\flagged", "SEEN": "\\seen", "DRAFT": "\\draft",
    "RECENT": "\\recent",
}
UNFLAG_SEARCH_KEYS = {
    "UNANSWERED": "\\answered", "UNDELETED": "\\deleted", "UNFLAGGED": "\\flagged", "UNSEEN": "\\seen", "UNDRAFT": "\\draft",
}
DATE_KEYS = ["BEFORE", "ON", "SINCE", "SENTBEFORE", "SENTON", "SENTSINCE"]
STRING_KEYS = ["BCC", "CC", "FROM", "SUBJECT", "TO"]
SIMPLE_FETCH = ["ENVELOPE", "FLAGS", "INTERNALDATE", "RFC822.SIZE", "UID", "BODYSTRUCTURE", "BODY", "RFC822", "RFC822.HEADER", "RFC822.TEXT"]
LIST_SELECT = ["SUBSCRIBED", "REMOTE", "RECURSIVEMATCH", "SPECIAL-USE"]
LIST_RETURN = ["SUBSCRIBED", "CHILDREN", "SPECIAL-USE", "STATUS"]
NUMS = [1, 2, 3, 4, 5, 9, 10, 12, 99, 100, 1000, 65535, 65536, 2147483647, 2147483648, 4294967295]

_INT = {}


def _ints(a, b):
    k = (a, b)
    s = _INT.get(k)
    if s is None:
        s = _INT[k] = st.integers(a, b)
    return s


def quote(s: str) -> str:
    """RFC 3501 quoted string for s (caller guarantees s has no CR/LF and is 7-bit)."""
    return '"' + s.replace("\\", "\\\\").replace('"', '\\"') + '"'


def quotable(s: str) -> bool:
    return all(0 < ord(c) < 0x80 and c not in "\r\n" for c in s)


def literalable(s: str) -> bool:
    return all(0 < ord(c) < 0x100 for c in s)


def days_in_month(y, m):
    return calendar.monthrange(y, m)[1] if y >= 1 else 31


class G:
    """Grammar walker on top of a Hypothesis `draw`."""

    def __init__(self, draw, open_ids=frozenset(), allow_risky=True):
        self.draw = draw
        self.labels = set()
        self.cause = None
        self.excluded = set()
        self.open_ids = open_ids
        self.allow_risky = allow_risky

    # ------------------------------------------------------------ primitives
    def n(self, a, b):
        return self.draw(_ints(a, b))

    def pick(self, seq):
        return seq[self.draw(_ints(0, len(seq) - 1))]

    def chance(self, k, outof):
        return self.draw(_ints(1, outof)) <= k

    def risky(self, name, k=1, outof=8):
        """Decide whether to use risky feature `name` here (at most one per sentence)."""
        if not self.chance(k, outof):
            return False
        if name in self.open_ids:
            self.excluded.add(name)
            return False
        if not self.allow_risky or (self.cause is not None and self.cause != name):
            return False
        self.cause = name
        self.labels.add("risky:" + name)
        return True

    def kw(self, word):
        """A case-insensitive keyword in some case."""
        m = self.n(0, 5)
        if m <= 2:
            return word
        if m == 3:
            return word.lower()
        if m == 4:
            return word.capitalize()
        bits = self.n(0, (1 << len(word)) - 1)
        return "".join(c.lower() if bits >> i & 1 else c.upper() for i, c in enumerate(word))

    # --------------------------------------------------------------- strings
    def value(self, rich=True):
        """A string value (latin-1, no NUL)."""
        m = self.n(0, 9)
        if m <= 3 or not rich:
            return self.pick(WORDS)
        if m == 4:
            return self.pick(ESCAPY)
        if m == 5:
            return ""
        parts = []
        for _ in range(self.n(1, 4)):
            k = self.n(0, 5)
            if k <= 2:
                parts.append(self.pick(WORDS))
            elif k <= 4:
                parts.append(self.pick(SPECIAL_PIECES))
            else:
                parts.append(chr(self.n(1, 255)))
        return "".join(parts)

    def atom_value(self, extra=""):
        m = self.n(0, 3)
        if m <= 1:
            w = self.pick(WORDS)
            if w and all(c in ATOM_SAFE for c in w):
                return w
        alpha = ATOM_SAFE + extra
        return "".join(alpha[self.n(0, len(alpha) - 1)] for _ in range(self.n(1, 6)))

    def encode_string(self, s, force=None):
        """`string` = quoted / literal."""
        forms = []
        if quotable(s):
            forms.append("quoted")
        if literalable(s):
            forms += ["literal", "literal+"]
        if force in forms:
            form = force
        else:
            form = self.pick(forms + (["quoted"] * 2 if "quoted" in forms else []))
        if form == "quoted":
            if '"' in s or "\\" in s:
                if not self.risky("quoted-escape", 8, 8):
                    # cannot use the escape here: fall back to a literal
                    self.labels.add("lit")
                    return "{%d}\r\n%s" % (len(s), s)
                self.labels.add("qesc")
            self.labels.add("quoted")
            return quote(s)
        self.labels.add("lit")
        if form == "literal+":
            self.labels.add("lit+")
            return "{%d+}\r\n%s" % (len(s), s)
        return "{%d}\r\n%s" % (len(s), s)

    def encode_astring(self, s, atom_set=ASTRING_ATOM_SET):
        """`astring` = 1*ASTRING-CHAR / string."""
        if s and all(c in atom_set for c in s) and self.chance(3, 5):
            if "}" in s:
                if not self.risky("brace-atom", 8, 8):
                    return self.encode_string(s)
            self.labels.add("atom")
            return s
        return self.encode_string(s)

    def astring(self, rich=True):
        """(text, value)"""
        if self.chance(1, 3):
            extra = "]"
            if self.risky("brace-atom", 1, 40):
                extra += "}}}"
            v = self.atom_value(extra)
        else:
            v = self.value(rich)
        return self.encode_astring(v), v

    # ------------------------------------------------------------- mailboxes
    def mailbox_value(self):
        m = self.n(0, 11)
        if m <= 1:
            self.labels.add("mbox:inbox")
            return self.kw("INBOX")
        if m == 2 and self.risky("inbox-prefix", 8, 8):
            self.labels.add("mbox:inbox-prefix")
            suffix = self.pick(["foo", "es", "2", "/sub", "/a/b", ".old", "-x", "X", "INBOX", " ", "_", "/"])
            return self.kw("INBOX") + suffix
        if m <= 7:
            comps = [self.pick(["mb", "emp", "par", "child", "Sent", "Drafts", "a", "b", "x y", "In", "inbo", "nbox", "123", "A.B", "caf\xe9"]) for _ in range(self.n(1, 3))]
            return "/".join(comps)
        if m == 8:
            self.labels.add("mbox:pathy")
            return self.pick(["a/", "a//b", "./a", "a/./b", "a/../b", "../x", "/abs", "//abs", ".", "..", "a/b/", "inbox/", "/", "~", "~/x"])
        return self.value()

    def mailbox(self):
        """`mailbox` = "INBOX" / astring.  Expected value: "inbox" for every case variant of INBOX in any
        encoding (RFC 3501 section 9 note on `mailbox`), otherwise the denoted string itself."""
        v = self.mailbox_value()
        is_inbox = v.upper() == "INBOX"
        if is_inbox:
            if self.chance(1, 3) and self.risky("inbox-encoded", 8, 8):
                self.labels.add("mbox:inbox-encoded")
                return self.encode_string(v), "inbox"
            self.labels.add("atom")
            return v, "inbox"
        text = self.encode_astring(v)
        if text == v and v.lower().startswith("inbox"):
            # atom spelling of a name that merely begins with "inbox"
            if self.cause != "inbox-prefix" and not self.risky("inbox-prefix", 8, 8):
                text = self.encode_string(v)
        return text, v

    def list_mailbox(self):
        """list-mailbox = 1*list-char / string"""
        m = self.n(0, 7)
        if m <= 3:
            v = self.pick(["*", "%", "INBOX", "inbox", "a/%", "*/*", "%/%", "Sent*", "par/child", "x%y", "mb", "~*", "a]b", "in%"])
            return v, v
        if m == 4:
            v = self.atom_value(LIST_EXTRA + "]")
            return v, v
        v = self.value()
        return self.encode_string(v), v

    # ----------------------------------------------------------------- sets
    def seqnum(self):
        m = self.n(0, 5)
        if m == 0:
            return "*"
        if m == 1:
            return self.n(1, 4294967295)
        return self.pick(NUMS)

    def seqset(self):
        items, texts = [], []
        for _ in range(1 if self.chance(3, 5) else self.n(2, 4)):
            a = self.seqnum()
            if self.chance(1, 2):
                items.append(a)
                texts.append(str(a))
            else:
                b = self.seqnum()
                items.append([a, b])
                texts.append(f"{a}:{b}")
        if len(items) > 1:
            self.labels.add("set:multi")
        return ",".join(texts), items

    # ---------------------------------------------------------------- flags
    def flag(self):
        m = self.n(0, 3)
        if m <= 1:
            f = self.pick(SYSTEM_FLAGS)
            return ("\\" + self.kw(f[1:]), f) if self.chance(1, 3) else (f, f)
        if m == 2:
            f = self.pick(KEYWORDS)
            return f, f
        f = self.atom_value()
        if self.chance(1, 6):
            f = "\\" + f
        return f, f

    def flag_paren_list(self, minimum=0):
        fl = [self.flag() for _ in range(self.n(minimum, 4))]
        return "(" + " ".join(t for t, _ in fl) + ")", [v for _, v in fl]

    # ---------------------------------------------------------------- dates
    def date_parts(self):
        m = self.n(0, 9)
        if m <= 6:
            y = self.n(1970, 2037)
        elif m <= 8:
            y = self.n(1000, 9999)
        else:
            y = self.pick([1000, 1582, 1899, 1900, 1969, 1970, 2000, 2038, 2100, 9999])
        mo = self.n(1, 12)
        dim = days_in_month(y, mo)
        d = self.pick([1, dim, self.n(1, dim), self.n(1, dim)])
        return y, mo, d

    def month(self, mo):
        return self.kw(MONTHS[mo - 1]) if self.chance(1, 3) else MONTHS[mo - 1]

    def date(self):
        """date = date-text / DQUOTE date-text DQUOTE ; date-day = 1*2DIGIT"""
        y, mo, d = self.date_parts()
        dd = f"{d:02d}" if self.chance(1, 2) else str(d)
        t = f"{dd}-{self.month(mo)}-{y:04d}"
        if self.chance(1, 3):
            t = '"' + t + '"'
        return t, [y, mo, d]

    def date_time(self):
        """date-time = DQUOTE date-day-fixed "-" date-month "-" date-year SP time SP zone DQUOTE.
        Returns (text, epoch seconds UTC, offset seconds)."""
        y, mo, d = self.date_parts()
        if y < 1000:
            y = 1000
        hh, mi, ss = self.n(0, 23), self.n(0, 59), self.n(0, 59)
        if self.chance(1, 4):
            hh, mi, ss = self.pick([(0, 0, 0), (23, 59, 59), (12, 0, 0)])
        zh, zm = self.pick([(0, 0), (0, 0), (1, 0), (5, 30), (8, 0), (12, 0), (14, 0), (9, 45), (0, 1), (23, 59)])
        sign = self.pick(["+", "-"])
        off = (zh * 3600 + zm * 60) * (1 if sign == "+" else -1)
        dd = f"{d:02d}" if d >= 10 or self.chance(1, 2) else f" {d}"
        t = f'"{dd}-{self.month(mo)}-{y:04d} {hh:02d}:{mi:02d}:{ss:02d} {sign}{zh:02d}{zm:02d}"'
        epoch = calendar.timegm((y, mo, d, hh, mi, ss)) - off
        return t, epoch, off

    # --------------------------------------------------------------- search
    def search_key(self, depth):
        """Returns (text, raw tree).  Tree nodes: ["all"] ["keyword", k] ["not", t] ["or", a, b] ["and", [..]]
        ["header", name, s] ["body", s] ["text", s] [datekey, [y,m,d]] ["larger", n] ["smaller", n]
        ["seq", set] ["uid", set]."""
        m = self.n(0, 19) if depth > 0 else self.n(0, 14)
        if m <= 1:
            k = self.pick(sorted(FLAG_SEARCH_KEYS))
            return self.kw(k), ["keyword", FLAG_SEARCH_KEYS[k]]
        if m == 2:
            k = self.pick(sorted(UNFLAG_SEARCH_KEYS))
            if k == "UNDRAFT" and not self.risky("search-undraft", 8, 8):
                k = "UNSEEN"
            return self.kw(k), ["not", ["keyword", UNFLAG_SEARCH_KEYS[k]]]
        if m == 3:
            k = self.pick(["ALL", "NEW", "OLD"])
            if k == "ALL":
                return self.kw(k), ["all"]
            if k == "NEW":
                return self.kw(k), ["and", [["keyword", "\\recent"], ["not", ["keyword", "\\seen"]]]]
            return self.kw(k), ["not", ["keyword", "\\recent"]]
        if m == 4:
            k = self.pick(STRING_KEYS)
            t, v = self.astring()
            return f"{self.kw(k)} {t}", ["header", k.lower(), v]
        if m == 5:
            k = self.pick(["BODY", "TEXT"])
            t, v = self.astring()
            return f"{self.kw(k)} {t}", [k.lower(), v]
        if m == 6:
            t1, v1 = self.astring(rich=False) if self.chance(2, 3) else self.astring()
            t2, v2 = self.astring()
            return f"{self.kw('HEADER')} {t1} {t2}", ["header", v1, v2]
        if m == 7:
            k = self.pick(DATE_KEYS)
            t, v = self.date()
            return f"{self.kw(k)} {t}", [k.lower(), v]
        if m == 8:
            k = self.pick(["LARGER", "SMALLER"])
            n = self.pick([0, 1, 7, 1024, 4294967295, self.n(0, 4294967295)])
            t = str(n) if self.chance(4, 5) else "0" * self.n(1, 3) + str(n)
            return f"{self.kw(k)} {t}", [k.lower(), n]
        if m == 9:
            k = self.pick(["KEYWORD", "UNKEYWORD"])
            f = self.pick([x for x in KEYWORDS if not x.startswith("\\")]) if self.chance(2, 3) else self.atom_value()
            node = ["keyword", f]
            return f"{self.kw(k)} {f}", (node if k == "KEYWORD" else ["not", node])
        if m <= 11:
            t, v = self.seqset()
            return t, ["seq", v]
        if m == 12:
            t, v = self.seqset()
            return f"{self.kw('UID')} {t}", ["uid", v]
        if m <= 14 and depth == 0:
            return self.kw("ALL"), ["all"]
        self.labels.add("search:nested")
        if m <= 15:
            t, v = self.search_key(depth - 1)
            return f"{self.kw('NOT')} {t}", ["not", v]
        if m <= 17:
            t1, v1 = self.search_key(depth - 1)
            t2, v2 = self.search_key(depth - 1)
            return f"{self.kw('OR')} {t1} {t2}", ["or", v1, v2]
        kids = [self.search_key(depth - 1) for _ in range(self.n(1, 3))]
        return "(" + " ".join(t for t, _ in kids) + ")", ["and", [v for _, v in kids]]

    # ---------------------------------------------------------------- fetch
    def section(self):
        """section = "[" [section-spec] "]"  -> (text, [nums..., text-part?])"""
        parts, texts = [], []
        if self.chance(1, 2):
            for _ in range(self.n(1, 3)):
                p = self.pick([1, 1, 2, 3, 10, 99])
                parts.append(p)
                texts.append(str(p))
        m = self.n(0, 6)
        if m == 0 and not parts:
            return "[]", []
        if m <= 1:
            if not parts:
                return "[]", []
            return "[" + ".".join(texts) + "]", parts
        self.labels.add("fetch:section-text")
        if m == 2:
            texts.append(self.kw("HEADER"))
            parts.append("header")
        elif m == 3:
            texts.append(self.kw("TEXT"))
            parts.append("text")
        elif m == 4 and parts:
            texts.append(self.kw("MIME"))
            parts.append("mime")
        else:
            name = self.pick(["HEADER.FIELDS", "HEADER.FIELDS.NOT"])
            hdrs = [self.astring(rich=self.chance(1, 4)) for _ in range(self.n(1, 3))]
            texts.append(self.kw(name) + " (" + " ".join(t for t, _ in hdrs) + ")")
            parts.append([name.lower(), [v for _, v in hdrs]])
        return "[" + ".".join(texts) + "]", parts

    def fetch_att(self):
        m = self.n(0, 9)
        if m <= 4:
            k = self.pick(SIMPLE_FETCH)
            exp = {
                "BODY": {"a": "bodystructure", "ext": False},
                "BODYSTRUCTURE": {"a": "bodystructure", "ext": True},
                "RFC822": {"a": "body", "section": [], "partial": None, "peek": False},
                "RFC822.HEADER": {"a": "body", "section": ["header"], "partial": None, "peek": True},
                "RFC822.TEXT": {"a": "body", "section": ["text"], "partial": None, "peek": False},
            }.get(k, {"a": k.lower()})
            return self.kw(k), exp
        self.labels.add("fetch:section")
        peek = self.chance(1, 2)
        st_, sv = self.section()
        t = self.kw("BODY.PEEK" if peek else "BODY") + st_
        partial = None
        if self.chance(1, 3):
            self.labels.add("fetch:partial")
            a = self.pick([0, 0, 1, 5, 1024, 4294967295, self.n(0, 4294967295)])
            b = self.pick([1, 2, 5, 1024, 4294967295, self.n(1, 4294967295)])
            partial = [a, b]
            t += f"<{a}.{b}>"
        return t, {"a": "body", "section": sv, "partial": partial, "peek": peek}

    def fetch_atts(self):
        m = self.n(0, 9)
        if m == 0:
            k = self.pick(["ALL", "FAST", "FULL"])
            self.labels.add("fetch:macro")
            base = [{"a": "flags"}, {"a": "internaldate"}, {"a": "rfc822.size"}]
            if k != "FAST":
                base.append({"a": "envelope"})
            if k == "FULL":
                base.append({"a": "bodystructure", "ext": False})
            return self.kw(k), base
        if m <= 4:
            t, v = self.fetch_att()
            return t, [v]
        atts = [self.fetch_att() for _ in range(self.n(1, 4))]
        return "(" + " ".join(t for t, _ in atts) + ")", [v for _, v in atts]

    # ------------------------------------------------------------- commands
    def tag(self):
        if self.chance(3, 4):
            return self.pick(["a", "A001", "a1", "1", "t.9", "x-1", "TAG", "z]", "[", "7:8"])
        return "".join(TAG_CHARS[self.n(0, len(TAG_CHARS) - 1)] for _ in range(self.n(1, 8)))

    def status_list(self):
        atts = [self.pick(STATUS_ATTS) for _ in range(self.n(1, 5))]
        return "(" + " ".join(self.kw(a) for a in atts) + ")", [a.lower() for a in atts]

    def message_literal(self):
        m = self.n(0, 5)
        if m <= 2:
            subj = self.pick(["s", "hello (world)", "re: {3}", 'quote " here'])
            body = self.pick(["x\r\n", "", "line1\r\nline2\r\n", "a) (b \\ \" {5}\r\n", "\xe9\xff\r\n"])
            msg = f"From: a@b.c\r\nSubject: {subj}\r\n\r\n{body}"
        elif m == 3:
            msg = self.pick(["", "x", "\r\n", "junk without headers", ")", "a NOOP\r\n", "{1}\r\nx"])
        else:
            msg = self.value() + self.pick(["", "\r\n", "\r\n\r\nbody\r\n"])
        if not literalable(msg):
            msg = msg.replace("\x00", "?")
        self.labels.add("lit")
        plus = self.chance(1, 3)
        if plus:
            self.labels.add("lit+")
        return "{%d%s}\r\n%s" % (len(msg), "+" if plus else "", msg), msg

    def command(self, name=None):
        """Returns (text after the tag, ast dict without tag)."""
        uid = False
        if name is None:
            fam = self.n(0, 19)
            if fam <= 3:
                name = "FETCH"
            elif fam <= 6:
                name = "SEARCH"
            elif fam <= 8:
                name = "STORE"
            elif fam == 9:
                name = self.pick(["COPY", "MOVE"])
            elif fam <= 11:
                name = self.pick(MBOX1)
            elif fam == 12:
                name = self.pick(["LIST", "LIST", "LSUB"])
            elif fam == 13:
                name = self.pick(["APPEND", "APPEND", "RENAME"])
            elif fam == 14:
                name = self.pick(["STATUS", "ID"])
            elif fam == 15:
                name = self.pick(["LOGIN", "LOGIN", "AUTHENTICATE"])
            elif fam == 16:
                name = self.pick(NOARG)
            else:
                name = self.pick(ALL_COMMANDS)
        ast = {"command": name.lower()}
        pre = ""
        if name in UIDABLE and name != "EXPUNGE" and self.chance(1, 3):
            uid = True
        if name == "EXPUNGE" and self.chance(1, 2):
            uid = True
        if uid:
            pre = self.kw("UID") + " "
            self.labels.add("uid")
        ast["uid"] = uid
        self.labels.add("cmd:" + name)
        head = pre + self.kw(name)

        if name in NOARG and not (name == "EXPUNGE" and uid):
            return head, ast
        if name == "EXPUNGE":
            t, v = self.seqset()
            ast["msg_set"] = v
            return f"{head} {t}", ast
        if name in MBOX1:
            t, v = self.mailbox()
            ast["mailbox_name"] = v
            return f"{head} {t}", ast
        if name == "RENAME":
            t1, v1 = self.mailbox()
            t2, v2 = self.mailbox()
            ast["mailbox_src_name"], ast["mailbox_dst_name"] = v1, v2
            return f"{head} {t1} {t2}", ast
        if name in ("COPY", "MOVE"):
            ts, vs = self.seqset()
            t, v = self.mailbox()
            ast["msg_set"], ast["mailbox_name"] = vs, v
            return f"{head} {ts} {t}", ast
        if name == "STATUS":
            t, v = self.mailbox()
            tl, vl = self.status_list()
            ast["mailbox_name"], ast["status_att_list"] = v, vl
            return f"{head} {t} {tl}", ast
        if name == "LOGIN":
            t1, v1 = self.astring()
            t2, v2 = self.astring()
            ast["user_name"], ast["password"] = v1, v2
            return f"{head} {t1} {t2}", ast
        if name == "AUTHENTICATE":
            v = self.pick(["PLAIN", "LOGIN", "CRAM-MD5", "XOAUTH2", "plain", "GSSAPI", "X"])
            ast["auth_mechanism_name"] = v
            return f"{head} {v}", ast
        if name == "ID":
            if self.chance(1, 4):
                ast["id_dict"] = {}
                return f"{head} {self.kw('NIL')}", ast
            d, texts = {}, []
            for _ in range(self.n(0, 3)):
                k = self.pick(["name", "version", "os", "vendor", "support-url", "x y", 'q"k', "K", "date", "cmd (x)"])
                if k in d:
                    continue
                if self.chance(1, 4):
                    v, tv = None, self.kw("NIL")
                else:
                    v = self.value()
                    tv = self.encode_string(v)
                d[k] = v
                texts.append(self.encode_string(k) + " " + tv)
            ast["id_dict"] = d
            return f"{head} ({' '.join(texts)})", ast
        if name == "APPEND":
            t, v = self.mailbox()
            ast["mailbox_name"] = v
            out = f"{head} {t}"
            ast["flag_list"] = []
            ast["date_time"] = None
            if self.chance(1, 2):
                tf, vf = self.flag_paren_list()
                ast["flag_list"] = vf
                out += " " + tf
            if self.chance(1, 2):
                td, epoch, off = self.date_time()
                ast["date_time"] = [epoch, off]
                out += " " + td
                self.labels.add("append:date")
            tm, vm = self.message_literal()
            ast["message"] = vm
            return f"{out} {tm}", ast
        if name == "SEARCH":
            out = head
            ast["charset"] = None
            if self.chance(1, 5):
                cs = self.pick(["UTF-8", "utf-8", "US-ASCII", "us-ascii", "ISO-8859-1", "x-unknown"])
                ast["charset"] = cs.lower()
                out += f" {self.kw('CHARSET')} " + (cs if self.chance(2, 3) else self.encode_string(cs))
            keys = [self.search_key(2) for _ in range(1 if self.chance(1, 2) else self.n(2, 4))]
            ast["search_key"] = ["and", [v for _, v in keys]]
            return out + " " + " ".join(t for t, _ in keys), ast
        if name == "FETCH":
            ts, vs = self.seqset()
            ta, va = self.fetch_atts()
            ast["msg_set"], ast["fetch_atts"] = vs, va
            return f"{head} {ts} {ta}", ast
        if name == "STORE":
            ts, vs = self.seqset()
            sign = self.pick(["", "+", "-"])
            silent = self.chance(1, 3)
            ast["msg_set"] = vs
            ast["store_action"] = {"": "REPLACE_FLAGS", "+": "ADD_FLAGS", "-": "REMOVE_FLAGS"}[sign]
            ast["silent"] = silent
            item = sign + self.kw("FLAGS") + (self.kw(".SILENT") if silent else "")
            m = self.n(0, 5)
            if m <= 3:
                tf, vf = self.flag_paren_list()
            elif m == 4 or not self.risky("store-bare-flags", 8, 8):
                tf, vf = self.flag()
                vf = [vf]
            else:
                fl = [self.flag() for _ in range(self.n(2, 3))]
                tf, vf = " ".join(t for t, _ in fl), [v for _, v in fl]
                self.labels.add("store:bare-multi")
            ast["flag_list"] = vf
            return f"{head} {ts} {item} {tf}", ast
        if name in ("LIST", "LSUB"):
            out = head
            ext = name == "LIST" and self.chance(1, 2)
            ast.update({"list_select_opts": [], "list_return_opts": [], "list_status_atts": [], "list_patterns": None, "list_mailbox": None})
            if ext and self.chance(1, 2):
                self.labels.add("list:select")
                opts = []
                for _ in range(self.n(0, 3)):
                    o = self.pick(LIST_SELECT)
                    if o not in opts:
                        opts.append(o)
                if "RECURSIVEMATCH" in opts and "SUBSCRIBED" not in opts and "SPECIAL-USE" not in opts:
                    opts.append("SUBSCRIBED")
                ast["list_select_opts"] = sorted(o.lower() for o in opts)
                out += " (" + " ".join(self.kw(o) for o in opts) + ")"
            if self.chance(1, 2):
                tr, vr = '""', ""
            else:
                tr, vr = self.mailbox()
            ast["mailbox_name"] = vr
            out += " " + tr
            if ext and self.chance(1, 3):
                self.labels.add("list:patterns")
                pats = [self.list_mailbox() for _ in range(self.n(1, 3))]
                ast["list_patterns"] = [v for _, v in pats]
                out += " (" + " ".join(t for t, _ in pats) + ")"
            else:
                tp, vp = self.list_mailbox()
                ast["list_mailbox"] = vp
                out += " " + tp
            if ext and self.chance(1, 2):
                self.labels.add("list:return")
                opts, texts = [], []
                for _ in range(self.n(0, 3)):
                    o = self.pick(LIST_RETURN)
                    if o in opts:
                        continue
                    opts.append(o)
                    if o == "STATUS":
                        tl, vl = self.status_list()
                        ast["list_status_atts"] = vl
                        texts.append(self.kw(o) + " " + tl)
                    else:
                        texts.append(self.kw(o))
                ast["list_return_opts"] = sorted(o.lower() for o in opts)
                out += f" {self.kw('RETURN')} (" + " ".join(texts) + ")"
            return out, ast
        raise AssertionError(name)

    def sentence(self):
        tag = self.tag()
        body, ast = self.command()
        ast["tag"] = tag
        return f"{tag} {body}", ast

    # -------------------------------------------- invalid by construction
    def invalid(self):
        """(text, class): sentences that RFC 3501 (+extensions) does not generate, whatever follows."""
        tag = self.tag()
        m = self.n(0, 13)
        if m == 0:
            name = self.pick([c for c in ALL_COMMANDS if c not in UIDABLE])
            sub = G(self.draw, allow_risky=False)
            body, _ = sub.command(name)
            if body.upper().startswith("UID "):
                body = body[4:]
            return f"{tag} {self.kw('UID')} {body}", "uid-noncmd"
        if m == 1:
            k = self.pick(DATE_KEYS)
            d = self.pick(["31-Feb-2020", "30-Feb-2024", "29-Feb-2023", "29-Feb-1900", "0-Jan-2020", "00-Jan-2020", "32-Mar-2020", "31-Apr-2021", "31-Jun-2021", "31-Sep-2021", "31-Nov-2021", "99-Dec-1999"])
            if self.chance(1, 3):
                d = '"' + d + '"'
            return f"{tag} {self.kw('SEARCH')} {k} {d}", "impossible-date"
        if m == 2:
            d = self.pick([
                "31-Feb-2020 10:00:00 +0000", "29-Feb-2023 00:00:00 +0000", "00-Jan-2020 10:00:00 +0000", " 0-Jan-2020 10:00:00 +0000",
                "32-Jan-2020 10:00:00 +0000", "01-Jan-2020 24:00:00 +0000", "01-Jan-2020 25:00:00 +0000", "01-Jan-2020 10:60:00 +0000",
                "01-Jan-2020 99:99:99 +0000", "31-Apr-2020 10:00:00 -0800",
            ])
            return f'{tag} {self.kw("APPEND")} mb "{d}" {{3}}\r\nabc', "impossible-datetime"
        if m == 3:
            have = self.n(0, 5)
            claim = have + self.pick([1, 2, 10, 1000, 4294967295])
            data = "x" * have
            head = self.pick(["SELECT ", "LOGIN u ", "APPEND mb ", "SEARCH TEXT ", "CREATE ", "COPY 1 ", 'LIST "" '])
            return f"{tag} {head}{{{claim}{self.pick(['', '+'])}}}\r\n{data}", "literal-short"
        if m == 4:
            head = self.pick(["SELECT ", "LOGIN u ", "SEARCH SUBJECT ", "CREATE ", "COPY 1 ", 'LIST "" ', "STATUS ", "RENAME a "])
            return f'{tag} {head}"{self.pick(["abc", "", "a b", "a\\"])}', "unterminated-quote"
        if m == 5:
            name = self.pick(["FOO", "NOOPX", "XSELECT", "SELEC", "FETCHH", "UIDFETCH", "L0GIN", "X", "DONE", "EXPUNGED", "STAT", "RETR"])
            rest = self.pick(["", " 1", " inbox", " 1 FLAGS"])
            return f"{tag} {name}{rest}", "unknown-command"
        if m == 6:
            body = self.pick([
                "SEARCH FOO", "SEARCH SEENX", "SEARCH NOT FOO", "SEARCH OR SEEN FOO", "SEARCH (FOO)", "FETCH 1 FOO", "FETCH 1 (FLAGS FOO)",
                "FETCH 1 BODY[FOO]", "FETCH 1 BODY[1.FOO]", "FETCH 1 BODY[MIME]", "STATUS mb (FOO)", "STATUS mb (MESSAGES FOO)",
                'LIST (FOO) "" *', 'LIST "" * RETURN (FOO)', 'LIST (SUBSCRIBED FOO) "" *', 'LIST "" * RETURN (STATUS (FOO))', "STORE 1 XFLAGS (a)",
                "UID FOO 1", "FETCH 1 RFC822.FOO", "FETCH 1 BODY.FOO[]",
            ])
            return f"{tag} {body}", "unknown-keyword"
        if m == 7:
            name = self.pick(MBOX1 + ["RENAME", "LIST", "LSUB", "STATUS", "ID", "APPEND", "SEARCH", "FETCH", "STORE", "COPY", "MOVE", "LOGIN", "AUTHENTICATE", "UID", "UID FETCH", "UID STORE", "UID SEARCH", "UID COPY", "UID MOVE", "UID EXPUNGE"])
            return f"{tag} {self.kw(name)}{self.pick(['', ' '])}", "missing-args"
        if m == 8:
            return self.pick(["", " ", " NOOP", tag, tag + " ", "+ NOOP", "* NOOP", "(a) NOOP", '"a" NOOP', "{1}\r\na NOOP", "\\ NOOP", "a\x00b NOOP", "%a NOOP"]), "bad-tag"
        if m == 9:
            body = self.pick(['LIST (RECURSIVEMATCH) "" *', 'LIST (RECURSIVEMATCH REMOTE) "" *', 'LIST (REMOTE RECURSIVEMATCH) "" %'])
            return f"{tag} {body}", "recursivematch-alone"
        if m == 10:
            bad = self.pick(["1:2:3", "1,,2", ",1", "1:", ":1", "a", "1,a", "-1", "1:-2", "**", "1:*:2", ","])
            body = self.pick(["FETCH {} FLAGS", "STORE {} +FLAGS (\\Seen)", "COPY {} mb", "UID FETCH {} FLAGS", "UID EXPUNGE {}", "MOVE {} mb", "SEARCH UID {}"]).format(bad)
            return f"{tag} {body}", "bad-seqset"
        if m == 11:
            body = self.pick([
                "FETCH 1 (FLAGS", "FETCH 1 (", "STORE 1 FLAGS (\\Seen", "SEARCH (ALL", "SEARCH (", "STATUS mb (MESSAGES", "STATUS mb (", "FETCH 1 BODY[",
                "FETCH 1 BODY[HEADER.FIELDS (a", "FETCH 1 BODY[1", 'ID ("a" "b"', 'LIST (SUBSCRIBED "" *', 'LIST "" * RETURN (CHILDREN', "APPEND mb (\\Seen {1}\r\nx",
                "FETCH 1 BODY[]<1", "FETCH 1 BODY[]<1.2",
            ])
            return f"{tag} {body}", "unbalanced"
        if m == 12:
            body = self.pick([
                "STORE 1 FLAGS", "STORE 1 (\\Seen)", "STORE 1 +-FLAGS (a)", "FETCH 1", "COPY 1", "RENAME a", "LOGIN u", "STATUS mb", 'LIST ""', "APPEND mb",
                "APPEND mb (\\Seen)", 'APPEND mb "01-Jan-2020 10:00:00 +0000"', "SEARCH OR SEEN", "SEARCH NOT", "SEARCH HEADER a", "SEARCH LARGER", "SEARCH BEFORE",
                "SEARCH UID", "SEARCH KEYWORD", "SEARCH CHARSET utf-8", "SEARCH SUBJECT", "FETCH 1 BODY[HEADER.FIELDS]", "FETCH 1 BODY[HEADER.FIELDS ()]",
                'ID ("a")', "FETCH 1 BODY.PEEK", 'LIST "" * RETURN', 'LIST "" * RETURN (STATUS)', 'LIST "" * RETURN (STATUS ())',
            ])
            return f"{tag} {body}", "missing-args"
        body = self.pick([
            "SEARCH LARGER x", "SEARCH SMALLER -1", "SEARCH BEFORE 1-Foo-2020", "SEARCH BEFORE 1-Jan-20", "SEARCH ON Jan-1-2020", "SEARCH SINCE 2020-01-01",
            "FETCH 1 BODY[]<a.b>", "FETCH 1 BODY[]<.5>", "FETCH 1 BODY[]<5>", "FETCH 1 BODY[a]", "SEARCH KEYWORD (a)", 'SEARCH KEYWORD "a"',
            'APPEND mb "1-Jan-2020 10:00:00 +0000" {1}\r\nx', 'APPEND mb "01-Jan-2020 10:00 +0000" {1}\r\nx', 'APPEND mb "01-Jan-2020 10:00:00" {1}\r\nx',
            "APPEND mb abc", "STATUS mb MESSAGES", "ID x", "ID (a b)", "STORE 1 FLAGS.QUIET (a)",
        ])
        return f"{tag} {body}", "bad-argument"

    # ------------------------------------------------------------- junk
    def junk(self):
        """Text that cannot continue ANY complete sentence: it starts (possibly after one SP) with a character
        that is neither part of a token that may end a sentence nor able to start a further argument."""
        first = self.pick([")", " )", "\x00", " \x7f", " \x00", "\x01", ") x", "))"])
        tail = self.pick(["", "", "x", " garbage", " NOOP", ' "q"', "(", "1:*", " {3}\r\nabc"])
        return first + tail

    # --------------------------------------------------------- mutations
    def mutate(self, text, other):
        ops = []
        for _ in range(self.n(1, 3)):
            m = self.n(0, 12)
            L = len(text)
            pos = self.n(0, L) if L else 0
            if m == 0:
                text = text[:pos]
                ops.append("truncate")
            elif m == 1 and L:
                k = self.n(1, 3)
                text = text[:pos] + text[pos + k :]
                ops.append("delete")
            elif m <= 4:
                ch = self.pick(MUT_CHARS)
                text = text[:pos] + ch + text[pos:]
                ops.append("insert")
            elif m <= 6 and L:
                ch = self.pick(MUT_CHARS)
                p = min(pos, L - 1)
                text = text[:p] + ch + text[p + 1 :]
                ops.append("replace")
            elif m == 7 and L:
                k = self.n(1, 8)
                text = text[:pos] + text[pos : pos + k] * self.n(2, 3) + text[pos + k :]
                ops.append("dup")
            elif m == 8:
                cut = self.n(0, len(other))
                text = text[:pos] + other[cut:]
                ops.append("splice")
            elif m == 9:
                # change a literal count or a number
                nums = list(re.finditer(r"\d+", text))
                if nums:
                    mt = nums[self.n(0, len(nums) - 1)]
                    cur = int(mt.group()[:18])
                    new = self.pick(["0", "00", str(cur + 1), str(max(0, cur - 1)), "4294967296", "18446744073709551616", "99999999999999999999999", mt.group()[:40] * 2])
                    text = text[: mt.start()] + new + text[mt.end() :]
                    ops.append("number")
            elif m == 10:
                text = text[:pos] + self.pick(["\r\n", "\n", "\r", " \r\n", "\r\n "]) + text[pos:]
                ops.append("crlf")
            elif m == 11 and self.chance(1, 3):
                if self.chance(1, 2):
                    # deep nesting of search keys / parentheses
                    opener = self.pick(["(", "NOT ", "OR ALL ", "NOT ("])
                    depth = self.pick([50, 200, 1000, 3000])
                    text = self.pick(["a SEARCH ", "a UID SEARCH ", text[:pos]]) + opener * depth + self.pick(["ALL", "", "ALL" + ")" * depth])
                    ops.append("nest")
                    continue
                nums = list(re.finditer(r"\d+", text))
                if nums:
                    mt = nums[self.n(0, len(nums) - 1)]
                    text = text[: mt.start()] + self.pick(["1", "9", "0"]) * self.pick([4300, 4301, 5000]) + text[mt.end() :]
                    ops.append("digits")
            else:
                words = text.split(" ")
                if len(words) > 2:
                    i = self.n(1, len(words) - 1)
                    j = self.n(1, len(words) - 1)
                    words[i], words[j] = words[j], words[i]
                    text = " ".join(words)
                    ops.append("swap")
        return text, ops

    def random_line(self):
        toks = []
        for _ in range(self.n(0, 8)):
            m = self.n(0, 3)
            if m == 0:
                toks.append(self.pick(RANDOM_TOKENS))
            elif m == 1:
                toks.append(self.pick(MUT_CHARS))
            elif m == 2:
                toks.append(" ")
            else:
                toks.append(chr(self.n(0, 255)))
        return "".join(toks)


MUT_CHARS = list(' ()[]{}<>"\\*%+-.,:;\r\n\x00\x7f\xff0123456789~') + ["{3}\r\n", "{0}\r\n", "{1+}\r\n", '""', "()", "NIL", "{", "}\r\n", "\\\\", '\\"', " ", "  "]
RANDOM_TOKENS = (
    ["a ", "A1 ", "UID ", "FLAGS", "+FLAGS", ".SILENT", "BODY[", "BODY.PEEK[", "]", "<0.1>", "HEADER.FIELDS ", "RETURN ", "CHARSET ", "1:*", "1,2", "*",
     '"', '""', '"a"', "{1}\r\nx", "{0}\r\n", "{2+}\r\n", "(", ")", "NIL", "1-Jan-2020", '"01-Jan-2020 00:00:00 +0000"', "inbox", "\\Seen", "OR ", "NOT "]
    + [c + " " for c in ALL_COMMANDS]
    + [k + " " for k in DATE_KEYS + STRING_KEYS + ["ALL", "NEW", "HEADER", "LARGER", "KEYWORD", "UNDRAFT", "TEXT"]]
    + SIMPLE_FETCH + STATUS_ATTS + LIST_SELECT
)


# ------------------------------------------------------------------ strategy


def trace_strategy(open_ids=frozenset(), mix=None):
    """Hypothesis strategy for one C08 trace."""
    mix = mix or {"valid": 66, "junk": 8, "invalid": 7, "mutant": 15, "random": 4}
    kinds = []
    for k in ("valid", "junk", "invalid", "mutant", "random"):
        kinds += [k] * mix.get(k, 0)

    @st.composite
    def one(draw):
        g = G(draw, open_ids=open_ids)
        kind = g.pick(kinds)
        tr = {"kind": kind}
        if kind == "valid":
            text, ast = g.sentence()
            tr.update(text=text, ast=ast, cause=g.cause)
        elif kind == "junk":
            g.allow_risky = False
            text, ast = g.sentence()
            j = g.junk()
            tr.update(text=text + j, base=text, junk=j)
        elif kind == "invalid":
            text, cls = g.invalid()
            tr.update(text=text, cls=cls)
        elif kind == "mutant":
            text, _ = g.sentence()
            other, _ = G(draw, allow_risky=True).sentence() if g.chance(1, 3) else (text, None)
            mtext, ops = g.mutate(text, other)
            tr.update(text=mtext, base=text, ops=ops)
        else:
            tr.update(text=g.random_line())
        tr["labels"] = sorted(g.labels)
        if g.excluded:
            tr["excluded"] = sorted(g.excluded)
        return tr

    return one()

#!/bin/bash
# Offline setup: make sure hypothesis (and atheris for the fuzz targets) are
# importable by /venv/bin/python. Installs from the local wheelhouse only.
cd "$(dirname "$0")" || exit 1
PY=/venv/bin/python
export PIP_NO_INDEX=1
if ! PYTHONPATH="$PWD/.deps" $PY -c "import hypothesis" 2>/dev/null; then
  $PY -m pip install --no-index --find-links /opt/veriftools/wheels --target "$PWD/.deps" hypothesis >/dev/null 2>&1 || exit 1
fi
if ! PYTHONPATH="$PWD/.deps" $PY -c "import atheris" 2>/dev/null; then
  $PY -m pip install --no-index --find-links /opt/veriftools/wheels --target "$PWD/.deps" atheris >/dev/null 2>&1 || true
fi
mkdir -p evidence/replay
exit 0

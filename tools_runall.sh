#!/bin/bash
# Run every registered check (quick tier by default) and summarise.  Usage: tools_runall.sh [tier] [ids...]
cd "$(dirname "$0")"
tier=${1:-quick}; shift
ids=${@:-C01 C02 C03 C04 C05 C06 C07 C08 C09 C10 C11 C12 C13 C14 C15 C16 C17 C18 C19 C20}
mkdir -p /tmp/scratch/runall
for id in $ids; do
  s=$(date +%s)
  timeout 7200 ./check $id --tier $tier > /tmp/scratch/runall/$id.out 2>&1
  rc=$?
  e=$(date +%s)
  echo "$id rc=$rc $((e-s))s $(grep -c '^VIOLATION' /tmp/scratch/runall/$id.out) violation-lines; $(grep -E "^$id (quick|thorough)" /tmp/scratch/runall/$id.out | tail -1)"
done

#!/bin/bash
# tools_mut.sh <patch> <check-id> [extra check args]  - run a check against /repo HEAD + patch in a scratch worktree
set -u
PATCH=$(realpath "$1"); shift
ID=$1; shift
WT=/tmp/scratch/mut-$$
git -C /repo worktree add -q --detach "$WT" HEAD || exit 2
( cd "$WT" && git apply "$PATCH" ) || { echo "PATCH DOES NOT APPLY"; git -C /repo worktree remove --force "$WT"; exit 2; }
( cd "$WT" && /venv/bin/python -c "import asimap.mbox, asimap.client, asimap.parse, asimap.search, asimap.fetch, asimap.user_server" ) || echo "IMPORT FAILS"
VERIF_REPO="$WT" timeout 3000 /verif/check "$ID" "$@" 2>&1 | grep -E "VIOLATION|clause=|quick seed|thorough seed|HARNESS" | cut -c1-220 | head -12
git -C /repo worktree remove --force "$WT"
